(* C03 / C09 / C14: verify, diff, verify -dh over the tree model: classification of every visited file, exit-code
   selection, totality, and that these commands return the tree untouched. *)
From Coq Require Import Lia Permutation.
From MHL Require Import Model.Commands Gen.Generated Proofs.BaseFacts Proofs.SealFacts.

Lemma sorted_paths_nil l : sorted_paths l = [] <-> l = [].
Proof.
  unfold sorted_paths. split; [|intros ->; reflexivity]. intros H.
  assert (Hl : length (sort path_leb l) = length l) by apply sort_length. rewrite H in Hl. destruct l; [reflexivity|discriminate].
Qed.
Lemma sorted_paths_In l p : In p (sorted_paths l) <-> In p l.
Proof. apply sort_In. Qed.

Section Verify.
  Variable Hb : fmt -> bytes -> bytes.
  Variable matches : list text -> text -> bool.
  Variable C : Type.
  Variable cdig : C -> text.
  Notation node := (node C).

  (* the file's reference: the first `original` entry recorded for it in the history it is routed to *)
  Definition reference (hs : list lhist) (p : path) : option entry :=
    let h := route hs (root_hist hs) p in
    find_original (lh_gens h) (fold_left prev_step (lh_gens (root_hist hs)) (strip_prefix (lh_root h) p)).

  Inductive cls := Skip | IsNew | IsBad | IsGood | Unhashed.
  Definition cls_eqb (a b : cls) : bool :=
    match a, b with Skip, Skip | IsNew, IsNew | IsBad, IsBad | IsGood, IsGood | Unhashed, Unhashed => true | _, _ => false end.
  Definition classify (hs : list lhist) (hash : bool) (only : option path) (x : path * bytes) : cls :=
    if negb (match only with Some q => path_eqb (fst x) q | None => true end) then Skip
    else match reference hs (fst x) with
         | None => IsNew
         | Some e => if hash then if text_eqb (e_digest e) (digest_text Hb (e_fmt e) (snd x)) then IsGood else IsBad else Unhashed
         end.
  Lemma verify_file_cls hs hash only acc x :
    verify_file Hb hs hash only acc x =
    match classify hs hash only x with
    | Skip | Unhashed => acc
    | IsNew => mkVS (vs_new acc ++ [fst x]) (vs_bad acc) (vs_found acc)
    | IsBad => mkVS (vs_new acc) (vs_bad acc ++ [fst x]) true
    | IsGood => mkVS (vs_new acc) (vs_bad acc) true
    end.
  Proof.
    destruct x as [p c]. unfold verify_file, classify. cbn [fst snd]. fold (reference hs p).
    destruct (negb _); [reflexivity|]. destruct (reference hs p) as [e|]; [|reflexivity].
    destruct hash; [|reflexivity]. destruct (text_eqb _ _); reflexivity.
  Qed.
  Lemma verify_file_fold hs hash only : forall files acc,
    vs_new (fold_left (verify_file Hb hs hash only) files acc)
      = vs_new acc ++ map fst (filter (fun x => cls_eqb (classify hs hash only x) IsNew) files) /\
    vs_bad (fold_left (verify_file Hb hs hash only) files acc)
      = vs_bad acc ++ map fst (filter (fun x => cls_eqb (classify hs hash only x) IsBad) files).
  Proof.
    induction files as [|x files IH]; intros acc; cbn [fold_left filter map].
    - rewrite !app_nil_r. split; reflexivity.
    - destruct (IH (verify_file Hb hs hash only acc x)) as [H1 H2]. rewrite H1, H2. rewrite verify_file_cls.
      destruct (classify hs hash only x); cbn [cls_eqb vs_new vs_bad map]; rewrite <- ?app_assoc; split; reflexivity.
  Qed.

  Lemma no_bad_without_hash hs only l :
    map fst (filter (fun x => cls_eqb (classify hs false only x) IsBad) l) = [].
  Proof.
    induction l as [|x l IHl]; [reflexivity|]. cbn [filter].
    assert (Hx : cls_eqb (classify hs false only x) IsBad = false).
    { unfold classify. destruct (negb _); [reflexivity|]. destruct (reference hs (fst x)); reflexivity. }
    rewrite Hx. exact IHl.
  Qed.

  (* ---- verify (folder mode) and diff, as total functions of the tree: result in closed form ---- *)
  Record vresult := mkVR { vr_code : Z; vr_missing : list path; vr_mismatch : list path; vr_new : list path }.
  Definition verify_result (is_diff : bool) (t : node) (ipats ifile : list text) : option vresult :=
    match load C cdig t with
    | inr _ => None
    | inl hs =>
        match lh_gens (root_hist hs) with
        | [] => None
        | _ =>
            let o := snd (verify_like Hb matches C cdig is_diff t None ipats ifile) in
            match o_outcome o with
            | Exit c => Some (mkVR c (o_missing o) (o_mismatch o) (o_new o))
            | Abort => None
            end
        end
    end.

  (* exit-code selection: verify 11 > 21 > 10 > 0, diff 10 > 21 > 0 -- the codes themselves are obligations on the
     regenerated constants *)
  Theorem verify_exit_selection t ipats ifile r : verify_result false t ipats ifile = Some r ->
    vr_code r = (match vr_mismatch r, vr_new r, vr_missing r with
                 | _ :: _, _, _ => 11 | [], _ :: _, _ => 21 | [], [], _ :: _ => 10 | [], [], [] => 0 end)%Z.
  Proof.
    unfold verify_result, verify_like, verify_core. destruct (load C cdig t) as [hs|e]; [|discriminate].
    destruct (lh_gens (root_hist hs)) as [|g0 gs] eqn:Eg; [discriminate|]. cbn [snd o_outcome o_missing o_mismatch o_new].
    intros [= <-]. cbn [vr_code vr_mismatch vr_new vr_missing].
    set (vs := fold_left _ _ _). set (miss := sorted_paths _).
    destruct (vs_bad vs) as [|b bs] eqn:Eb.
    - change (sorted_paths []) with (@nil path).
      destruct (vs_new vs) as [|n ns] eqn:En.
      + change (sorted_paths []) with (@nil path). destruct miss; reflexivity.
      + destruct (sorted_paths (n :: ns)) eqn:Es; [apply (proj1 (sorted_paths_nil _)) in Es; discriminate Es|reflexivity].
    - destruct (sorted_paths (b :: bs)) eqn:Es; [apply (proj1 (sorted_paths_nil _)) in Es; discriminate Es|reflexivity].
  Qed.
  Theorem diff_exit_selection t ipats ifile r : verify_result true t ipats ifile = Some r ->
    vr_code r = (match vr_missing r, vr_new r with _ :: _, _ => 10 | [], _ :: _ => 21 | [], [] => 0 end)%Z.
  Proof.
    unfold verify_result, verify_like, verify_core. destruct (load C cdig t) as [hs|e]; [|discriminate].
    destruct (lh_gens (root_hist hs)) as [|g0 gs] eqn:Eg; [discriminate|]. cbn [snd o_outcome o_missing o_mismatch o_new].
    intros [= <-]. cbn [vr_code vr_mismatch vr_new vr_missing].
    set (vs := fold_left _ _ _). set (miss := sorted_paths _).
    destruct miss; [|reflexivity].
    destruct (vs_new vs) as [|n ns] eqn:En; [reflexivity|].
    destruct (sorted_paths (n :: ns)) eqn:Es; [apply (proj1 (sorted_paths_nil _)) in Es; discriminate Es|reflexivity].
  Qed.

  (* what is reported: a visited file is named as altered exactly when its bytes no longer hash to the first
     `original` digest recorded for it (in that entry's format); as new exactly when it has no such reference *)
  Theorem verify_reports t ipats ifile hs : load C cdig t = inl hs -> lh_gens (root_hist hs) <> [] ->
    let spec := set_patterns (latest_patterns (lh_gens (root_hist hs))) ipats (pattern_file_lines ifile) in
    let files := ev_files (events matches C spec [] t) in
    let o := snd (verify_like Hb matches C cdig false t None ipats ifile) in
    (forall p, In p (o_mismatch o) <->
       exists c e, In (p, c) files /\ reference hs p = Some e /\ e_digest e <> digest_text Hb (e_fmt e) c) /\
    (forall p, In p (o_new o) <-> exists c, In (p, c) files /\ reference hs p = None).
  Proof.
    intros Hl Hg. cbn zeta. unfold verify_like, verify_core. rewrite Hl. destruct (lh_gens (root_hist hs)) as [|g0 gs] eqn:Eg; [congruence|].
    cbn [snd o_mismatch o_new].
    destruct (verify_file_fold hs (negb false) None
                (ev_files (events matches C (set_patterns (latest_patterns (g0 :: gs)) ipats (pattern_file_lines ifile)) [] t))
                (mkVS [] [] false)) as [H1 H2].
    split; intros p; rewrite sorted_paths_In.
    - rewrite H2. cbn [vs_bad app negb]. rewrite in_map_iff. split.
      + intros [[p0 c] [<- Hin]]. apply filter_In in Hin. destruct Hin as [Hin Hc]. unfold classify in Hc. cbn [negb fst snd] in Hc.
        destruct (reference hs p0) as [e|] eqn:Er; [|discriminate].
        destruct (text_eqb_spec (e_digest e) (digest_text Hb (e_fmt e) c)); [discriminate|].
        exists c, e. auto.
      + intros [c [e [Hin [Hr Hd]]]]. exists (p, c). split; [reflexivity|]. apply filter_In. split; [exact Hin|].
        unfold classify. cbn [negb fst snd]. rewrite Hr. destruct (text_eqb_spec (e_digest e) (digest_text Hb (e_fmt e) c)); [contradiction|reflexivity].
    - rewrite H1. cbn [vs_new app negb]. rewrite in_map_iff. split.
      + intros [[p0 c] [<- Hin]]. apply filter_In in Hin. destruct Hin as [Hin Hc]. unfold classify in Hc. cbn [negb fst snd] in Hc.
        destruct (reference hs p0) as [e|] eqn:Er; [destruct (text_eqb _ _); discriminate|]. exists c. auto.
      + intros [c [Hin Hr]]. exists (p, c). split; [reflexivity|]. apply filter_In. split; [exact Hin|].
        unfold classify. cbn [negb fst snd]. rewrite Hr. reflexivity.
  Qed.

  (* ---- verify -pl: the same statements for the packing list loaded as a one-generation history ---- *)
  Theorem verify_pl_total t pl ip ifl : exists c, o_outcome (snd (verify_pl Hb matches C t pl ip ifl)) = Exit c.
  Proof. unfold verify_pl, verify_core. destruct pl as [g|]; cbn; eauto. Qed.
  Theorem verify_pl_leaves_tree t pl ip ifl :
    fst (verify_pl Hb matches C t pl ip ifl) = t /\ o_ops (snd (verify_pl Hb matches C t pl ip ifl)) = [] /\
    o_written (snd (verify_pl Hb matches C t pl ip ifl)) = [].
  Proof. unfold verify_pl, verify_core. destruct pl as [g|]; cbn; auto. Qed.
  Theorem verify_pl_exit_selection t g ip ifl :
    let o := snd (verify_pl Hb matches C t (Some g) ip ifl) in
    o_outcome o = Exit (match o_mismatch o, o_new o, o_missing o with
                        | _ :: _, _, _ => 11 | [], _ :: _, _ => 21 | [], [], _ :: _ => 10 | [], [], [] => 0 end)%Z.
  Proof.
    cbn zeta. unfold verify_pl, verify_core. cbn [root_hist pl_history lh_gens last]. cbn [snd o_outcome o_missing o_mismatch o_new].
    set (vs := fold_left _ _ _). set (miss := sorted_paths _).
    destruct (vs_bad vs) as [|b bs] eqn:Eb.
    - change (sorted_paths []) with (@nil path).
      destruct (vs_new vs) as [|n ns] eqn:En.
      + change (sorted_paths []) with (@nil path). destruct miss; reflexivity.
      + destruct (sorted_paths (n :: ns)) eqn:Es; [apply (proj1 (sorted_paths_nil _)) in Es; discriminate Es|reflexivity].
    - destruct (sorted_paths (b :: bs)) eqn:Es; [apply (proj1 (sorted_paths_nil _)) in Es; discriminate Es|reflexivity].
  Qed.
  (* what is reported against a packing list: altered = bytes no longer hash to the first `original` digest the packing
     list holds for the path (in that entry's format); new = no such entry *)
  Theorem verify_pl_reports t g ip ifl :
    let hs := [pl_history g] in
    let spec := set_patterns (g_patterns g) ip (pattern_file_lines ifl) in
    let files := ev_files (events matches C spec [] t) in
    let o := snd (verify_pl Hb matches C t (Some g) ip ifl) in
    (forall p, In p (o_mismatch o) <->
       exists c e, In (p, c) files /\ reference hs p = Some e /\ e_digest e <> digest_text Hb (e_fmt e) c) /\
    (forall p, In p (o_new o) <-> exists c, In (p, c) files /\ reference hs p = None).
  Proof.
    cbn zeta. unfold verify_pl, verify_core. cbn [root_hist pl_history lh_gens last latest_patterns rev app g_patterns].
    cbn [snd o_mismatch o_new].
    match goal with |- context [fold_left (verify_file Hb ?hs ?h ?o) ?l ?a] => destruct (verify_file_fold hs h o l a) as [H1 H2] end.
    split; intros p; rewrite sorted_paths_In.
    - rewrite H2. cbn [vs_bad app negb]. rewrite in_map_iff. split.
      + intros [[p0 c] [<- Hin]]. apply filter_In in Hin. destruct Hin as [Hin Hc]. unfold classify in Hc. cbn [negb fst snd] in Hc.
        destruct (reference _ p0) as [e|] eqn:Er; [|discriminate].
        destruct (text_eqb_spec (e_digest e) (digest_text Hb (e_fmt e) c)); [discriminate|].
        exists c, e. auto.
      + intros [c [e [Hin [Hr Hd]]]]. exists (p, c). split; [reflexivity|]. apply filter_In. split; [exact Hin|].
        unfold classify. cbn [negb fst snd]. rewrite Hr. destruct (text_eqb_spec (e_digest e) (digest_text Hb (e_fmt e) c)); [contradiction|reflexivity].
    - rewrite H1. cbn [vs_new app negb]. rewrite in_map_iff. split.
      + intros [[p0 c] [<- Hin]]. apply filter_In in Hin. destruct Hin as [Hin Hc]. unfold classify in Hc. cbn [negb fst snd] in Hc.
        destruct (reference _ p0) as [e|] eqn:Er; [destruct (text_eqb _ _); discriminate|]. exists c. auto.
      + intros [c [Hin Hr]]. exists (p, c). split; [reflexivity|]. apply filter_In. split; [exact Hin|].
        unfold classify. cbn [negb fst snd]. rewrite Hr. reflexivity.
  Qed.

  (* ---- C14: the reading commands return the tree they were given ---- *)
  Theorem readers_leave_tree t :
    (forall d only ip ifl, fst (verify_like Hb matches C cdig d t only ip ifl) = t) /\
    (forall f co ro ip ifl, fst (verify_dh Hb matches C cdig t f co ro ip ifl) = t) /\
    fst (info C cdig t) = t /\ (forall file, fst (info_sf C cdig t file) = t) /\
    (forall ip ifl, fst (flatten C cdig t ip ifl) = t).
  Proof.
    repeat split; intros; unfold verify_like, verify_core, verify_dh, info, info_sf, flatten;
      destruct (load C cdig t) as [hs|e]; try reflexivity; destruct (lh_gens (root_hist hs)); reflexivity.
  Qed.
  Theorem readers_write_nothing t :
    (forall d only ip ifl, o_ops (snd (verify_like Hb matches C cdig d t only ip ifl)) = [] /\ o_written (snd (verify_like Hb matches C cdig d t only ip ifl)) = []) /\
    (forall f co ro ip ifl, o_ops (snd (verify_dh Hb matches C cdig t f co ro ip ifl)) = [] /\ o_written (snd (verify_dh Hb matches C cdig t f co ro ip ifl)) = []) /\
    (o_ops (snd (info C cdig t)) = [] /\ o_written (snd (info C cdig t)) = []) /\
    (forall file, o_ops (snd (info_sf C cdig t file)) = [] /\ o_written (snd (info_sf C cdig t file)) = []) /\
    (forall ip ifl, o_ops (snd (flatten C cdig t ip ifl)) = []).
  Proof.
    repeat split; intros; unfold verify_like, verify_core, verify_dh, info, info_sf, flatten;
      destruct (load C cdig t) as [hs|e]; try reflexivity; destruct (lh_gens (root_hist hs)); reflexivity.
  Qed.

  (* the reading commands always end with an exit code: no internal error in verify, diff, info, info -sf, flatten *)
  Theorem readers_total t :
    (forall d only ip ifl, exists c, o_outcome (snd (verify_like Hb matches C cdig d t only ip ifl)) = Exit c) /\
    (exists c, o_outcome (snd (info C cdig t)) = Exit c) /\ (forall file, exists c, o_outcome (snd (info_sf C cdig t file)) = Exit c) /\
    (forall ip ifl, exists c, o_outcome (snd (flatten C cdig t ip ifl)) = Exit c).
  Proof.
    repeat split; intros; unfold verify_like, verify_core, info, info_sf, flatten;
      destruct (load C cdig t) as [hs|e]; try (eexists; reflexivity); destruct (lh_gens (root_hist hs)); eexists; reflexivity.
  Qed.

  (* ---- C09: verify -dh ---- *)
  (* never an internal error: the command always ends with an exit code, 0 or the directory-verification code *)
  Theorem verify_dh_total t f co ro ip ifl :
    exists c, o_outcome (snd (verify_dh Hb matches C cdig t f co ro ip ifl)) = Exit c.
  Proof. unfold verify_dh. destruct (load C cdig t); eexists; reflexivity. Qed.

  (* the formats whose recorded hashes no longer match, for one run *)
  Definition dh_failed (hs : list lhist) (t : node) (ofmt : option fmt) (co ro : bool) (spec : list text) : list fmt :=
    let rooth := root_hist hs in
    let fmts := sort_fmts (dh_formats hs ofmt) in
    let evs := events matches C spec [] t in
    dedup_fmts
      ((if ro then []
        else flat_map (fun p => let h := route hs rooth p in
                                dh_failures Hb matches C spec fmts t p
                                  (map snd (find_directory_entries (lh_gens h) (strip_prefix (lh_root h) p)))) (ev_dirs evs))
       ++ (if co then []
           else dh_failures Hb matches C spec fmts t []
                  (flat_map (fun g => match g_root g with Some es => es | None => [] end) (lh_gens rooth)))).

  Theorem verify_dh_exit t hs ofmt co ro ip ifl : load C cdig t = inl hs ->
    let spec := set_patterns (latest_patterns (lh_gens (root_hist hs))) ip (pattern_file_lines ifl) in
    o_outcome (snd (verify_dh Hb matches C cdig t ofmt co ro ip ifl)) =
    Exit (match dh_failed hs t ofmt co ro spec with
          | [] => 0
          | failed => if forallb (fun f => memf f failed) (dh_judged hs ofmt) then exit_verification_directories_failed else 0
          end)%Z.
  Proof.
    intros Hl. cbn zeta. unfold verify_dh, dh_failed. rewrite Hl. cbn [snd o_outcome]. f_equal.
    match goal with |- match ?X with _ => _ end = _ => destruct X end; reflexivity.
  Qed.
  Theorem dh_code_is_12 : exit_verification_directories_failed = 12%Z.
  Proof. reflexivity. Qed.

  (* a recorded entry counts as failed exactly when the content or the structure hash computed now differs (or the
     folder is gone); entries directly in the root folder are judged like all others *)
  Theorem dh_failures_spec spec fmts t p es f :
    In f (dh_failures Hb matches C spec fmts t p es) <->
    exists e, In e es /\ e_fmt e = f /\ memf f fmts = true /\
              match get C t p with
              | Some d => match dirhash Hb matches C spec f p d with
                          | Some cs => dh_entry_ok e cs = false
                          | None => True
                          end
              | None => True
              end.
  Proof.
    unfold dh_failures. rewrite in_flat_map. split.
    - intros [e [He Hin]]. exists e. split; [exact He|].
      destruct (memf (e_fmt e) fmts) eqn:Em; [|destruct Hin].
      destruct (get C t p) as [d|].
      + destruct (dirhash Hb matches C spec (e_fmt e) p d) as [cs|] eqn:Ed.
        * destruct (dh_entry_ok e cs) eqn:Eo; [destruct Hin|]. destruct Hin as [<-|[]]. rewrite Em, Ed. auto.
        * destruct Hin as [<-|[]]. rewrite Em, Ed. auto.
      + destruct Hin as [<-|[]]. rewrite Em. auto.
    - intros [e [He [<- [Hm H]]]]. exists e. split; [exact He|]. rewrite Hm.
      destruct (get C t p) as [d|]; [|left; reflexivity].
      destruct (dirhash Hb matches C spec (e_fmt e) p d) as [cs|]; [|left; reflexivity].
      rewrite H. left. reflexivity.
  Qed.
End Verify.

Section CreateExit.
  Variable Hb : fmt -> bytes -> bytes.
  Variable matches : list text -> text -> bool.
  Variable C : Type.
  Variable cdig : C -> text.
  Variable ser : gen -> C.
  (* create's exit: 11 when a recorded format failed, else 10 when a recorded entry is missing (never 0 then), else
     30 when a referenced nested history folder vanished, else 0; missing entries are exactly the reported ones *)
  Theorem create_exit_selection t req no_dh dr ip ifl hs : load C cdig t = inl hs ->
    let o := snd (create_folder Hb matches C cdig ser t req no_dh dr ip ifl) in
    (o_outcome o = Abort \/ o_outcome o = Exit 11 \/ o_outcome o = Exit 10 \/ o_outcome o = Exit 30 \/ o_outcome o = Exit 0) /\
    (o_outcome o = Exit 0 -> o_missing o = []) /\
    (o_outcome o = Exit 30 -> o_missing o = []) /\
    (o_outcome o = Exit 10 -> o_missing o <> []).
  Proof.
    intros Hl. cbn zeta. unfold create_folder. rewrite Hl.
    destruct (fold_left _ _ _) as [sess fails]. cbn [snd o_outcome o_missing].
    destruct (cs_abort C _ || dr_abort _)%bool eqn:Ea; [repeat split; intros; try discriminate; auto 10|].
    destruct (Nat.ltb 0 fails); [repeat split; intros; try discriminate; auto 10|].
    destruct (sorted_paths (missing _ _ _)) as [|m ms] eqn:Em.
    - destruct (missing_history_folders C hs t); repeat split; intros; try discriminate; auto 10.
    - repeat split; intros; try discriminate; auto 10.
  Qed.
  (* the number of failed formats of one visited file: those of its seal decision in the history it is routed to *)
  Definition file_failures (hs : list lhist) (fmts : list fmt) (x : path * bytes) : nat :=
    let h := route hs (root_hist hs) (fst x) in
    length (filter (fun r : fmt * bool => negb (snd r))
                   (snd (seal (lh_gens h) (strip_prefix (lh_root h) (fst x)) (fun f => digest_text Hb f (snd x)) fmts))).
  Lemma fold_events_fails hs fmts no_dh spec t : forall evs s f,
    snd (fold_left (process_event Hb matches C hs fmts no_dh spec t) evs (s, f)) =
    f + list_sum (map (file_failures hs fmts) (ev_files evs)).
  Proof.
    induction evs as [|e evs IH]; intros s f; cbn [fold_left]; [cbn; lia|].
    destruct e as [p c|p k]; cbn [process_event].
    - unfold seal_file, route_to, rooth. destruct (seal _ _ _ fmts) as [es res] eqn:Es.
      rewrite IH. unfold ev_files at 2. cbn [flat_map app map list_sum]. fold (ev_files evs). unfold file_failures at 2. cbn [fst snd]. rewrite Es. cbn [snd]. unfold list_sum. cbn [fold_right]. lia.
    - rewrite IH. reflexivity.
  Qed.
  (* create exits 11 exactly when some visited file has a failed format -- unless the run aborts (validation) *)
  Theorem create_exit_11_iff t req no_dh ip ifl hs : load C cdig t = inl hs ->
    let spec := set_patterns (latest_patterns (lh_gens (root_hist hs))) ip (pattern_file_lines ifl) in
    let o := snd (create_folder Hb matches C cdig ser t req no_dh false ip ifl) in
    o_outcome o = Abort \/
    (o_outcome o = Exit 11 <-> exists x, In x (ev_files (events matches C spec [] t)) /\ file_failures hs (sort_fmts req) x <> 0).
  Proof.
    intros Hl. cbn zeta. unfold create_folder. rewrite Hl.
    match goal with |- context [fold_left ?f ?l ?i] => pose proof (fold_events_fails hs (sort_fmts req) no_dh
      (set_patterns (latest_patterns (lh_gens (root_hist hs))) ip (pattern_file_lines ifl)) t l [] 0 : snd (fold_left f l i) = _) as Hf; destruct (fold_left f l i) as [sess fails] end.
    cbn [snd] in Hf. cbn [snd o_outcome dr_abort dr_sess dr_found].
    destruct (cs_abort C _ || false)%bool; [left; reflexivity|right].
    set (L := map (file_failures hs (sort_fmts req)) _) in Hf. cbn [Nat.add] in Hf.
    assert (Hsum : fails <> 0 <-> exists x, In x (ev_files (events matches C (set_patterns (latest_patterns (lh_gens (root_hist hs))) ip (pattern_file_lines ifl)) [] t)) /\ file_failures hs (sort_fmts req) x <> 0).
    { rewrite Hf. unfold L. clear. induction (ev_files _) as [|x l IH]; cbn [map list_sum].
      - split; [intros H; exfalso; apply H; reflexivity|intros [x [[] _]]].
      - split.
        + intros H. destruct (Nat.eq_dec (file_failures hs (sort_fmts req) x) 0) as [E|E].
          * rewrite E in H. change (list_sum (map (file_failures hs (sort_fmts req)) l) <> 0) in H. apply IH in H. destruct H as [y [Hy Hn]]. exists y. split; [right; exact Hy|exact Hn].
          * exists x. split; [left; reflexivity|exact E].
        + unfold list_sum in *. cbn [fold_right]. intros [y [[<-|Hy] Hn]]; [lia|]. assert (fold_right Nat.add 0 (map (file_failures hs (sort_fmts req)) l) <> 0) by (apply IH; eauto). lia. }
    destruct (Nat.ltb_spec 0 fails) as [Hpos|Hz].
    - split; [intros _; apply Hsum; lia|reflexivity].
    - split.
      + intros H. exfalso. destruct (sorted_paths _); [destruct (missing_history_folders C hs t)|]; discriminate H.
      + intros H. apply Hsum in H. lia.
  Qed.
  (* a recorded path that is neither visited nor ignored makes create exit 10 and name it -- unless a format failed (11)
     or the run aborts *)
  Theorem create_missing_entry_detected t req no_dh ip ifl hs q : load C cdig t = inl hs ->
    let spec := set_patterns (latest_patterns (lh_gens (root_hist hs))) ip (pattern_file_lines ifl) in
    let o := snd (create_folder Hb matches C cdig ser t req no_dh false ip ifl) in
    In q (expected_paths hs) -> ~ In q (visited (events matches C spec [] t)) -> ignored matches spec q = false ->
    o_outcome o = Abort \/ o_outcome o = Exit 11 \/ (o_outcome o = Exit 10 /\ In q (o_missing o)).
  Proof.
    intros Hl. cbn zeta. intros Hexp Hnv Hign. unfold create_folder. rewrite Hl.
    destruct (fold_left _ _ _) as [sess fails]. cbn [snd o_outcome o_missing dr_abort dr_sess dr_found].
    destruct (cs_abort C _ || false)%bool; [left; reflexivity|right].
    destruct (Nat.ltb 0 fails); [left; reflexivity|right].
    match goal with |- context [sorted_paths ?m] => assert (Hq : In q (sorted_paths m)) end.
    { apply sorted_paths_In. unfold missing. apply filter_In. split; [|rewrite Hign; reflexivity].
      unfold diff_paths. apply filter_In. split; [|reflexivity]. apply filter_In. split; [exact Hexp|]. apply negb_true_iff.
      match goal with |- mem_path q ?v = false => destruct (mem_path q v) eqn:Em; [apply mem_path_In in Em; contradiction|reflexivity] end. }
    destruct (sorted_paths _) as [|m ms]; [destruct Hq|]. split; [reflexivity|exact Hq].
  Qed.
End CreateExit.

(* C03, "never a false one": a tree that is consistent with its loaded histories -- every visited file's bytes hash to
   the first original digest recorded for it, and every recorded path is visited or ignored -- verifies with exit 0 and
   empty reports, whatever formats, patterns or nesting were used *)
Section Consistent.
  Variable Hb : fmt -> bytes -> bytes.
  Variable matches : list text -> text -> bool.
  Variable C : Type.
  Variable cdig : C -> text.
  Definition consistent_tree (hs : list lhist) (t : node C) (spec : list text) : Prop :=
    (forall p c, In (p, c) (ev_files (events matches C spec [] t)) ->
       exists e, reference hs p = Some e /\ e_digest e = digest_text Hb (e_fmt e) c) /\
    missing matches spec (diff_paths (expected_paths hs) (visited (events matches C spec [] t))) = [].
  Theorem consistent_verifies t hs ipats ifile :
    load C cdig t = inl hs -> lh_gens (root_hist hs) <> [] ->
    consistent_tree hs t (set_patterns (latest_patterns (lh_gens (root_hist hs))) ipats (pattern_file_lines ifile)) ->
    verify_result Hb matches C cdig false t ipats ifile = Some (mkVR 0 [] [] []) /\
    verify_result Hb matches C cdig true t ipats ifile = Some (mkVR 0 [] [] []).
  Proof.
    intros Hl Hg [Hfiles Hmiss].
    pose proof (verify_reports Hb matches C cdig t ipats ifile hs Hl Hg) as Hrep. cbn zeta in Hrep. destruct Hrep as [Hbad Hnew].
    assert (Eb : o_mismatch (snd (verify_like Hb matches C cdig false t None ipats ifile)) = []).
    { destruct (o_mismatch _) as [|p l] eqn:E; [reflexivity|]. exfalso.
      destruct (proj1 (Hbad p) (or_introl eq_refl)) as [c [e [Hin [Hr Hd]]]].
      destruct (Hfiles p c Hin) as [e' [Hr' Hd']]. rewrite Hr in Hr'. injection Hr' as <-. contradiction. }
    assert (En : o_new (snd (verify_like Hb matches C cdig false t None ipats ifile)) = []).
    { destruct (o_new _) as [|p l] eqn:E; [reflexivity|]. exfalso.
      destruct (proj1 (Hnew p) (or_introl eq_refl)) as [c [Hin Hr]].
      destruct (Hfiles p c Hin) as [e' [Hr' _]]. congruence. }
    unfold verify_result. rewrite Hl. destruct (lh_gens (root_hist hs)) as [|g0 gs] eqn:Eg; [congruence|].
    unfold verify_like, verify_core in *. rewrite Hl, Eg in *. cbn [snd o_outcome o_missing o_mismatch o_new] in *.
    rewrite Hmiss. change (sorted_paths []) with (@nil path).
    apply (proj1 (sorted_paths_nil _)) in Eb. apply (proj1 (sorted_paths_nil _)) in En.
    split.
    - rewrite Eb, En. reflexivity.
    - (* diff: the same fold without hashing *)
      destruct (verify_file_fold Hb hs (negb true) None
                  (ev_files (events matches C (set_patterns (latest_patterns (g0 :: gs)) ipats (pattern_file_lines ifile)) [] t))
                  (mkVS [] [] false)) as [H1 H2].
      assert (En' : vs_new (fold_left (verify_file Hb hs (negb true) None)
                    (ev_files (events matches C (set_patterns (latest_patterns (g0 :: gs)) ipats (pattern_file_lines ifile)) [] t)) (mkVS [] [] false)) = []).
      { rewrite H1. cbn [vs_new app]. destruct (map fst (filter _ _)) as [|p l] eqn:E; [reflexivity|]. exfalso.
        assert (Hin : In p (map fst (filter (fun x => cls_eqb (classify Hb hs (negb true) None x) IsNew)
                   (ev_files (events matches C (set_patterns (latest_patterns (g0 :: gs)) ipats (pattern_file_lines ifile)) [] t))))) by (rewrite E; left; reflexivity).
        apply in_map_iff in Hin. destruct Hin as [[p0 c] [<- Hin]]. apply filter_In in Hin. destruct Hin as [Hin Hc].
        unfold classify in Hc. cbn [negb fst snd] in Hc. destruct (Hfiles p0 c Hin) as [e [Hr _]]. rewrite Hr in Hc. discriminate. }
      assert (Eb' : vs_bad (fold_left (verify_file Hb hs (negb true) None)
                    (ev_files (events matches C (set_patterns (latest_patterns (g0 :: gs)) ipats (pattern_file_lines ifile)) [] t)) (mkVS [] [] false)) = []).
      { rewrite H2. cbn [vs_bad app negb].
        apply no_bad_without_hash. }
      rewrite En', Eb'. reflexivity.
  Qed.
End Consistent.

(* C03, detection: whatever the tree looks like now, relative to the loaded histories --
   an altered file (its bytes no longer hash to the first original digest recorded for its path) is named and gives 11;
   an unrecorded file is named and gives 21 unless something was altered; a recorded path that is neither visited nor
   ignored is named and gives a non-zero code (10 unless 11 / 21 take precedence). *)
Section Detection.
  Variable Hb : fmt -> bytes -> bytes.
  Variable matches : list text -> text -> bool.
  Variable C : Type.
  Variable cdig : C -> text.

  Theorem altered_file_detected t hs ipats ifile p c e r :
    load C cdig t = inl hs ->
    In (p, c) (ev_files (events matches C (set_patterns (latest_patterns (lh_gens (root_hist hs))) ipats (pattern_file_lines ifile)) [] t)) ->
    reference hs p = Some e -> e_digest e <> digest_text Hb (e_fmt e) c ->
    verify_result Hb matches C cdig false t ipats ifile = Some r ->
    vr_code r = 11%Z /\ In p (vr_mismatch r).
  Proof.
    intros Hl Hin Hr Hd Hv. pose proof (verify_exit_selection Hb matches C cdig t ipats ifile r Hv) as Hcode.
    assert (Hg : lh_gens (root_hist hs) <> []) by (intros E; unfold verify_result in Hv; rewrite Hl, E in Hv; discriminate).
    pose proof (verify_reports Hb matches C cdig t ipats ifile hs Hl Hg) as Hrep. cbn zeta in Hrep. destruct Hrep as [Hbad _].
    assert (Hp : In p (o_mismatch (snd (verify_like Hb matches C cdig false t None ipats ifile)))) by (apply Hbad; exists c, e; auto).
    unfold verify_result in Hv. rewrite Hl in Hv. destruct (lh_gens (root_hist hs)) as [|g0 gs] eqn:Eg; [congruence|].
    destruct (o_outcome (snd (verify_like Hb matches C cdig false t None ipats ifile))) as [code|] eqn:Eo; [|discriminate].
    injection Hv as <-. cbn [vr_code vr_mismatch vr_new vr_missing] in *. split; [|exact Hp].
    destruct (o_mismatch (snd (verify_like Hb matches C cdig false t None ipats ifile))); [destruct Hp|exact Hcode].
  Qed.

  Theorem new_file_detected t hs ipats ifile p c r :
    load C cdig t = inl hs ->
    In (p, c) (ev_files (events matches C (set_patterns (latest_patterns (lh_gens (root_hist hs))) ipats (pattern_file_lines ifile)) [] t)) ->
    reference hs p = None ->
    verify_result Hb matches C cdig false t ipats ifile = Some r ->
    In p (vr_new r) /\ (vr_code r = 11%Z \/ vr_code r = 21%Z) /\ (vr_mismatch r = [] -> vr_code r = 21%Z).
  Proof.
    intros Hl Hin Hr Hv. pose proof (verify_exit_selection Hb matches C cdig t ipats ifile r Hv) as Hcode.
    assert (Hg : lh_gens (root_hist hs) <> []) by (intros E; unfold verify_result in Hv; rewrite Hl, E in Hv; discriminate).
    pose proof (verify_reports Hb matches C cdig t ipats ifile hs Hl Hg) as Hrep. cbn zeta in Hrep. destruct Hrep as [_ Hnew].
    assert (Hp : In p (o_new (snd (verify_like Hb matches C cdig false t None ipats ifile)))) by (apply Hnew; exists c; auto).
    unfold verify_result in Hv. rewrite Hl in Hv. destruct (lh_gens (root_hist hs)) as [|g0 gs] eqn:Eg; [congruence|].
    destruct (o_outcome (snd (verify_like Hb matches C cdig false t None ipats ifile))) as [code|] eqn:Eo; [|discriminate].
    injection Hv as <-. cbn [vr_code vr_mismatch vr_new vr_missing] in *. split; [exact Hp|].
    destruct (o_new (snd (verify_like Hb matches C cdig false t None ipats ifile))) as [|n0 ns]; [destruct Hp|].
    destruct (o_mismatch (snd (verify_like Hb matches C cdig false t None ipats ifile))); split; auto; intros; congruence.
  Qed.

  Theorem missing_entry_detected t hs ipats ifile q r :
    load C cdig t = inl hs ->
    let spec := set_patterns (latest_patterns (lh_gens (root_hist hs))) ipats (pattern_file_lines ifile) in
    In q (expected_paths hs) -> ~ In q (visited (events matches C spec [] t)) -> ignored matches spec q = false ->
    verify_result Hb matches C cdig false t ipats ifile = Some r ->
    In q (vr_missing r) /\ vr_code r <> 0%Z /\ (vr_mismatch r = [] -> vr_new r = [] -> vr_code r = 10%Z).
  Proof.
    intros Hl. cbn zeta. intros Hexp Hnv Hign Hv. pose proof (verify_exit_selection Hb matches C cdig t ipats ifile r Hv) as Hcode.
    assert (Hg : lh_gens (root_hist hs) <> []) by (intros E; unfold verify_result in Hv; rewrite Hl, E in Hv; discriminate).
    assert (Hq : In q (o_missing (snd (verify_like Hb matches C cdig false t None ipats ifile)))).
    { unfold verify_like, verify_core. rewrite Hl. destruct (lh_gens (root_hist hs)) as [|g0 gs] eqn:Eg; [congruence|]. cbn [snd o_missing]. apply sorted_paths_In. unfold missing. apply filter_In. split.
      - unfold diff_paths. apply filter_In. split; [exact Hexp|]. apply negb_true_iff.
        destruct (mem_path q (visited (events matches C (set_patterns (latest_patterns (g0 :: gs)) ipats (pattern_file_lines ifile)) [] t))) eqn:Em; [|reflexivity].
        apply mem_path_In in Em. contradiction.
      - rewrite Hign. reflexivity. }
    unfold verify_result in Hv. rewrite Hl in Hv. destruct (lh_gens (root_hist hs)) as [|g0 gs] eqn:Eg; [congruence|].
    destruct (o_outcome (snd (verify_like Hb matches C cdig false t None ipats ifile))) as [code|] eqn:Eo; [|discriminate].
    injection Hv as <-. cbn [vr_code vr_mismatch vr_new vr_missing] in *. split; [exact Hq|].
    destruct (o_missing (snd (verify_like Hb matches C cdig false t None ipats ifile))) as [|m0 ms]; [destruct Hq|].
    destruct (o_mismatch (snd (verify_like Hb matches C cdig false t None ipats ifile))), (o_new (snd (verify_like Hb matches C cdig false t None ipats ifile)));
      rewrite Hcode; split; try discriminate; intros; congruence.
  Qed.
  (* ---- the same for diff (no hashing): new and missing entries ---- *)
  Lemma diff_new_reports t ipats ifile hs : load C cdig t = inl hs -> lh_gens (root_hist hs) <> [] ->
    let spec := set_patterns (latest_patterns (lh_gens (root_hist hs))) ipats (pattern_file_lines ifile) in
    forall p, In p (o_new (snd (verify_like Hb matches C cdig true t None ipats ifile))) <->
              exists c, In (p, c) (ev_files (events matches C spec [] t)) /\ reference hs p = None.
  Proof.
    intros Hl Hg. cbn zeta. unfold verify_like, verify_core. rewrite Hl. destruct (lh_gens (root_hist hs)) as [|g0 gs] eqn:Eg; [congruence|].
    cbn [snd o_new]. intros p. rewrite sorted_paths_In.
    destruct (verify_file_fold Hb hs (negb true) None
                (ev_files (events matches C (set_patterns (latest_patterns (g0 :: gs)) ipats (pattern_file_lines ifile)) [] t))
                (mkVS [] [] false)) as [H1 _].
    rewrite H1. cbn [vs_new app negb]. rewrite in_map_iff. split.
    - intros [[p0 c] [<- Hin]]. apply filter_In in Hin. destruct Hin as [Hin Hc]. unfold classify in Hc. cbn [negb fst snd] in Hc.
      destruct (reference hs p0) as [e|] eqn:Er; [discriminate|]. exists c. auto.
    - intros [c [Hin Hr]]. exists (p, c). split; [reflexivity|]. apply filter_In. split; [exact Hin|].
      unfold classify. cbn [negb fst snd]. rewrite Hr. reflexivity.
  Qed.
  Theorem diff_new_file_detected t hs ipats ifile p c r :
    load C cdig t = inl hs ->
    In (p, c) (ev_files (events matches C (set_patterns (latest_patterns (lh_gens (root_hist hs))) ipats (pattern_file_lines ifile)) [] t)) ->
    reference hs p = None ->
    verify_result Hb matches C cdig true t ipats ifile = Some r ->
    In p (vr_new r) /\ (vr_code r = 10%Z \/ vr_code r = 21%Z) /\ (vr_missing r = [] -> vr_code r = 21%Z).
  Proof.
    intros Hl Hin Hr Hv. pose proof (diff_exit_selection Hb matches C cdig t ipats ifile r Hv) as Hcode.
    assert (Hg : lh_gens (root_hist hs) <> []) by (intros E; unfold verify_result in Hv; rewrite Hl, E in Hv; discriminate).
    assert (Hp : In p (o_new (snd (verify_like Hb matches C cdig true t None ipats ifile)))) by (apply (diff_new_reports t ipats ifile hs Hl Hg); exists c; auto).
    unfold verify_result in Hv. rewrite Hl in Hv. destruct (lh_gens (root_hist hs)) as [|g0 gs] eqn:Eg; [congruence|].
    destruct (o_outcome (snd (verify_like Hb matches C cdig true t None ipats ifile))) as [code|] eqn:Eo; [|discriminate].
    injection Hv as <-. cbn [vr_code vr_mismatch vr_new vr_missing] in *. split; [exact Hp|].
    destruct (o_new (snd (verify_like Hb matches C cdig true t None ipats ifile))) as [|n0 ns]; [destruct Hp|].
    destruct (o_missing (snd (verify_like Hb matches C cdig true t None ipats ifile))); rewrite Hcode; split; auto; intros; congruence.
  Qed.
  Theorem diff_missing_entry_detected t hs ipats ifile q r :
    load C cdig t = inl hs ->
    let spec := set_patterns (latest_patterns (lh_gens (root_hist hs))) ipats (pattern_file_lines ifile) in
    In q (expected_paths hs) -> ~ In q (visited (events matches C spec [] t)) -> ignored matches spec q = false ->
    verify_result Hb matches C cdig true t ipats ifile = Some r ->
    In q (vr_missing r) /\ vr_code r = 10%Z.
  Proof.
    intros Hl. cbn zeta. intros Hexp Hnv Hign Hv. pose proof (diff_exit_selection Hb matches C cdig t ipats ifile r Hv) as Hcode.
    assert (Hg : lh_gens (root_hist hs) <> []) by (intros E; unfold verify_result in Hv; rewrite Hl, E in Hv; discriminate).
    assert (Hq : In q (o_missing (snd (verify_like Hb matches C cdig true t None ipats ifile)))).
    { unfold verify_like, verify_core. rewrite Hl. destruct (lh_gens (root_hist hs)) as [|g0 gs] eqn:Eg; [congruence|]. cbn [snd o_missing]. apply sorted_paths_In. unfold missing. apply filter_In. split.
      - unfold diff_paths. apply filter_In. split; [exact Hexp|]. apply negb_true_iff.
        destruct (mem_path q (visited (events matches C (set_patterns (latest_patterns (g0 :: gs)) ipats (pattern_file_lines ifile)) [] t))) eqn:Em; [|reflexivity].
        apply mem_path_In in Em. contradiction.
      - rewrite Hign. reflexivity. }
    unfold verify_result in Hv. rewrite Hl in Hv. destruct (lh_gens (root_hist hs)) as [|g0 gs] eqn:Eg; [congruence|].
    destruct (o_outcome (snd (verify_like Hb matches C cdig true t None ipats ifile))) as [code|] eqn:Eo; [|discriminate].
    injection Hv as <-. cbn [vr_code vr_mismatch vr_new vr_missing] in *. split; [exact Hq|].
    destruct (o_missing (snd (verify_like Hb matches C cdig true t None ipats ifile))) as [|m0 ms]; [destruct Hq|]. exact Hcode.
  Qed.
End Detection.
