(* C19: info lists every history below the folder exactly once.  `info_lines` recurses over the child relation given by
   lh_parent; on the list `load` returns (distinct roots, children before parents) the recursion visits each proper
   descendant of a history exactly once, and the fuel (length hs + 1) suffices. *)
From Coq Require Import Lia.
From MHL Require Import Model.Commands Proofs.BaseFacts Proofs.TreeFacts Proofs.CommitSetFacts.

Definition ihists (l : list info_line) : list path := flat_map (fun x => match x with IHist p => [p] | _ => [] end) l.
Lemma ihists_app a b : ihists (a ++ b) = ihists a ++ ihists b.
Proof. apply flat_map_app. Qed.

Section InfoTree.
  Variable hs : list lhist.
  Hypothesis Hnd : NoDup (map lh_root hs).
  Hypothesis Hcf : children_first hs.

  Definition is_child (h c : lhist) : bool :=
    match lh_parent c with
    | Some par => path_eqb par (lh_root h) && negb (path_eqb (lh_root c) (lh_root h))
    | None => false
    end.
  Definition children (h : lhist) : list lhist := filter (is_child h) hs.

  Lemma ihists_gens (gens : list gen) : ihists (map (fun g => IGen (g_no g)) gens) = [].
  Proof. induction gens; [reflexivity|exact IHgens]. Qed.
  Lemma ihists_children_gen k h l :
    ihists (flat_map (fun c => match lh_parent c with
                               | Some par => if path_eqb par (lh_root h) && negb (path_eqb (lh_root c) (lh_root h))
                                             then IHist (lh_root c) :: info_lines k hs c else []
                               | None => []
                               end) l)
    = flat_map (fun c => lh_root c :: ihists (info_lines k hs c)) (filter (is_child h) l).
  Proof.
    induction l as [|c l IH]; [reflexivity|]. cbn [flat_map filter]. rewrite ihists_app, IH. unfold is_child.
    destruct (lh_parent c) as [par|]; [|reflexivity].
    destruct (path_eqb par (lh_root h) && negb (path_eqb (lh_root c) (lh_root h)))%bool; reflexivity.
  Qed.
  Lemma ihists_info_lines k h :
    ihists (info_lines (S k) hs h) = flat_map (fun c => lh_root c :: ihists (info_lines k hs c)) (children h).
  Proof. cbn [info_lines]. rewrite ihists_app, ihists_gens. cbn [app]. apply ihists_children_gen. Qed.

  (* position in the list *)
  Definition at_index (i : nat) (h : lhist) : Prop := exists l1 l2, hs = l1 ++ h :: l2 /\ length l1 = i.
  Lemma same_root_same_index i j h h' : at_index i h -> at_index j h' -> lh_root h = lh_root h' -> i = j /\ h = h'.
  Proof.
    intros [l1 [l2 [E1 L1]]] [m1 [m2 [E2 L2]]] Hr.
    assert (Hnth : forall k x y, nth_error hs k = Some x -> nth_error hs k = Some y -> x = y) by (intros; congruence).
    assert (N1 : nth_error (map lh_root hs) i = Some (lh_root h)).
    { rewrite E1, map_app, nth_error_app2 by (rewrite map_length; lia). rewrite map_length, L1, Nat.sub_diag. reflexivity. }
    assert (N2 : nth_error (map lh_root hs) j = Some (lh_root h')).
    { rewrite E2, map_app, nth_error_app2 by (rewrite map_length; lia). rewrite map_length, L2, Nat.sub_diag. reflexivity. }
    assert (Hij : i = j).
    { rewrite <- Hr in N2. apply (proj1 (NoDup_nth_error (map lh_root hs)) Hnd i j); [|congruence].
      apply nth_error_Some. congruence. }
    split; [exact Hij|].
    assert (M1 : nth_error hs i = Some h) by (rewrite E1, nth_error_app2 by lia; rewrite L1, Nat.sub_diag; reflexivity).
    assert (M2 : nth_error hs j = Some h') by (rewrite E2, nth_error_app2 by lia; rewrite L2, Nat.sub_diag; reflexivity).
    rewrite Hij in M1. congruence.
  Qed.
  Lemma In_at_index h : In h hs -> exists i, at_index i h /\ i < length hs.
  Proof.
    intros H. apply in_split in H. destruct H as [l1 [l2 E]]. exists (length l1). split; [exists l1, l2; auto|].
    rewrite E, app_length. cbn. lia.
  Qed.
  (* a child sits before its parent *)
  Lemma child_before i h c : at_index i h -> In c (children h) -> exists j, at_index j c /\ j < i.
  Proof.
    intros Hi Hc. unfold children in Hc. apply filter_In in Hc. destruct Hc as [Hin Hch].
    unfold is_child in Hch. destruct (lh_parent c) as [par|] eqn:Ep; [|discriminate].
    apply andb_true_iff in Hch. destruct Hch as [H1 H2]. apply path_eqb_eq in H1. subst par.
    apply in_split in Hin. destruct Hin as [m1 [m2 E]].
    destruct (Hcf m1 c m2 E) as [Hn|[h' [Hin' Hp']]]; [congruence|].
    rewrite Ep in Hp'. injection Hp' as Hr.
    apply in_split in Hin'. destruct Hin' as [n1 [n2 E']].
    assert (Hh' : at_index (length m1 + S (length n1)) h').
    { exists (m1 ++ c :: n1), n2. split; [rewrite E, E', <- app_assoc; reflexivity|rewrite app_length; cbn; lia]. }
    destruct (same_root_same_index _ _ h h' Hi Hh' Hr) as [-> _].
    exists (length m1). split; [exists m1, m2; auto|lia].
  Qed.
  Lemma hs_NoDup : NoDup hs.
  Proof. exact (NoDup_map_inv lh_root hs Hnd). Qed.
  Lemma same_root h h' : In h hs -> In h' hs -> lh_root h = lh_root h' -> h = h'.
  Proof.
    intros H1 H2 E. destruct (In_at_index h H1) as [i [Hi _]]. destruct (In_at_index h' H2) as [j [Hj _]].
    exact (proj2 (same_root_same_index i j h h' Hi Hj E)).
  Qed.
  Lemma children_In h c : In c (children h) -> In c hs /\ lh_parent c = Some (lh_root h) /\ lh_root c <> lh_root h.
  Proof.
    unfold children. rewrite filter_In. intros [Hin Hc]. split; [exact Hin|]. unfold is_child in Hc.
    destruct (lh_parent c) as [par|]; [|discriminate]. apply andb_true_iff in Hc. destruct Hc as [H1 H2].
    apply path_eqb_eq in H1. subst par. split; [reflexivity|]. apply negb_true_iff in H2. intros E. rewrite E, path_eqb_refl in H2. discriminate.
  Qed.
  Lemma parent_unique d p p' : In p hs -> In p' hs -> In d (children p) -> In d (children p') -> p = p'.
  Proof.
    intros Hp Hp' H1 H2. destruct (children_In p d H1) as [_ [E1 _]]. destruct (children_In p' d H2) as [_ [E2 _]].
    apply same_root; auto. congruence.
  Qed.

  (* a is a proper ancestor of d (through histories of the list) *)
  Inductive anc : lhist -> lhist -> Prop :=
  | a_par d p : In p hs -> In d (children p) -> anc d p
  | a_up d p a : In p hs -> In d (children p) -> anc p a -> anc d a.

  Lemma anc_index d a : anc d a -> forall i, at_index i a -> exists j, at_index j d /\ j < i.
  Proof.
    intros Hanc0; induction Hanc0 as [d p Hp Hc | d p a Hp Hc Ha IH]; intros i Hi.
    - exact (child_before i p d Hi Hc).
    - destruct (IH i Hi) as [j [Hj Hlt]]. destruct (child_before j p d Hj Hc) as [k [Hk Hlt']]. exists k. split; [exact Hk|lia].
  Qed.
  Lemma anc_child_trans d c h : anc d c -> In h hs -> In c (children h) -> anc d h.
  Proof.
    intros Hanc0; induction Hanc0 as [d p Hp Hc | d p a Hp Hc Ha IH]; intros Hh Hch.
    - apply (a_up d p h Hp Hc). apply a_par; assumption.
    - apply (a_up d p h Hp Hc). apply IH; assumption.
  Qed.
  Lemma anc_split d h : anc d h -> exists c, In c (children h) /\ (d = c \/ anc d c).
  Proof.
    intros Hanc0; induction Hanc0 as [d p Hp Hc | d p a Hp Hc Ha IH].
    - exists d. auto.
    - destruct IH as [c [Hcc [E|Hanc]]].
      + exists c. split; [exact Hcc|]. right. subst c. apply a_par; assumption.
      + exists c. split; [exact Hcc|]. right. apply (a_up d p c Hp Hc Hanc).
  Qed.
  Lemma anc_In d a : anc d a -> In d hs /\ In a hs.
  Proof.
    intros Hanc0; induction Hanc0 as [d p Hp Hc | d p a Hp Hc Ha IH].
    - split; [apply (children_In p d Hc)|exact Hp].
    - split; [apply (children_In p d Hc)|apply IH].
  Qed.
  (* the ancestors of a history form a chain *)
  Lemma anc_chain d c : anc d c -> forall c', anc d c' -> c = c' \/ anc c c' \/ anc c' c.
  Proof.
    intros Hanc0; induction Hanc0 as [d p Hp Hc | d p a Hp Hc Ha IH]; intros c' H'.
    - inversion H' as [d' p' Hp' Hc' | d' p' a' Hp' Hc' Ha']; subst.
      + left. apply (parent_unique d); assumption.
      + right. left. rewrite (parent_unique d p p' Hp Hp' Hc Hc'). exact Ha'.
    - inversion H' as [d' p' Hp' Hc' | d' p' a' Hp' Hc' Ha']; subst.
      + right. right. rewrite <- (parent_unique d p c' Hp Hp' Hc Hc'). exact Ha.
      + apply IH. rewrite (parent_unique d p p' Hp Hp' Hc Hc'). exact Ha'.
  Qed.
  Lemma anc_irrefl a : ~ anc a a.
  Proof.
    intros H. destruct (anc_In a a H) as [Hin _]. destruct (In_at_index a Hin) as [i [Hi _]].
    destruct (anc_index a a H i Hi) as [j [Hj Hlt]]. destruct (same_root_same_index i j a a Hi Hj eq_refl). lia.
  Qed.
  Lemma anc_asym a b : anc a b -> ~ anc b a.
  Proof.
    intros H1 H2. destruct (anc_In a b H1) as [Ha Hb]. destruct (In_at_index b Hb) as [i [Hi _]].
    destruct (anc_index a b H1 i Hi) as [j [Hj Hlt]]. destruct (anc_index b a H2 j Hj) as [k [Hk Hlt']].
    destruct (same_root_same_index i k b b Hi Hk eq_refl). lia.
  Qed.

  (* the listing below a history: every proper descendant exactly once *)
  Theorem listing : forall i h, at_index i h -> forall fuel, i < fuel ->
    NoDup (ihists (info_lines fuel hs h)) /\
    (forall r, In r (ihists (info_lines fuel hs h)) <-> exists d, anc d h /\ lh_root d = r).
  Proof.
    induction i as [i IHi] using lt_wf_ind. intros h Hi fuel Hf. destruct fuel as [|k]; [lia|].
    assert (Hh : In h hs) by (destruct Hi as [l1 [l2 [E _]]]; rewrite E; apply in_or_app; right; left; reflexivity).
    rewrite ihists_info_lines.
    assert (Hsub : forall c, In c (children h) -> NoDup (ihists (info_lines k hs c)) /\
                     (forall r, In r (ihists (info_lines k hs c)) <-> exists d, anc d c /\ lh_root d = r)).
    { intros c Hc. destruct (child_before i h c Hi Hc) as [j [Hj Hlt]]. apply (IHi j Hlt c Hj k). lia. }
    split.
    - apply NoDup_flat_map_disjoint.
      + unfold children. apply NoDup_filter. exact hs_NoDup.
      + intros c Hc. destruct (Hsub c Hc) as [Hn Hm]. constructor; [|exact Hn].
        intros Hin. apply Hm in Hin. destruct Hin as [d [Hd Er]]. destruct (anc_In d c Hd) as [Hdin Hcin].
        rewrite (same_root d c Hdin Hcin Er) in Hd. exact (anc_irrefl c Hd).
      + intros c c' r Hc Hc' Hne Hr Hr'. apply Hne.
        destruct (children_In h c Hc) as [Hcin _]. destruct (children_In h c' Hc') as [Hcin' _].
        assert (Hd : exists d, In d hs /\ lh_root d = r /\ (d = c \/ anc d c)).
        { destruct Hr as [<-|Hr]; [exists c; auto|]. apply (proj2 (Hsub c Hc)) in Hr. destruct Hr as [d [Hd Er]]. exists d. split; [apply (anc_In d c Hd)|auto]. }
        assert (Hd' : exists d, In d hs /\ lh_root d = r /\ (d = c' \/ anc d c')).
        { destruct Hr' as [<-|Hr']; [exists c'; auto|]. apply (proj2 (Hsub c' Hc')) in Hr'. destruct Hr' as [d [Hd0 Er]]. exists d. split; [apply (anc_In d c' Hd0)|auto]. }
        destruct Hd as [d [Hdin [Er Hdc]]]. destruct Hd' as [d' [Hdin' [Er' Hdc']]].
        assert (d = d') by (apply same_root; auto; congruence). subst d'.
        (* c and c' are both children of h and both d or ancestors of d *)
        assert (Hno : forall x y, In x (children h) -> In y (children h) -> ~ anc x y).
        { intros x y Hx Hy Hxy. destruct (children_In h x Hx) as [Hxin _]. destruct (children_In h y Hy) as [Hyin _].
          inversion Hxy as [x' p Hp Hcp | x' p a Hp Hcp Ha]; subst.
          - (* y is the parent of x, and so is h *) rewrite (parent_unique x y h Hyin Hh Hcp Hx) in Hy.
            destruct (children_In h h Hy) as [_ [_ Hneq]]. congruence.
          - rewrite (parent_unique x p h Hp Hh Hcp Hx) in Ha. apply (anc_asym h y Ha). apply a_par; assumption. }
        destruct Hdc as [->|Hdc]; destruct Hdc' as [E|Hdc'].
        * exact E.
        * exfalso. exact (Hno c c' Hc Hc' Hdc').
        * subst d. exfalso. exact (Hno c' c Hc' Hc Hdc).
        * destruct (anc_chain d c Hdc c' Hdc') as [E|[H|H]]; [exact E|exfalso; exact (Hno c c' Hc Hc' H)|exfalso; exact (Hno c' c Hc' Hc H)].
    - intros r. rewrite in_flat_map. split.
      + intros [c [Hc [<-|Hr]]].
        * exists c. split; [apply a_par; assumption|reflexivity].
        * apply (proj2 (Hsub c Hc)) in Hr. destruct Hr as [d [Hd Er]]. exists d. split; [apply (anc_child_trans d c h Hd Hh Hc)|exact Er].
      + intros [d [Hd Er]]. destruct (anc_split d h Hd) as [c [Hc [->|Hdc]]].
        * exists c. split; [exact Hc|left; exact Er].
        * exists c. split; [exact Hc|right]. apply (proj2 (Hsub c Hc)). exists d. auto.
  Qed.
End InfoTree.

From MHL Require Import Proofs.LoadFacts.
Section InfoLoad.
  Variable C : Type.
  Variable cdig : C -> text.

  (* C19: `info` on a folder lists every nested history below it exactly once *)
  Theorem info_lists_every_history_once t hs : wf_tree C t -> load C cdig t = inl hs ->
    let rooth := root_hist hs in
    NoDup (ihists (info_lines (S (length hs)) hs rooth)) /\
    (forall r, In r (ihists (info_lines (S (length hs)) hs rooth)) <-> exists d, In d hs /\ d <> rooth /\ lh_root d = r).
  Proof.
    intros Hw Hl. cbn zeta.
    pose proof (load_roots_NoDup C cdig t hs Hw Hl) as Hnd.
    assert (Hcf : children_first hs) by (intros l1 h l2 E; eapply load_children_first; eauto).
    destruct (load_shape C cdig t hs Hl) as [below [rooth [E [Hpn [Hr0 Hbelow]]]]].
    assert (Eroot : root_hist hs = rooth) by (rewrite E; unfold root_hist; apply last_last).
    rewrite Eroot.
    assert (Hi : at_index hs (length below) rooth) by (exists below, []; auto).
    assert (Hrin : In rooth hs) by (rewrite E; apply in_or_app; right; left; reflexivity).
    destruct (listing hs Hnd Hcf (length below) rooth Hi (S (length hs))) as [Hn Hm]; [rewrite E, app_length; cbn; lia|].
    split; [exact Hn|]. intros r. rewrite Hm. split.
    - intros [d [Hd Er]]. exists d. destruct (anc_In hs d rooth Hd) as [Hdin _]. split; [exact Hdin|]. split; [|exact Er].
      intros ->. exact (anc_irrefl hs Hnd Hcf rooth Hd).
    - intros [d [Hdin [Hne Er]]]. exists d. split; [|exact Er].
      (* every nested history reaches the folder's own history through its parents *)
      assert (Hreach : forall n l1 d0 l2, length l2 = n -> hs = l1 ++ d0 :: l2 -> d0 <> rooth -> anc hs d0 rooth).
      { induction n as [n IHn] using lt_wf_ind. intros l1 d0 l2 Hlen E0 Hne0.
        assert (Hd0 : In d0 below).
        { assert (H0 : In d0 hs) by (rewrite E0; apply in_or_app; right; left; reflexivity).
          rewrite E in H0. apply in_app_or in H0. destruct H0 as [H0|[H0|[]]]; [exact H0|congruence]. }
        destruct (Hcf l1 d0 l2 E0) as [Hnone|[h' [Hin' Hp']]]; [exfalso; exact (Hbelow d0 Hd0 Hnone)|].
        assert (Hh'in : In h' hs) by (rewrite E0; apply in_or_app; right; right; exact Hin').
        assert (Hchild : In d0 (children hs h')).
        { unfold children. apply filter_In. split; [rewrite E0; apply in_or_app; right; left; reflexivity|].
          unfold is_child. rewrite Hp', path_eqb_refl. cbn [andb]. apply negb_true_iff.
          destruct (path_eqb_spec (lh_root d0) (lh_root h')) as [Er'|]; [|reflexivity]. exfalso.
          apply in_split in Hin'. destruct Hin' as [m1 [m2 Em]].
          assert (A1 : at_index hs (length l1) d0) by (exists l1, l2; auto).
          assert (A2 : at_index hs (length l1 + S (length m1)) h').
          { exists (l1 ++ d0 :: m1), m2. split; [rewrite E0, Em, <- app_assoc; reflexivity|rewrite app_length; cbn; lia]. }
          destruct (same_root_same_index hs Hnd _ _ d0 h' A1 A2 Er'). lia. }
        destruct (path_eqb_spec (lh_root h') (lh_root rooth)) as [Er'|Hner].
        - rewrite (same_root hs Hnd h' rooth Hh'in Hrin Er') in Hchild. apply a_par; assumption.
        - apply in_split in Hin'. destruct Hin' as [m1 [m2 Em]].
          apply (a_up hs d0 h' rooth Hh'in Hchild).
          apply (IHn (length m2)) with (l1 := l1 ++ d0 :: m1) (l2 := m2); [rewrite <- Hlen, Em, app_length; cbn; lia|reflexivity| |intros ->; apply Hner; reflexivity].
          rewrite E0, Em, <- app_assoc. reflexivity. }
      apply in_split in Hdin. destruct Hdin as [l1 [l2 E0]]. exact (Hreach (length l2) l1 d l2 eq_refl E0 Hne).
  Qed.
End InfoLoad.
