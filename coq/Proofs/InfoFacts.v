(* C19 / C18: info, info -sf and flatten over the loaded history. *)
From Coq Require Import Lia Permutation.
From MHL Require Import Model.Commands Gen.Generated Proofs.BaseFacts Proofs.SealFacts Proofs.RouteFacts.

Section Info.
  Variable C : Type.
  Variable cdig : C -> text.
  Notation node := (node C).

  (* ---- info ---- *)
  Definition is_gen_line (l : info_line) : bool := match l with IGen _ => true | _ => false end.
  (* the lines of one history start with exactly its generations, in load order (which is ascending: C06) *)
  Theorem info_lines_generations k hs h :
    firstn (length (lh_gens h)) (info_lines (S k) hs h) = map (fun g => IGen (g_no g)) (lh_gens h).
  Proof.
    cbn [info_lines]. rewrite <- (map_length (fun g => IGen (g_no g)) (lh_gens h)) at 1.
    rewrite firstn_app, Nat.sub_diag, firstn_all. cbn. apply app_nil_r.
  Qed.
  Theorem info_exit t hs : load C cdig t = inl hs ->
    o_outcome (snd (info C cdig t)) = Exit (match lh_gens (root_hist hs) with [] => exit_no_history | _ => 0%Z end).
  Proof. intros H. unfold info. rewrite H. destruct (lh_gens (root_hist hs)); reflexivity. Qed.
  Theorem info_root_listing t hs : load C cdig t = inl hs -> lh_gens (root_hist hs) <> [] ->
    exists rest, o_info (snd (info C cdig t)) = IHist [] :: map (fun g => IGen (g_no g)) (lh_gens (root_hist hs)) ++ rest.
  Proof.
    intros H Hne. unfold info. rewrite H. destruct (lh_gens (root_hist hs)) as [|g gs] eqn:E; [congruence|].
    cbn [snd o_info info_lines]. rewrite E. eexists. reflexivity.
  Qed.
  Theorem no_history_code : exit_no_history = 30%Z.
  Proof. reflexivity. Qed.

  (* ---- info -sf ---- *)
  (* exactly one line per digest recorded for the file, with generation number, format, digest and action as in
     the manifests, generations in load order, nothing else *)
  Definition entry_lines (gens : list gen) (file : path) : list info_line :=
    flat_map (fun g => match find_media_hash g file with
                       | Some r => map (fun e => IEntry (g_no g) (e_fmt e) (e_digest e) (e_action e)) (r_entries r)
                       | None => []
                       end) gens.
  Theorem info_sf_lines t hs file : load C cdig t = inl hs -> lh_gens (root_hist hs) <> [] ->
    o_info (snd (info_sf C cdig t file)) = IHist [] :: IFile file :: entry_lines (lh_gens (root_hist hs)) file /\
    o_outcome (snd (info_sf C cdig t file)) = Exit 0.
  Proof.
    intros H Hne. unfold info_sf. rewrite H. destruct (lh_gens (root_hist hs)) as [|g gs] eqn:E; [congruence|].
    split; reflexivity.
  Qed.
  Theorem info_sf_no_history t hs file : load C cdig t = inl hs -> lh_gens (root_hist hs) = [] ->
    o_outcome (snd (info_sf C cdig t file)) = Exit exit_no_history.
  Proof. intros H E. unfold info_sf. rewrite H, E. reflexivity. Qed.
  Theorem entry_lines_spec gens file n f d a :
    In (IEntry n f d a) (entry_lines gens file) <->
    exists g r e, In g gens /\ g_no g = n /\ find_media_hash g file = Some r /\ In e (r_entries r) /\
                  e_fmt e = f /\ e_digest e = d /\ e_action e = a.
  Proof.
    unfold entry_lines. rewrite in_flat_map. split.
    - intros [g [Hg Hin]]. destruct (find_media_hash g file) as [r|] eqn:Er; [|destruct Hin].
      apply in_map_iff in Hin. destruct Hin as [e [He Hin]]. injection He as <- <- <- <-.
      exists g, r, e. repeat split; auto.
    - intros [g [r [e [Hg [<- [Hr [He [<- [<- <-]]]]]]]]]. exists g. split; [exact Hg|]. rewrite Hr.
      apply in_map_iff. exists e. split; [reflexivity|exact He].
  Qed.
  Theorem entry_lines_count gens file :
    length (entry_lines gens file) =
    list_sum (map (fun g => match find_media_hash g file with Some r => length (r_entries r) | None => 0 end) gens).
  Proof.
    unfold entry_lines. induction gens as [|g gens IH]; cbn [flat_map map list_sum]; [reflexivity|].
    rewrite app_length, IH. destruct (find_media_hash g file); [rewrite map_length|]; reflexivity.
  Qed.
End Info.

(* ---- flatten ------------------------------------------------------------------------------------------- *)
Section Flatten.
  (* invariants of the accumulated record list *)
  Definition fl_inv (acc : list record) : Prop :=
    NoDup (map r_path acc) /\ Forall (fun r => r_dir r = false) acc /\
    Forall (fun r => forall e, In e (r_entries r) -> e_action e <> Some Failed) acc.

  Lemma add_entries_inv rs p s e : fl_inv rs -> e_action e <> Some Failed -> fl_inv (add_entries rs p false s [e]).
  Proof.
    intros [Hn [Hd Hf]] He. split; [apply add_entries_NoDup; exact Hn|]. clear Hn.
    induction rs as [|r rs IH]; cbn [add_entries].
    - split; constructor; cbn; auto. intros e0 [<-|[]]. exact He.
    - inversion Hd as [|? ? Hd1 Hd2]; inversion Hf as [|? ? Hf1 Hf2]; subst.
      destruct (path_eqb (r_path r) p).
      + split; constructor; cbn; auto.
        * rewrite Hd1. reflexivity.
        * intros e0 Hin. apply in_app_or in Hin. destruct Hin as [Hin|[<-|[]]]; auto.
      + destruct (IH Hd2 Hf2) as [H1 H2]. split; constructor; auto.
  Qed.
  Lemma flatten_entry_inv acc r e : fl_inv acc -> fl_inv (flatten_entry acc r e).
  Proof.
    intros H. unfold flatten_entry. destruct (e_action e) as [[]|] eqn:Ea; try exact H;
      (destruct (find_last _ acc) as [found|]; [destruct (existsb _ _); [exact H|]|]; apply add_entries_inv; auto; rewrite Ea; discriminate).
  Qed.
  (* the flattened manifest: one record per path, no directory records, no failed digests *)
  Theorem flatten_records_inv gens : fl_inv (flatten_records gens).
  Proof.
    unfold flatten_records.
    apply (fold_left_inv _ fl_inv gens).
    - intros acc g _ H. apply (fold_left_inv _ fl_inv (g_records g)); [|exact H].
      intros acc2 r _ H2. destruct (r_dir r); [exact H2|].
      apply (fold_left_inv _ fl_inv (r_entries r)); [|exact H2]. intros a e _ Ha. apply flatten_entry_inv. exact Ha.
    - repeat split; constructor.
  Qed.
End Flatten.
