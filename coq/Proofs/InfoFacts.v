(* C19 / C18: info, info -sf and flatten over the loaded history. *)
From Coq Require Import Lia Permutation.
From MHL Require Import Model.Commands Gen.Generated Proofs.BaseFacts Proofs.SealFacts Proofs.RouteFacts Proofs.TreeFacts.

Section Info.
  Variable C : Type.
  Variable cdig : C -> text.
  Notation node := (node C).

  (* ---- info ---- *)
  Definition is_gen_line (l : info_line) : bool := match l with IGen _ => true | _ => false end.
  (* the lines of one history start with exactly its generations, in load order (which is ascending: C06) *)
  Theorem info_lines_generations k hs h :
    firstn (length (lh_gens h)) (info_lines (S k) hs h) = map (fun g => IGen (g_no g)) (lh_gens h).
  Proof.
    cbn [info_lines]. rewrite <- (map_length (fun g => IGen (g_no g)) (lh_gens h)) at 1.
    rewrite firstn_app, Nat.sub_diag, firstn_all. cbn. apply app_nil_r.
  Qed.
  Theorem info_exit t hs : load C cdig t = inl hs ->
    o_outcome (snd (info C cdig t)) = Exit (match lh_gens (root_hist hs) with [] => exit_no_history | _ => 0%Z end).
  Proof. intros H. unfold info. rewrite H. destruct (lh_gens (root_hist hs)); reflexivity. Qed.
  Theorem info_root_listing t hs : load C cdig t = inl hs -> lh_gens (root_hist hs) <> [] ->
    exists rest, o_info (snd (info C cdig t)) = IHist [] :: map (fun g => IGen (g_no g)) (lh_gens (root_hist hs)) ++ rest.
  Proof.
    intros H Hne. unfold info. rewrite H. destruct (lh_gens (root_hist hs)) as [|g gs] eqn:E; [congruence|].
    cbn [snd o_info info_lines]. rewrite E. eexists. reflexivity.
  Qed.
  Theorem no_history_code : exit_no_history = 30%Z.
  Proof. reflexivity. Qed.

  (* ---- info -sf ---- *)
  (* exactly one line per digest recorded for the file, with generation number, format, digest and action as in
     the manifests, generations in load order, nothing else *)
  Definition entry_lines (gens : list gen) (file : path) : list info_line :=
    flat_map (fun g => match find_media_hash g file with
                       | Some r => map (fun e => IEntry (g_no g) (e_fmt e) (e_digest e) (e_action e)) (r_entries r)
                       | None => []
                       end) gens.
  Theorem info_sf_lines t hs file : load C cdig t = inl hs -> lh_gens (root_hist hs) <> [] ->
    o_info (snd (info_sf C cdig t file)) = IHist [] :: IFile file :: entry_lines (lh_gens (root_hist hs)) file /\
    o_outcome (snd (info_sf C cdig t file)) = Exit 0.
  Proof.
    intros H Hne. unfold info_sf. rewrite H. destruct (lh_gens (root_hist hs)) as [|g gs] eqn:E; [congruence|].
    split; reflexivity.
  Qed.
  Theorem info_sf_no_history t hs file : load C cdig t = inl hs -> lh_gens (root_hist hs) = [] ->
    o_outcome (snd (info_sf C cdig t file)) = Exit exit_no_history.
  Proof. intros H E. unfold info_sf. rewrite H, E. reflexivity. Qed.
  Theorem entry_lines_spec gens file n f d a :
    In (IEntry n f d a) (entry_lines gens file) <->
    exists g r e, In g gens /\ g_no g = n /\ find_media_hash g file = Some r /\ In e (r_entries r) /\
                  e_fmt e = f /\ e_digest e = d /\ e_action e = a.
  Proof.
    unfold entry_lines. rewrite in_flat_map. split.
    - intros [g [Hg Hin]]. destruct (find_media_hash g file) as [r|] eqn:Er; [|destruct Hin].
      apply in_map_iff in Hin. destruct Hin as [e [He Hin]]. injection He as <- <- <- <-.
      exists g, r, e. repeat split; auto.
    - intros [g [r [e [Hg [<- [Hr [He [<- [<- <-]]]]]]]]]. exists g. split; [exact Hg|]. rewrite Hr.
      apply in_map_iff. exists e. split; [reflexivity|exact He].
  Qed.
  Theorem entry_lines_count gens file :
    length (entry_lines gens file) =
    list_sum (map (fun g => match find_media_hash g file with Some r => length (r_entries r) | None => 0 end) gens).
  Proof.
    unfold entry_lines. induction gens as [|g gens IH]; cbn [flat_map map list_sum]; [reflexivity|].
    rewrite app_length, IH. destruct (find_media_hash g file); [rewrite map_length|]; reflexivity.
  Qed.
End Info.

(* ---- flatten ------------------------------------------------------------------------------------------- *)
Section Flatten.
  (* invariants of the accumulated record list *)
  Definition fl_inv (acc : list record) : Prop :=
    NoDup (map r_path acc) /\ Forall (fun r => r_dir r = false) acc /\
    Forall (fun r => forall e, In e (r_entries r) -> e_action e <> Some Failed) acc.

  Lemma add_entries_inv rs p s e : fl_inv rs -> e_action e <> Some Failed -> fl_inv (add_entries rs p false s [e]).
  Proof.
    intros [Hn [Hd Hf]] He. split; [apply add_entries_NoDup; exact Hn|]. clear Hn.
    induction rs as [|r rs IH]; cbn [add_entries].
    - split; constructor; cbn; auto. intros e0 [<-|[]]. exact He.
    - inversion Hd as [|? ? Hd1 Hd2]; inversion Hf as [|? ? Hf1 Hf2]; subst.
      destruct (path_eqb (r_path r) p).
      + split; constructor; cbn; auto.
        * rewrite Hd1. reflexivity.
        * intros e0 Hin. apply in_app_or in Hin. destruct Hin as [Hin|[<-|[]]]; auto.
      + destruct (IH Hd2 Hf2) as [H1 H2]. split; constructor; auto.
  Qed.
  Lemma flatten_entry_inv acc r e : fl_inv acc -> fl_inv (flatten_entry acc r e).
  Proof.
    intros H. unfold flatten_entry. destruct (e_action e) as [[]|] eqn:Ea; try exact H;
      (destruct (find_last _ acc) as [found|]; [destruct (existsb _ _); [exact H|]|]; apply add_entries_inv; auto; rewrite Ea; discriminate).
  Qed.
  (* the flattened manifest: one record per path, no directory records, no failed digests *)
  Theorem flatten_records_inv gens : fl_inv (flatten_records gens).
  Proof.
    unfold flatten_records.
    apply (fold_left_inv _ fl_inv gens).
    - intros acc g _ H. apply (fold_left_inv _ fl_inv (g_records g)); [|exact H].
      intros acc2 r _ H2. destruct (r_dir r); [exact H2|].
      apply (fold_left_inv _ fl_inv (r_entries r)); [|exact H2]. intros a e _ Ha. apply flatten_entry_inv. exact Ha.
    - repeat split; constructor.
  Qed.
End Flatten.

(* ---- flatten: one digest per format, provenance, completeness ---- *)
Section Flatten2.
  Lemma find_last_some {A} (f : A -> bool) : forall l x, find_last f l = Some x -> In x l /\ f x = true.
  Proof.
    induction l as [|a l IH]; intros x H; [discriminate|]. cbn in H. destruct (find_last f l) as [y|] eqn:E.
    - injection H as <-. destruct (IH y eq_refl). split; [right|]; assumption.
    - destruct (f a) eqn:Ea; [injection H as <-; split; [left; reflexivity|exact Ea]|discriminate].
  Qed.
  Lemma find_last_none {A} (f : A -> bool) : forall l, find_last f l = None -> forall x, In x l -> f x = false.
  Proof.
    induction l as [|a l IH]; intros H x Hin; [destruct Hin|]. cbn in H. destruct (find_last f l) eqn:E; [discriminate|].
    destruct (f a) eqn:Ea; [discriminate|]. destruct Hin as [<-|Hin]; [exact Ea|apply IH; auto].
  Qed.

  (* the accumulated list: no previous paths, and per record at most one digest per format *)
  Definition fl_inv2 (acc : list record) : Prop :=
    Forall (fun r => r_prev r = None /\ NoDup (map e_fmt (r_entries r))) acc.

  Lemma add_entries_new_inv2 rs p s e : fl_inv2 rs -> (forall r, In r rs -> r_path r <> p) -> fl_inv2 (add_entries rs p false s [e]).
  Proof.
    intros Hi Hn. induction rs as [|r rs IH]; cbn [add_entries].
    - constructor; [|constructor]. cbn. split; [reflexivity|repeat constructor; tauto].
    - inversion Hi; subst. destruct (path_eqb_spec (r_path r) p) as [E|E]; [exfalso; apply (Hn r); [left; reflexivity|exact E]|].
      constructor; [assumption|]. apply IH; [assumption|]. intros r' Hr'. apply Hn. right. exact Hr'.
  Qed.
  Lemma add_entries_merge_inv2 rs p s e :
    fl_inv2 rs -> (forall r, In r rs -> r_path r = p -> ~ In (e_fmt e) (map e_fmt (r_entries r))) -> fl_inv2 (add_entries rs p false s [e]).
  Proof.
    intros Hi Hn. induction rs as [|r rs IH]; cbn [add_entries].
    - constructor; [|constructor]. cbn. split; [reflexivity|repeat constructor; tauto].
    - inversion Hi as [|? ? [Hp Hnd] Hi']; subst. destruct (path_eqb_spec (r_path r) p) as [E|E].
      + constructor; [|exact Hi']. cbn [r_prev r_entries]. split; [exact Hp|]. rewrite map_app. cbn [map].
        apply NoDup_app_intro; [exact Hnd|repeat constructor; tauto|]. intros x Hx [<-|[]]. exact (Hn r (or_introl eq_refl) E Hx).
      + constructor; [split; assumption|]. apply IH; [exact Hi'|]. intros r' Hr'. apply Hn. right. exact Hr'.
  Qed.

  Lemma flatten_entry_inv2 acc r e : fl_inv acc -> fl_inv2 acc -> fl_inv2 (flatten_entry acc r e).
  Proof.
    intros [Hnd _] Hi. unfold flatten_entry. destruct (e_action e) as [[]|]; try exact Hi.
    all: destruct (find_last (fun x => rec_keys_match x (r_path r)) acc) as [found|] eqn:Ef.
    all: try (destruct (existsb (fun x => fmt_eqb (e_fmt x) (e_fmt e)) (r_entries found)) eqn:Ex; [exact Hi|]).
    all: try (apply find_last_some in Ef; destruct Ef as [Hin Hk]; apply add_entries_merge_inv2; [exact Hi|];
              intros r' Hr' Hp Hfmt;
              assert (r' = found) by (apply (NoDup_key_inj r_path acc); auto);
              subst r'; apply in_map_iff in Hfmt; destruct Hfmt as [x [Hx1 Hx2]];
              assert (existsb (fun x0 => fmt_eqb (e_fmt x0) (e_fmt e)) (r_entries found) = true) by (apply existsb_exists; exists x; split; [exact Hx2|rewrite Hx1; apply fmt_eqb_refl]);
              congruence).
    all: apply add_entries_new_inv2; [exact Hi|]; intros r' Hr' Hp;
         pose proof (find_last_none _ _ Ef r' Hr') as Hk; unfold rec_keys_match in Hk; rewrite Hp, path_eqb_refl in Hk; discriminate.
  Qed.

  Theorem flatten_records_inv2 gens : fl_inv2 (flatten_records gens).
  Proof.
    unfold flatten_records.
    set (P := fun acc => fl_inv acc /\ fl_inv2 acc).
    assert (HP : P (fold_left (fun acc g => fold_left (fun acc2 r => if r_dir r then acc2 else fold_left (fun a e => flatten_entry a r e) (r_entries r) acc2) (g_records g) acc) gens [])).
    { apply (fold_left_inv _ P gens).
      - intros acc g _ H. apply (fold_left_inv _ P (g_records g)); [|exact H].
        intros acc2 r _ H2. destruct (r_dir r); [exact H2|].
        apply (fold_left_inv _ P (r_entries r)); [|exact H2]. intros a e _ [Ha1 Ha2]. split; [apply flatten_entry_inv; exact Ha1|apply flatten_entry_inv2; assumption].
      - split; [repeat split; constructor|constructor]. }
    exact (proj2 HP).
  Qed.
End Flatten2.

(* ---- flatten: for every path and format, the digest kept is the EARLIEST one that did not fail ---- *)
Section Flatten3.
  (* the order in which flatten_history scans the history: generations, file records, entries *)
  Definition scan (gens : list gen) : list (record * entry) :=
    flat_map (fun g => flat_map (fun r => if r_dir r then [] else map (fun e => (r, e)) (r_entries r)) (g_records g)) gens.
  Lemma fold_left_flat_map {A B D} (f : A -> D -> A) (g : B -> list D) : forall l a,
    fold_left f (flat_map g l) a = fold_left (fun a b => fold_left f (g b) a) l a.
  Proof. induction l as [|b l IH]; intros a; cbn [flat_map fold_left]; [reflexivity|]. rewrite fold_left_app. apply IH. Qed.
  Lemma fold_left_ext {A B} (f g : A -> B -> A) : (forall a b, f a b = g a b) -> forall l a, fold_left f l a = fold_left g l a.
  Proof. intros H. induction l as [|b l IH]; intros a; cbn; [reflexivity|]. rewrite H. apply IH. Qed.
  Lemma fold_left_map {A B D} (f : A -> D -> A) (g : B -> D) : forall l a, fold_left f (map g l) a = fold_left (fun a b => f a (g b)) l a.
  Proof. induction l as [|b l IH]; intros a; cbn; [reflexivity|apply IH]. Qed.
  Definition fstep (a : list record) (x : record * entry) : list record := flatten_entry a (fst x) (snd x).
  Lemma flatten_records_scan gens : flatten_records gens = fold_left fstep (scan gens) [].
  Proof.
    unfold flatten_records, scan. rewrite fold_left_flat_map. apply fold_left_ext. intros a g.
    rewrite fold_left_flat_map. apply fold_left_ext. intros a2 r. destruct (r_dir r); [reflexivity|].
    rewrite fold_left_map. reflexivity.
  Qed.

  Definition ok_for (p : path) (f : fmt) (x : record * entry) : bool :=
    path_eqb (r_path (fst x)) p && fmt_eqb (e_fmt (snd x)) f &&
    match e_action (snd x) with Some Failed => false | _ => true end.
  (* the specification: the earliest entry for path p and format f, in scan order, that did not fail *)
  Definition earliest (done : list (record * entry)) (p : path) (f : fmt) : option entry := option_map snd (find (ok_for p f) done).
  (* what the accumulated list holds for path p and format f *)
  Definition held (acc : list record) (p : path) (f : fmt) : option entry :=
    match find (fun r => path_eqb (r_path r) p) acc with
    | Some r => find (fun e => fmt_eqb (e_fmt e) f) (r_entries r)
    | None => None
    end.

  Lemma find_app_none {A} (g : A -> bool) l x : find g l = None -> find g (l ++ [x]) = if g x then Some x else None.
  Proof. induction l as [|a l IH]; cbn; [reflexivity|]. destruct (g a); [discriminate|exact IH]. Qed.
  Lemma find_app_some {A} (g : A -> bool) l l' y : find g l = Some y -> find g (l ++ l') = Some y.
  Proof. induction l as [|a l IH]; cbn; [discriminate|]. destruct (g a); [auto|exact IH]. Qed.
  Lemma earliest_snoc done x p f :
    earliest (done ++ [x]) p f = match earliest done p f with Some e => Some e | None => if ok_for p f x then Some (snd x) else None end.
  Proof.
    unfold earliest. destruct (find (ok_for p f) done) as [y|] eqn:E.
    - rewrite (find_app_some _ _ _ _ E). reflexivity.
    - rewrite (find_app_none _ _ _ E). destruct (ok_for p f x); reflexivity.
  Qed.

  (* held after add_entries *)
  Lemma held_add_same rs q s e : NoDup (map r_path rs) ->
    forall f, held (add_entries rs q false s [e]) q f =
              match held rs q f with Some x => Some x | None => if fmt_eqb (e_fmt e) f then Some e else None end.
  Proof.
    intros Hn f. unfold held. induction rs as [|r rs IH]; cbn [add_entries find].
    - rewrite path_eqb_refl. cbn [r_entries find]. destruct (fmt_eqb (e_fmt e) f); reflexivity.
    - destruct (path_eqb_spec (r_path r) q) as [E|E].
      + cbn [find r_path]. rewrite E, path_eqb_refl. cbn [r_entries].
        destruct (find (fun e0 => fmt_eqb (e_fmt e0) f) (r_entries r)) as [y|] eqn:Ef.
        * rewrite (find_app_some _ _ _ _ Ef). reflexivity.
        * rewrite (find_app_none _ _ _ Ef). reflexivity.
      + cbn [find]. destruct (path_eqb_spec (r_path r) q); [contradiction|]. apply IH. cbn in Hn. inversion Hn; assumption.
  Qed.
  Lemma held_add_other rs q s e p : p <> q -> forall f, held (add_entries rs q false s [e]) p f = held rs p f.
  Proof.
    intros Hpq f. unfold held. induction rs as [|r rs IH]; cbn [add_entries find].
    - cbn [r_path]. destruct (path_eqb_spec q p); [congruence|reflexivity].
    - destruct (path_eqb_spec (r_path r) q) as [E|E].
      + cbn [find r_path]. destruct (path_eqb_spec (r_path r) p) as [E'|E']; [congruence|reflexivity].
      + cbn [find]. destruct (path_eqb_spec (r_path r) p); [reflexivity|exact IH].
  Qed.

  (* with no previous paths, the look-up by key is the look-up by path *)
  Lemma keys_is_path acc p : fl_inv acc -> fl_inv2 acc ->
    match find_last (fun x => rec_keys_match x p) acc with
    | Some found => r_path found = p /\ find (fun r => path_eqb (r_path r) p) acc = Some found
    | None => find (fun r => path_eqb (r_path r) p) acc = None
    end.
  Proof.
    intros [Hn _] Hi. destruct (find_last (fun x => rec_keys_match x p) acc) as [found|] eqn:Ef.
    - apply find_last_some in Ef. destruct Ef as [Hin Hk]. unfold fl_inv2 in Hi. rewrite Forall_forall in Hi. destruct (Hi found Hin) as [Hp _].
      unfold rec_keys_match in Hk. rewrite Hp in Hk. cbn [opt_path_eqb] in Hk. rewrite orb_false_r in Hk. apply path_eqb_eq in Hk.
      split; [exact Hk|]. destruct (find (fun r => path_eqb (r_path r) p) acc) as [r|] eqn:Efi.
      + apply find_some in Efi. destruct Efi as [Hr Hrp]. apply path_eqb_eq in Hrp. f_equal. apply (NoDup_key_inj r_path acc); auto. congruence.
      + exfalso. eapply find_none in Efi; [|exact Hin]. rewrite Hk, path_eqb_refl in Efi. discriminate.
    - destruct (find (fun r => path_eqb (r_path r) p) acc) as [r|] eqn:Efi; [|reflexivity]. apply find_some in Efi. destruct Efi as [Hr Hrp].
      pose proof (find_last_none _ _ Ef r Hr) as Hk. unfold rec_keys_match in Hk. rewrite Hrp in Hk. discriminate.
  Qed.

  (* one scan step keeps "what is held = the earliest non-failed entry seen so far" *)
  Lemma fstep_keeps done acc x : fl_inv acc -> fl_inv2 acc ->
    (forall p f, held acc p f = earliest done p f) ->
    forall p f, held (fstep acc x) p f = earliest (done ++ [x]) p f.
  Proof.
    intros H1 H2 Hh p f. rewrite earliest_snoc, <- Hh. destruct x as [r e]. unfold fstep, flatten_entry, ok_for. cbn [fst snd].
    assert (Hfailed : e_action e = Some Failed -> held acc p f = match held acc p f with Some e0 => Some e0 | None => if path_eqb (r_path r) p && fmt_eqb (e_fmt e) f && false then Some e else None end).
    { intros _. rewrite andb_false_r. destruct (held acc p f); reflexivity. }
    destruct (e_action e) as [[]|] eqn:Ea; try (apply Hfailed; reflexivity); clear Hfailed; rewrite andb_true_r.
    all: pose proof (keys_is_path acc (r_path r) H1 H2) as Hk; destruct (find_last (fun x => rec_keys_match x (r_path r)) acc) as [found|] eqn:Ef.
    all: try (destruct Hk as [Hfp Hfind];
              destruct (existsb (fun x => fmt_eqb (e_fmt x) (e_fmt e)) (r_entries found)) eqn:Ex;
              [ (* format already there: nothing changes, and what is held for (path, format) is already Some *)
                destruct (path_eqb_spec (r_path r) p) as [Ep|Ep]; cbn [andb]; [|destruct (held acc p f); reflexivity];
                destruct (fmt_eqb_spec (e_fmt e) f) as [Efm|Efm]; [|destruct (held acc p f); reflexivity];
                unfold held; rewrite <- Ep, Hfind; apply existsb_exists in Ex; destruct Ex as [y [Hy Hyf]];
                destruct (find (fun e0 => fmt_eqb (e_fmt e0) f) (r_entries found)) eqn:Efo; [reflexivity|];
                exfalso; eapply find_none in Efo; [|exact Hy]; rewrite <- Efm in Efo; congruence
              | rewrite Hfp; destruct (path_eqb_spec (r_path r) p) as [Ep|Ep]; cbn [andb];
                [ rewrite <- Ep; rewrite held_add_same by (destruct H1; assumption); reflexivity
                | rewrite held_add_other by congruence; destruct (held acc p f); reflexivity ] ]).
    all: destruct (path_eqb_spec (r_path r) p) as [Ep|Ep]; cbn [andb];
         [ rewrite <- Ep; rewrite held_add_same by (destruct H1; assumption); reflexivity
         | rewrite held_add_other by congruence; destruct (held acc p f); reflexivity ].
  Qed.

  Lemma fstep_inv acc x : fl_inv acc /\ fl_inv2 acc -> fl_inv (fstep acc x) /\ fl_inv2 (fstep acc x).
  Proof. intros [H1 H2]. split; [apply flatten_entry_inv; exact H1|apply flatten_entry_inv2; assumption]. Qed.

  (* C18: for every file path and every format, the flattened manifest holds exactly the EARLIEST digest of that
     format that did not fail (in generation order), and none if there is none -- for every history without renames *)
  Theorem flatten_keeps_earliest gens p f : held (flatten_records gens) p f = earliest (scan gens) p f.
  Proof.
    rewrite flatten_records_scan.
    assert (H : forall todo done acc, fl_inv acc /\ fl_inv2 acc -> (forall p f, held acc p f = earliest done p f) ->
                  forall p f, held (fold_left fstep todo acc) p f = earliest (done ++ todo) p f).
    { induction todo as [|x todo IH]; intros done acc Hi Hh p0 f0; cbn [fold_left]; [rewrite app_nil_r; apply Hh|].
      replace (done ++ x :: todo) with ((done ++ [x]) ++ todo) by (rewrite <- app_assoc; reflexivity).
      apply IH; [apply fstep_inv; exact Hi|]. destruct Hi. apply fstep_keeps; assumption. }
    apply (H (scan gens) [] []); [split; [repeat split; constructor|constructor]|reflexivity].
  Qed.
End Flatten3.
