(* C09 end to end on flat trees: the directory and root hashes a create run records are those verify -dh computes on
   the same tree, so an unchanged tree gives exit 0 for every generation sequence. *)
From MHL Require Import Model.Commands Gen.Generated Proofs.BaseFacts Proofs.SealFacts Proofs.TreeFacts Proofs.RouteFacts
  Proofs.CommitFacts Proofs.LoadFacts Proofs.IgnoreFacts Proofs.VerifyFacts Proofs.CreateFacts Proofs.HistFacts Proofs.FreshFacts
  Proofs.InfoFacts Proofs.FlatFacts.
From Coq Require Import Sorting.Permutation Lia.

Lemma flat_map_nil_all {A B} (g : A -> list B) l : (forall x, In x l -> g x = []) -> flat_map g l = [].
Proof. induction l as [|x l IH]; intros H; cbn; [reflexivity|]. rewrite (H x (or_introl eq_refl)), IH; [reflexivity|]. intros y Hy. apply H. right. exact Hy. Qed.

Section FlatDh.
  Variable Hb : fmt -> bytes -> bytes.
  Variable matches : list text -> text -> bool.
  Variable C : Type.
  Variable cdig : C -> text.
  Variable ser : gen -> C.
  Notation node := (node C).
  Notation events := (events matches C).
  Variable h0 : lhist.
  Hypothesis h0_root : lh_root h0 = [].
  Hypothesis h0_parent : lh_parent h0 = None.

  (* ---- record level: on a well-formed tree each record is exactly what one event wrote ---- *)
  Section Exact.
    Variable RR : record -> Prop.
    Lemma fold_events_RR_exact fmts no_dh spec t : forall evs s fails,
      NoDup (map ev_path evs) -> (forall r, In r (recs s) -> ~ In (r_path r) (map ev_path evs)) -> (forall r, In r (recs s) -> RR r) ->
      (forall p c, In (p, c) (ev_files evs) -> p <> [] /\
         RR (mkRecord p false (Some (N.of_nat (length c))) (fst (seal (lh_gens h0) p (fun f => digest_text Hb f c) fmts)) None)) ->
      (forall p, In p (dirs_of evs) ->
         RR (mkRecord p true None (match dir_entries Hb matches C no_dh spec fmts p t with Some es => es | None => [] end) None)) ->
      forall r, In r (recs (fst (fold_left (process_event Hb matches C [h0] fmts no_dh spec t) evs (s, fails)))) -> RR r.
    Proof.
      induction evs as [|e evs IH]; intros s fails Hnd Hfresh Hs Hf Hd; cbn [fold_left]; [exact Hs|].
      cbn [map] in Hnd. inversion Hnd as [|? ? Hp Hnd']; subst.
      assert (Hstep : (forall r, In r (recs (fst (process_event Hb matches C [h0] fmts no_dh spec t (s, fails) e))) -> RR r) /\
                      (forall r, In r (recs (fst (process_event Hb matches C [h0] fmts no_dh spec t (s, fails) e))) -> ~ In (r_path r) (map ev_path evs))).
      { assert (Hnew : ~ In (ev_path e) (map r_path (recs s))).
        { intros H. apply in_map_iff in H. destruct H as [r [E Hr]]. apply (Hfresh r Hr). left. symmetry. exact E. }
        assert (Hold : forall r, In r (recs s) -> ~ In (r_path r) (map ev_path evs)).
        { intros r Hr H. apply (Hfresh r Hr). right. exact H. }
        destruct e as [p c|p kids]; cbn [process_event ev_path] in *.
        - unfold seal_file. rewrite (route_flat h0), h0_root. cbn [strip_prefix].
          assert (Hsp : strip_prefix [] p = p) by (destruct p; reflexivity). rewrite ?Hsp.
          destruct (Hf p c (or_introl eq_refl)) as [Hne HR].
          destruct (seal (lh_gens h0) p (fun f => digest_text Hb f c) fmts) as [es res]. cbn [fst] in *.
          destruct es as [|e0 es']; [split; assumption|]. rewrite recs_sess_add. destruct p as [|n p']; [congruence|].
          rewrite (add_entries_fresh _ _ _ _ _ Hnew). split.
          + intros r Hr. apply in_app_or in Hr. destruct Hr as [Hr|[<-|[]]]; [apply Hs; exact Hr|exact HR].
          + intros r Hr. apply in_app_or in Hr. destruct Hr as [Hr|[<-|[]]]; [apply Hold; exact Hr|exact Hp].
        - unfold record_dir. rewrite (route_flat h0), h0_root, h0_parent.
          assert (Hsp : strip_prefix [] p = p) by (destruct p; reflexivity). rewrite ?Hsp.
          assert (Hsame : forall es, match p with [] => sess_add s [] p true None es | _ :: _ => sess_add s [] p true None es end = sess_add s [] p true None es) by (intros; destruct p; reflexivity).
          rewrite Hsame. cbn [fst]. rewrite recs_sess_add. destruct p as [|n p']; [split; assumption|].
          rewrite (add_entries_fresh _ _ _ _ _ Hnew). split.
          + intros r Hr. apply in_app_or in Hr. destruct Hr as [Hr|[<-|[]]]; [apply Hs; exact Hr|]. apply Hd. left. reflexivity.
          + intros r Hr. apply in_app_or in Hr. destruct Hr as [Hr|[<-|[]]]; [apply Hold; exact Hr|exact Hp]. }
      destruct (process_event Hb matches C [h0] fmts no_dh spec t (s, fails) e) as [s1 f1]. cbn [fst] in Hstep. destruct Hstep as [Hs1 Hfresh1].
      apply IH; auto.
      - intros p c Hin. apply Hf. destruct e; cbn; [right|]; exact Hin.
      - intros p Hin. apply Hd. destruct e; cbn; [|right]; exact Hin.
    Qed.
  End Exact.

  (* ---- the root record of the session: only the folder event of the root itself writes to it ---- *)
  Definition root_entries (s : session) : list entry :=
    match nl_root (sess_list s []) with Some r => r_entries r | None => [] end.
  Lemma root_entries_sess_add s p d sz es :
    root_entries (sess_add s [] p d sz es) = match p with [] => root_entries s ++ es | _ => root_entries s end.
  Proof.
    unfold root_entries, sess_add, sess_list at 1. rewrite sess_get_set_same. unfold nl_add. destruct p; [|reflexivity].
    cbn [nl_root r_entries]. destruct (nl_root (sess_list s [])); reflexivity.
  Qed.
  Lemma fold_events_root (Q : entry -> Prop) fmts no_dh spec t : forall evs s fails,
    (forall e, In e (root_entries s) -> Q e) ->
    (forall p c, In (p, c) (ev_files evs) -> p <> []) ->
    (forall e, In e (match dir_entries Hb matches C no_dh spec fmts [] t with Some es => es | None => [] end) -> Q e) ->
    forall e, In e (root_entries (fst (fold_left (process_event Hb matches C [h0] fmts no_dh spec t) evs (s, fails)))) -> Q e.
  Proof.
    induction evs as [|ev evs IH]; intros s fails Hs Hne Hd; cbn [fold_left]; [exact Hs|].
    assert (Hstep : forall e, In e (root_entries (fst (process_event Hb matches C [h0] fmts no_dh spec t (s, fails) ev))) -> Q e).
    { destruct ev as [p c|p kids]; cbn [process_event].
      - unfold seal_file. rewrite (route_flat h0), h0_root. cbn [strip_prefix].
        assert (Hsp : strip_prefix [] p = p) by (destruct p; reflexivity). rewrite ?Hsp.
        pose proof (Hne p c (or_introl eq_refl)) as Hp.
        destruct (seal (lh_gens h0) p (fun f => digest_text Hb f c) fmts) as [es res]. cbn [fst].
        destruct es as [|e0 es']; [exact Hs|]. rewrite root_entries_sess_add. destruct p; [congruence|exact Hs].
      - unfold record_dir. rewrite (route_flat h0), h0_root, h0_parent.
        assert (Hsp : strip_prefix [] p = p) by (destruct p; reflexivity). rewrite ?Hsp.
        assert (Hsame : forall es, match p with [] => sess_add s [] p true None es | _ :: _ => sess_add s [] p true None es end = sess_add s [] p true None es) by (intros; destruct p; reflexivity).
        rewrite Hsame. cbn [fst]. rewrite root_entries_sess_add. destruct p as [|n p']; [|exact Hs].
        intros e He. apply in_app_or in He. destruct He as [He|He]; [apply Hs; exact He|apply Hd; exact He]. }
    destruct (process_event Hb matches C [h0] fmts no_dh spec t (s, fails) ev) as [s1 f1]. cbn [fst] in Hstep.
    apply IH; auto. intros p c Hin. apply (Hne p c). destruct ev; cbn; [right|]; exact Hin.
  Qed.
End FlatDh.

Section DhMain.
  Variable Hb : fmt -> bytes -> bytes.
  Variable matches : list text -> text -> bool.
  Variable C : Type.
  Variable cdig : C -> text.
  Variable ser : gen -> C.
  Notation node := (node C).
  Notation events := (events matches C).

  (* a recorded directory entry is what is computed now *)
  Definition dh_ent_ok (spec : list text) (t : node) (p : path) (e : entry) : Prop :=
    exists d cs, get C t p = Some d /\ dirhash Hb matches C spec (e_fmt e) p d = Some cs /\ dh_entry_ok e cs = true.
  Definition eff (gens : list gen) : list text := set_patterns (latest_patterns gens) [] (pattern_file_lines []).
  Definition dh_inv (gens : list gen) (t : node) : Prop :=
    (forall g r e, In g gens -> In r (g_records g) -> r_dir r = true -> In e (r_entries r) -> dh_ent_ok (eff gens) t (r_path r) e) /\
    (forall g es e, In g gens -> g_root g = Some es -> In e es -> dh_ent_ok (eff gens) t [] e).

  Lemma dh_failures_nil spec fmts t p es : (forall e, In e es -> dh_ent_ok spec t p e) -> dh_failures Hb matches C spec fmts t p es = [].
  Proof.
    intros H. unfold dh_failures. induction es as [|e es IH]; [reflexivity|]. cbn [flat_map].
    rewrite IH by (intros e' He'; apply H; right; exact He'). rewrite app_nil_r.
    destruct (memf (e_fmt e) fmts); [|reflexivity].
    destruct (H e (or_introl eq_refl)) as [d [cs [Hg [Hd Hok]]]]. rewrite Hg, Hd, Hok. reflexivity.
  Qed.
  Lemma ev_dirs_nonempty spec t q : In q (ev_dirs (events spec [] t)) -> q <> [].
  Proof.
    intros H. unfold ev_dirs in H. apply in_flat_map in H. destruct H as [e [He Hq]]. destruct e as [|p kids]; [destruct Hq|].
    apply in_map_iff in Hq. destruct Hq as [[q0 b] [<- Hq]]. apply filter_In in Hq. destruct Hq as [Hq _].
    assert (Hr : In (q0, b) (reported (events spec [] t))) by (unfold reported; apply in_flat_map; exists (EvDir p kids); auto).
    apply (Permutation_in _ (traversal_exact matches C spec t [])) in Hr.
    destruct (entries_below matches C spec t [] q0 b Hr) as [n [s ->]]. cbn. discriminate.
  Qed.

  (* C09: a flat tree whose recorded directory hashes are the present ones passes verify -dh, whatever options *)
  Theorem dh_inv_exit_0 t h ofmt co ro : lh_root h = [] -> load C cdig t = inl [h] ->
    (forall g r, In g (lh_gens h) -> In r (g_records g) -> r_prev r = None) -> dh_inv (lh_gens h) t ->
    o_outcome (snd (verify_dh Hb matches C cdig t ofmt co ro [] [])) = Exit 0.
  Proof.
    intros Hr Hl Hprev [Hrec Hroot].
    rewrite (verify_dh_exit Hb matches C cdig t [h] ofmt co ro [] [] Hl). cbn zeta.
    change (root_hist [h]) with h. fold (eff (lh_gens h)).
    assert (Hz : dh_failed Hb matches C [h] t ofmt co ro (eff (lh_gens h)) = []); [|rewrite Hz; reflexivity].
    unfold dh_failed. change (root_hist [h]) with h.
    match goal with |- dedup_fmts (?A ++ ?B) = [] => assert (HA : A = []); [|assert (HB : B = []); [|rewrite HA, HB; reflexivity]] end.
    - destruct ro; [reflexivity|]. apply flat_map_nil_all. intros p Hp. cbn zeta.
      assert (Hrt : route [h] h p = h) by (unfold route; cbn [fold_left]; unfold better; rewrite Nat.ltb_irrefl, andb_false_r; reflexivity).
      rewrite Hrt, Hr. assert (Hsp : strip_prefix [] p = p) by (destruct p; reflexivity). rewrite Hsp.
      pose proof (ev_dirs_nonempty _ t p Hp) as Hne.
      apply dh_failures_nil. intros e He. apply in_map_iff in He. destruct He as [[no e'] [<- He]]. cbn [snd].
      unfold find_directory_entries in He. apply in_app_or in He. destruct He as [He|He]; [|destruct p; [congruence|destruct He]].
      apply in_flat_map in He. destruct He as [g [Hg He]].
      destruct (find_media_hash g p) as [r|] eqn:Em; [|destruct He]. destruct (r_dir r) eqn:Ed; [|destruct He].
      apply in_map_iff in He. destruct He as [e0 [E He]]. injection E as _ <-.
      destruct (find_media_hash_In g p r Hne Em) as [Hin Hk].
      rewrite <- (keys_path r p (Hprev g r Hg Hin) Hk). apply (Hrec g r e0 Hg Hin Ed He).
    - destruct co; [reflexivity|]. apply dh_failures_nil. intros e He. apply in_flat_map in He. destruct He as [g [Hg He]].
      destruct (g_root g) as [es|] eqn:Eg; [|destruct He]. apply (Hroot g es e Hg Eg He).
  Qed.
  (* ---- what a flat create run records for directories is what verify -dh computes on the same tree ---- *)
  Lemma promote_dh_entry_ok e cs : dh_entry_ok (promote e) cs = dh_entry_ok e cs.
  Proof. unfold promote. destruct (e_action e) as [[]|]; reflexivity. Qed.
  Lemma dh_ent_ok_promote spec t p e : dh_ent_ok spec t p e -> dh_ent_ok spec t p (promote e).
  Proof. intros [d [cs [H1 [H2 H3]]]]. exists d, cs. rewrite promote_fmt, promote_dh_entry_ok. auto. Qed.
  Lemma dirhash_ignore_history spec f p h h' kids : dirhash Hb matches C spec f p (Dir h kids) = dirhash Hb matches C spec f p (Dir h' kids).
  Proof. reflexivity. Qed.
  Lemma dh_ent_ok_hist spec h h' kids p e : dh_ent_ok spec (Dir h kids) p e -> dh_ent_ok spec (Dir h' kids) p e.
  Proof.
    intros [d [cs [H1 [H2 H3]]]]. destruct p as [|n p'].
    - cbn in H1. injection H1 as <-. exists (Dir h' kids), cs. split; [reflexivity|]. split; [|exact H3].
      rewrite <- H2. apply dirhash_ignore_history.
    - exists d, cs. split; [exact H1|auto].
  Qed.
  Lemma dir_entries_dh_ok no_dh spec fmts p t es e :
    dir_entries Hb matches C no_dh spec fmts p t = Some es -> In e es -> dh_ent_ok spec t p e.
  Proof.
    unfold dir_entries. destruct no_dh; [intros [= <-] []|]. intros H Hin.
    apply (opt_all_In _ _ _ H) in Hin. apply in_map_iff in Hin. destruct Hin as [f [Hf _]].
    destruct (get C t p) as [d|] eqn:Eg; [|discriminate]. destruct (dirhash Hb matches C spec f p d) as [cs|] eqn:Ed; [|discriminate].
    injection Hf as <-. exists d, cs. cbn [e_fmt]. split; [exact Eg|]. split; [exact Ed|].
    unfold dh_entry_ok. cbn [e_digest e_struct]. rewrite !text_eqb_refl. reflexivity.
  Qed.

  Section NewDoc.
    Variable h0 : lhist.
    Hypothesis h0_root : lh_root h0 = [].
    Hypothesis h0_parent : lh_parent h0 = None.
    Lemma new_doc_dh t fmts no_dh spec sp recs0 :
      wf_tree C t -> is_dir C t = true ->
      let sess := fst (fold_left (process_event Hb matches C [h0] fmts no_dh spec t) (events spec [] t) ([], 0)) in
      validate_records (recs sess) = Some recs0 ->
      let doc := new_doc InPlace (sess_list sess []) recs0 sp [] h0 in
      (forall r e, In r (g_records doc) -> r_dir r = true -> In e (r_entries r) -> dh_ent_ok spec t (r_path r) e) /\
      (forall es e, g_root doc = Some es -> In e es -> dh_ent_ok spec t [] e).
    Proof.
      intros Hwf Hd. cbn zeta. intros Hv.
      set (evs := events spec [] t) in *.
      assert (Hne : forall p c, In (p, c) (ev_files evs) -> p <> []).
      { intros p c Hin. eapply (files_nonempty matches C). apply (files_of_ev_files evs p). exists c. exact Hin. }
      split.
      - assert (HRR : forall r, In r (recs (fst (fold_left (process_event Hb matches C [h0] fmts no_dh spec t) evs ([], 0)))) ->
                        r_dir r = true -> forall e, In e (r_entries r) -> dh_ent_ok spec t (r_path r) e).
        { apply (fold_events_RR_exact Hb matches C h0 h0_root h0_parent (fun r => r_dir r = true -> forall e, In e (r_entries r) -> dh_ent_ok spec t (r_path r) e)).
          - apply ev_paths_NoDup. exact Hwf.
          - intros r [].
          - intros r [].
          - intros p c Hin. split; [eapply Hne; exact Hin|]. cbn [r_dir]. discriminate.
          - intros p _ _ e He. cbn [r_path r_entries] in *.
            destruct (dir_entries Hb matches C no_dh spec fmts p t) as [es|] eqn:Ed; [|destruct He]. eapply dir_entries_dh_ok; eauto. }
        intros r e Hr Hdir He. cbn [new_doc g_records] in Hr. apply in_map_iff in Hr. destruct Hr as [r1 [<- Hr1]].
        assert (Hd1 : r_dir r1 = true) by (unfold readback_record in Hdir; destruct (r_dir r1); [reflexivity|exact Hdir]).
        unfold readback_record in *. rewrite Hd1 in *.
        apply validate_records_Forall2 in Hv. clear -Hv Hr1 Hd1 He HRR.
        induction Hv as [|r2 r1' rs rs' Hval Hv IH]; [destruct Hr1|]. destruct Hr1 as [->|Hr1].
        + apply validate_record_ok in Hval. destruct Hval as [Ep [Edir [_ [_ [Ees _]]]]]. rewrite Ees in He. apply in_map_iff in He.
          destruct He as [e2 [<- He2]]. rewrite Ep. apply dh_ent_ok_promote. apply (HRR r2 (or_introl eq_refl)); [congruence|exact He2].
        + apply IH; auto. intros r Hr. apply HRR. right. exact Hr.
      - intros es e Hroot He. cbn [new_doc g_root] in Hroot.
        assert (He' : In e (root_entries (fst (fold_left (process_event Hb matches C [h0] fmts no_dh spec t) evs ([], 0))))).
        { unfold root_entries. unfold readback_root in Hroot. destruct (nl_root _) as [rr|]; [|discriminate].
          destruct (r_entries rr) as [|x xs] eqn:Er; [discriminate|]. injection Hroot as <-. exact He. }
        clear He Hroot. revert e He'. apply (fold_events_root Hb matches C h0 h0_root h0_parent).
        + intros e [].
        + exact Hne.
        + intros e He. destruct (dir_entries Hb matches C no_dh spec fmts [] t) as [es0|] eqn:Ed; [|destruct He]. eapply dir_entries_dh_ok; eauto.
    Qed.
  End NewDoc.
  Lemma latest_patterns_snoc gens g : latest_patterns (gens ++ [g]) = g_patterns g.
  Proof. unfold latest_patterns. rewrite rev_app_distr. reflexivity. Qed.

  (* one more generation on a flat history (no extra patterns): the invariant carries over *)
  Theorem flat_create_dh old kids h0 n req no_dh :
    wf_tree C (Dir (Some old) kids) -> load C cdig (Dir (Some old) kids) = inl [h0] -> flat_ok Hb C cdig n old kids -> req <> [] ->
    dh_inv (loaded_gens C old) (Dir (Some old) kids) ->
    let run := create_folder Hb matches C cdig ser (Dir (Some old) kids) req no_dh false [] [] in
    o_outcome (snd run) <> Abort ->
    exists doc, fst run = Dir (Some (after_commit C cdig ser old doc)) kids /\
                dh_inv (loaded_gens C old ++ [doc]) (Dir (Some (after_commit C cdig ser old doc)) kids).
  Proof.
    intros Hwf Hl [Hw [Hnp _]] Hreq [Hrec Hroot]. cbn zeta. intros Hout.
    pose proof Hl as Hl0. rewrite load_dir in Hl0.
    destruct (check_chain C cdig old) eqn:Ecc; [discriminate|].
    destruct (combine_results (sort name_leb (kid_results C cdig [] [] kids))) as [below|e] eqn:Ec; [|discriminate].
    assert (Hb0 : below = [] /\ h0 = lhist_of C [] None (Some old)).
    { destruct below as [|b0 b1]; cbn in Hl0; [injection Hl0 as <-; auto|]. injection Hl0 as _ H. destruct b1; discriminate. }
    destruct Hb0 as [-> Eh0]. clear Hl0.
    assert (h0_root : lh_root h0 = []) by (rewrite Eh0; reflexivity).
    assert (h0_parent : lh_parent h0 = None) by (rewrite Eh0; reflexivity).
    assert (h0_gens : lh_gens h0 = loaded_gens C old) by (rewrite Eh0; reflexivity).
    set (t := Dir (Some old) kids) in *.
    destruct (create_flat_shape Hb matches C cdig ser h0 h0_root h0_parent t req no_dh [] [] Hl eq_refl Hreq Hout)
      as [sess [recs0 [Esess [Hv [_ Ht]]]]].
    set (spec := set_patterns (latest_patterns (lh_gens h0)) [] (pattern_file_lines [])) in *.
    set (doc := new_doc InPlace (sess_list sess []) recs0 spec [] h0) in *.
    assert (Hspec : spec = eff (loaded_gens C old)) by (unfold spec, eff; rewrite h0_gens; reflexivity).
    assert (Heff : eff (loaded_gens C old ++ [doc]) = eff (loaded_gens C old)).
    { unfold eff at 1. rewrite latest_patterns_snoc. unfold doc. rewrite new_doc_patterns, h0_gens. fold spec.
      destruct (set_patterns_stable_gen (latest_patterns (loaded_gens C old)) [] (pattern_file_lines []) Hnp) as [E1 E2]. cbn zeta in E1, E2.
      rewrite Hspec. unfold eff. rewrite E1. exact E2. }
    exists doc. split; [rewrite Ht, Eh0; reflexivity|].
    rewrite Esess in Hv.
    destruct (new_doc_dh h0 h0_root h0_parent t (sort_fmts req) no_dh spec spec recs0 Hwf eq_refl Hv) as [Hdrec Hdroot].
    rewrite <- Esess in Hdrec, Hdroot. fold doc in Hdrec, Hdroot.
    unfold dh_inv. rewrite Heff. split.
    - intros g r e Hg Hr Hd He. apply (dh_ent_ok_hist _ (Some old)). fold t.
      apply in_app_or in Hg. destruct Hg as [Hg|[<-|[]]]; [eapply Hrec; eauto|]. rewrite <- Hspec. apply Hdrec; assumption.
    - intros g es e Hg Hes He. apply (dh_ent_ok_hist _ (Some old)). fold t.
      apply in_app_or in Hg. destruct Hg as [Hg|[<-|[]]]; [eapply Hroot; eauto|]. rewrite <- Hspec. eapply Hdroot; eauto.
  Qed.

  (* the first generation, with any patterns *)
  Theorem fresh_create_dh kids h0 req no_dh ip ifl :
    wf_tree C (Dir None kids) -> load C cdig (Dir None kids) = inl [h0] -> req <> [] ->
    let run := create_folder Hb matches C cdig ser (Dir None kids) req no_dh false ip ifl in
    o_outcome (snd run) <> Abort ->
    exists doc, fst run = Dir (Some (after_commit C cdig ser (mkHist C [] None) doc)) kids /\
                dh_inv [doc] (Dir (Some (after_commit C cdig ser (mkHist C [] None) doc)) kids).
  Proof.
    intros Hwf Hl Hreq. cbn zeta. intros Hout.
    pose proof Hl as Hl0. rewrite load_dir in Hl0. cbn in Hl0.
    destruct (combine_results (sort name_leb (kid_results C cdig [] [] kids))) as [below|e] eqn:Ec; [|discriminate].
    assert (Hb0 : below = [] /\ h0 = lhist_of C [] None None).
    { destruct below as [|b0 b1]; cbn in Hl0; [injection Hl0 as <-; auto|]. injection Hl0 as _ H. destruct b1; discriminate. }
    destruct Hb0 as [-> Eh0]. clear Hl0.
    assert (h0_root : lh_root h0 = []) by (rewrite Eh0; reflexivity).
    assert (h0_parent : lh_parent h0 = None) by (rewrite Eh0; reflexivity).
    assert (h0_fresh : lh_gens h0 = []) by (rewrite Eh0; reflexivity).
    assert (h0_chain : lh_chain h0 = []) by (rewrite Eh0; reflexivity).
    set (t := Dir None kids) in *.
    destruct (create_flat_shape Hb matches C cdig ser h0 h0_root h0_parent t req no_dh ip ifl Hl eq_refl Hreq Hout)
      as [sess [recs0 [Esess [Hv [_ Ht]]]]].
    set (spec := set_patterns (latest_patterns (lh_gens h0)) ip (pattern_file_lines ifl)) in *.
    set (doc := new_doc InPlace (sess_list sess []) recs0 spec [] h0) in *.
    assert (Heff : eff [doc] = spec).
    { unfold eff. cbn [latest_patterns rev app]. unfold doc at 1. rewrite new_doc_patterns, h0_fresh. cbn [latest_patterns rev].
      unfold spec. rewrite h0_fresh. cbn [latest_patterns rev].
      destruct (set_patterns_stable ip (pattern_file_lines ifl)) as [E1 E2]. cbn zeta in E1, E2. rewrite E1. exact E2. }
    assert (Eold : get_hist C t [] = None) by reflexivity. rewrite Eold, h0_chain in Ht. cbn [h_files app] in Ht.
    exists doc. split; [rewrite Ht; reflexivity|].
    rewrite Esess in Hv.
    destruct (new_doc_dh h0 h0_root h0_parent t (sort_fmts req) no_dh spec spec recs0 Hwf eq_refl Hv) as [Hdrec Hdroot].
    rewrite <- Esess in Hdrec, Hdroot. fold doc in Hdrec, Hdroot.
    unfold dh_inv. rewrite Heff. split.
    - intros g r e [<-|[]] Hr Hd He. apply (dh_ent_ok_hist _ None). fold t. apply Hdrec; assumption.
    - intros g es e [<-|[]] Hes He. apply (dh_ent_ok_hist _ None). fold t. eapply Hdroot; eauto.
  Qed.
  (* ---- the cycle: seal, then any number of create runs on the untouched tree; verify -dh exits 0 ---- *)
  Lemma after_commit_inj old d1 d2 : after_commit C cdig ser old d1 = after_commit C cdig ser old d2 -> d1 = d2.
  Proof.
    unfold after_commit. intros E. injection E as E _. apply app_inv_head in E. injection E as _ _ E. exact E.
  Qed.
  Definition flat_state_dh (n : nat) (old : hist C) (kids : list (text * node)) : Prop :=
    flat_state Hb matches C cdig n old kids /\ dh_inv (loaded_gens C old) (Dir (Some old) kids).

  Theorem flat_state_dh_verifies n old kids ofmt co ro : flat_state_dh n old kids ->
    o_outcome (snd (verify_dh Hb matches C cdig (Dir (Some old) kids) ofmt co ro [] [])) = Exit 0.
  Proof.
    intros [[Hwf [Hl [[_ [_ [[Hprev _] _]]] _]]] Hdh].
    apply (dh_inv_exit_0 (Dir (Some old) kids) (lhist_of C [] None (Some old)) ofmt co ro eq_refl Hl); assumption.
  Qed.

  Theorem flat_cycle_dh n old kids req no_dh : flat_state_dh n old kids -> req <> [] ->
    let run := create_folder Hb matches C cdig ser (Dir (Some old) kids) req no_dh false [] [] in
    o_outcome (snd run) = Exit 0 /\ exists old', fst run = Dir (Some old') kids /\ flat_state_dh (S n) old' kids.
  Proof.
    intros [Hs Hdh] Hreq. cbn zeta.
    destruct (flat_cycle Hb matches C cdig ser n old kids req no_dh Hs Hreq) as [Hout [old' [Et [Hs' _]]]].
    split; [exact Hout|]. exists old'. split; [exact Et|]. split; [exact Hs'|].
    destruct Hs as [Hwf [Hl [Hok _]]].
    assert (Hna : o_outcome (snd (create_folder Hb matches C cdig ser (Dir (Some old) kids) req no_dh false [] [])) <> Abort) by (rewrite Hout; discriminate).
    destruct (flat_create_dh old kids _ n req no_dh Hwf Hl Hok Hreq Hdh Hna) as [doc [Et2 Hdh']].
    rewrite Et in Et2.
    assert (E : old' = after_commit C cdig ser old doc).
    { remember (after_commit C cdig ser old doc) as a2. injection Et2 as E. exact E. }
    subst old'.
    destruct Hok as [Hw _].
    assert (Hno : g_no doc = N.of_nat (S n)).
    { destruct Hs' as [_ [_ [[Hw' _] _]]]. destruct Hw' as [Hf _]. unfold after_commit in Hf. cbn [h_files] in Hf.
      rewrite map_app in Hf. cbn [map mf_no] in Hf. destruct Hw as [Hf0 _]. rewrite Hf0, nums_S in Hf. apply app_inv_head in Hf. congruence. }
    rewrite (loaded_gens_after_commit C cdig ser n old doc Hw Hno). exact Hdh'.
  Qed.

  Theorem unchanged_sequences_dh rs : forall n old kids, flat_state_dh n old kids -> Forall (fun x => fst x <> []) rs ->
    exists old', fst (run_creates Hb matches C cdig ser (Dir (Some old) kids) rs) = Dir (Some old') kids /\ flat_state_dh (length rs + n) old' kids.
  Proof.
    induction rs as [|[req no_dh] rs IH]; intros n old kids Hs Hreqs; cbn [run_creates].
    - exists old. split; [reflexivity|exact Hs].
    - inversion Hreqs as [|? ? Hreq Hreqs']; subst. cbn [fst] in Hreq.
      destruct (flat_cycle_dh n old kids req no_dh Hs Hreq) as [_ [old1 [Et Hs1]]].
      rewrite Et. destruct (IH (S n) old1 kids Hs1 Hreqs') as [old' [Et' Hs']].
      destruct (run_creates Hb matches C cdig ser (Dir (Some old1) kids) rs) as [t' os] eqn:Er. cbn [fst] in *.
      exists old'. split; [exact Et'|]. replace (length ((req, no_dh) :: rs) + n) with (length rs + S n) by (cbn [length]; lia). exact Hs'.
  Qed.

  (* C09 end to end on flat trees: seal a tree that has no history (any formats, -n or not, any patterns), run create
     any number of times (any formats, -n or not) on the untouched tree; verify -dh then exits 0 whatever its options *)
  Theorem seal_then_sequences_dh kids h0 req0 nd0 ip ifl rs ofmt co ro :
    wf_tree C (Dir None kids) -> load C cdig (Dir None kids) = inl [h0] -> req0 <> [] -> Forall (fun x => fst x <> []) rs ->
    let r0 := create_folder Hb matches C cdig ser (Dir None kids) req0 nd0 false ip ifl in
    let r := run_creates Hb matches C cdig ser (fst r0) rs in
    o_outcome (snd (verify_dh Hb matches C cdig (fst r) ofmt co ro [] [])) = Exit 0.
  Proof.
    intros Hwf Hl Hreq Hrs. cbn zeta.
    pose proof (fresh_create_succeeds Hb matches C cdig ser kids h0 req0 nd0 ip ifl Hwf Hl Hreq) as Hout.
    assert (Hna : o_outcome (snd (create_folder Hb matches C cdig ser (Dir None kids) req0 nd0 false ip ifl)) <> Abort) by (rewrite Hout; discriminate).
    destruct (fresh_create_flat_ok Hb matches C cdig ser kids h0 req0 nd0 ip ifl Hwf Hl Hreq Hna) as [doc [Et [Hl1 [Hok1 Hc1]]]].
    destruct (fresh_create_dh kids h0 req0 nd0 ip ifl Hwf Hl Hreq Hna) as [doc2 [Et2 Hdh]].
    rewrite Et in Et2.
    assert (E : after_commit C cdig ser (mkHist C [] None) doc = after_commit C cdig ser (mkHist C [] None) doc2).
    { remember (after_commit C cdig ser (mkHist C [] None) doc) as a1. remember (after_commit C cdig ser (mkHist C [] None) doc2) as a2.
      injection Et2 as E. exact E. }
    apply after_commit_inj in E. subst doc2.
    rewrite Et in *.
    set (old1 := after_commit C cdig ser (mkHist C [] None) doc) in *.
    assert (Hlg : loaded_gens C old1 = [doc]).
    { unfold loaded_gens, old1, after_commit. cbn [h_files app map mf_no mf_doc]. rewrite gen_eta. reflexivity. }
    assert (Hs1 : flat_state_dh 1 old1 kids).
    { split; [|rewrite Hlg; exact Hdh]. split; [|split; [exact Hl1|split; assumption]]. inversion Hwf as [|? ? Hn Hk]; subst. constructor; assumption. }
    destruct (unchanged_sequences_dh rs 1 old1 kids Hs1 Hrs) as [old' [Et' Hs']]. rewrite Et'.
    apply (flat_state_dh_verifies _ old' kids ofmt co ro Hs').
  Qed.
End DhMain.
