(* C12: ignore.py MHLIgnoreSpec.set_patterns -- order preserving accumulation without duplicates. *)
From Coq Require Import Lia.
From MHL Require Import Model.Ignore Gen.Generated Proofs.BaseFacts.

Lemma append_patterns_prefix : forall ps acc, exists s, append_patterns acc ps = acc ++ s.
Proof.
  induction ps as [|x ps IH]; intros acc; cbn.
  - exists []. rewrite app_nil_r. reflexivity.
  - destruct (mem_text x acc); [apply IH|]. destruct (IH (acc ++ [x])) as [s Hs]. exists (x :: s).
    rewrite Hs, <- app_assoc. reflexivity.
Qed.
Lemma append_patterns_In : forall ps acc x, In x (append_patterns acc ps) <-> In x acc \/ In x ps.
Proof.
  induction ps as [|y ps IH]; intros acc x; cbn; [tauto|].
  destruct (mem_text y acc) eqn:E.
  - apply mem_text_In in E. rewrite IH. split; [tauto|]. intros [H|[<-|H]]; auto.
  - rewrite IH, in_app_iff. cbn. tauto.
Qed.
Lemma append_patterns_NoDup : forall ps acc, NoDup acc -> NoDup (append_patterns acc ps).
Proof.
  induction ps as [|y ps IH]; intros acc Hn; cbn; [exact Hn|].
  destruct (mem_text y acc) eqn:E; [apply IH; exact Hn|]. apply IH.
  assert (~ In y acc) by (rewrite <- mem_text_In; congruence).
  clear E IH. induction acc as [|z acc IHa]; cbn; [constructor; [tauto|constructor]|].
  inversion Hn; subst. constructor.
  - rewrite in_app_iff. cbn. intros [Hi|[<-|[]]]; [tauto|]. apply H. left. reflexivity.
  - apply IHa; auto. intros Hi. apply H. right. exact Hi.
Qed.
(* a list without duplicates that shares nothing with acc is appended unchanged *)
Lemma append_patterns_fresh : forall ps acc, NoDup ps -> (forall x, In x ps -> ~ In x acc) -> append_patterns acc ps = acc ++ ps.
Proof.
  induction ps as [|y ps IH]; intros acc Hn Hd; cbn; [rewrite app_nil_r; reflexivity|].
  inversion Hn as [|? ? Hy Hn']; subst.
  assert (E : mem_text y acc = false).
  { destruct (mem_text y acc) eqn:E; [|reflexivity]. apply mem_text_In in E. exfalso. apply (Hd y); [left; reflexivity|exact E]. }
  rewrite E, IH; auto.
  - rewrite <- app_assoc. reflexivity.
  - intros x Hx Hin. apply in_app_or in Hin. destruct Hin as [Hin|[<-|[]]]; [apply (Hd x); [right; exact Hx|exact Hin]|tauto].
Qed.

Definition base_of (existing : list text) : list text := match existing with [] => default_ignore | _ => existing end.

(* the new list starts with the previous generation's list (or the defaults), in the same order ... *)
Theorem set_patterns_prefix existing new_list file_list :
  NoDup existing -> exists s, set_patterns existing new_list file_list = base_of existing ++ s.
Proof.
  intros Hn. unfold set_patterns. fold (base_of existing).
  assert (Hb : append_patterns [] (base_of existing) = base_of existing).
  { rewrite append_patterns_fresh; [reflexivity| |intros x _ []].
    unfold base_of. destruct existing; [|exact Hn]. repeat constructor; cbn; intros H; repeat destruct H as [H|H]; try discriminate H; auto. }
  rewrite Hb. destruct (append_patterns_prefix new_list (base_of existing)) as [s1 H1]. rewrite H1.
  destruct (append_patterns_prefix file_list (base_of existing ++ s1)) as [s2 H2]. rewrite H2.
  exists (s1 ++ s2). rewrite app_assoc. reflexivity.
Qed.
(* ... contains exactly the previous / default, the command-line and the file patterns ... *)
Theorem set_patterns_In existing new_list file_list x :
  In x (set_patterns existing new_list file_list) <-> In x (base_of existing) \/ In x new_list \/ In x file_list.
Proof. unfold set_patterns. fold (base_of existing). rewrite !append_patterns_In. cbn. tauto. Qed.
(* ... and never holds a pattern twice *)
Theorem set_patterns_NoDup existing new_list file_list : NoDup (set_patterns existing new_list file_list).
Proof. unfold set_patterns. repeat apply append_patterns_NoDup. constructor. Qed.

(* the defaults are there from the first generation on and can never be lost *)
Theorem set_patterns_defaults existing new_list file_list :
  (existing <> [] -> incl default_ignore existing) -> incl default_ignore (set_patterns existing new_list file_list).
Proof.
  intros H x Hx. apply set_patterns_In. left. unfold base_of. destruct existing; [exact Hx|]. apply H; [discriminate|exact Hx].
Qed.
Theorem default_ignore_is : default_ignore = [ [46; 68; 83; 95; 83; 116; 111; 114; 101]; [97; 115; 99; 109; 104; 108]; [97; 115; 99; 109; 104; 108; 47] ]%N.
Proof. reflexivity. Qed.

(* pattern files: blank lines are skipped, every other line is a pattern *)
Theorem pattern_file_lines_In lines x : In x (pattern_file_lines lines) <-> In x lines /\ x <> [].
Proof.
  unfold pattern_file_lines. rewrite filter_In. split; intros [H1 H2]; split; auto.
  - intros ->. discriminate.
  - destruct (text_eqb_spec x []); [contradiction|reflexivity].
Qed.

(* accumulation over any number of generations: each generation's list is a prefix of the next one's *)
Fixpoint pattern_history (gen1 : list text) (runs : list (list text * list text)) : list (list text) :=
  match runs with
  | [] => [gen1]
  | (cli, file) :: rest => gen1 :: pattern_history (set_patterns gen1 cli file) rest
  end.
Inductive chain_prefix : list (list text) -> Prop :=
| cp_one l : chain_prefix [l]
| cp_cons a b rest : (exists s, b = a ++ s) -> chain_prefix (b :: rest) -> chain_prefix (a :: b :: rest).
Lemma pattern_history_head runs : forall g, exists rest, pattern_history g runs = g :: rest.
Proof. destruct runs as [|[c f] runs]; intros g; cbn; eauto. Qed.
Theorem patterns_only_accumulate : forall runs g, NoDup g -> g <> [] -> chain_prefix (pattern_history g runs).
Proof.
  induction runs as [|[cli file] runs IH]; intros g Hn Hne; cbn; [constructor|].
  destruct (pattern_history_head runs (set_patterns g cli file)) as [rest Hr].
  rewrite Hr. constructor.
  - destruct (set_patterns_prefix g cli file Hn) as [s Hs]. exists s. rewrite Hs. destruct g; [congruence|reflexivity].
  - rewrite <- Hr. apply IH; [apply set_patterns_NoDup|].
    destruct (set_patterns_prefix g cli file Hn) as [s Hs]. rewrite Hs. destruct g; [congruence|discriminate].
Qed.

(* ---- the effective list is stable once it has been written: reading it back as "previous patterns" gives it again ---- *)
Lemma append_patterns_skip : forall l1 acc l2, (forall x, In x l1 -> In x acc) -> append_patterns acc (l1 ++ l2) = append_patterns acc l2.
Proof.
  induction l1 as [|y l1 IH]; intros acc l2 H; [reflexivity|]. cbn [app append_patterns].
  assert (E : mem_text y acc = true) by (apply mem_text_In; apply H; left; reflexivity). rewrite E. apply IH. intros x Hx. apply H. right. exact Hx.
Qed.
Lemma NoDup_app_parts {A} (a b : list A) : NoDup (a ++ b) -> NoDup b /\ forall x, In x b -> ~ In x a.
Proof.
  induction a as [|y a IH]; cbn; intros H; [split; [exact H|tauto]|]. inversion H as [|? ? Hy Hn]; subst.
  destruct (IH Hn) as [H1 H2]. split; [exact H1|]. intros x Hx [->|Hin]; [apply Hy; apply in_or_app; right; exact Hx|exact (H2 x Hx Hin)].
Qed.
Theorem set_patterns_stable cli file :
  let l := set_patterns [] cli file in set_patterns [] l [] = l /\ set_patterns l [] [] = l.
Proof.
  cbn zeta. set (l := set_patterns [] cli file).
  assert (Hn : NoDup l) by apply set_patterns_NoDup.
  destruct (set_patterns_prefix [] cli file (NoDup_nil _)) as [s Hs]. fold l in Hs. unfold base_of in Hs.
  assert (Hd : append_patterns [] default_ignore = default_ignore).
  { rewrite append_patterns_fresh; [reflexivity| |intros x _ []]. repeat constructor; cbn; intros H; repeat destruct H as [H|H]; try discriminate H; auto. }
  split.
  - unfold set_patterns at 1. cbn [append_patterns]. rewrite Hd, Hs. rewrite append_patterns_skip by tauto.
    rewrite Hs in Hn. destruct (NoDup_app_parts _ _ Hn) as [Hns Hdis]. apply append_patterns_fresh; assumption.
  - assert (Hne : l <> []) by (rewrite Hs; discriminate). clear Hs Hd. clearbody l.
    unfold set_patterns. destruct l as [|x l']; [congruence|].
    change (append_patterns (append_patterns (append_patterns [] (x :: l')) []) []) with (append_patterns [] (x :: l')).
    rewrite append_patterns_fresh; [reflexivity|exact Hn|intros y _ []].
Qed.

(* the same for any duplicate-free previous list: what a run writes as pattern list is reproduced when it is read back as
   the previous list of the next run with nothing added *)
Theorem set_patterns_stable_gen e cli file : NoDup e ->
  let l := set_patterns e cli file in set_patterns e l [] = l /\ set_patterns l [] [] = l.
Proof.
  intros He. cbn zeta. set (l := set_patterns e cli file).
  assert (Hn : NoDup l) by apply set_patterns_NoDup.
  destruct (set_patterns_prefix e cli file He) as [s Hs]. fold l in Hs.
  assert (Hbn : NoDup (base_of e)).
  { unfold base_of. destruct e; [|exact He]. repeat constructor; cbn; intros H; repeat destruct H as [H|H]; try discriminate H; auto. }
  assert (Hd : append_patterns [] (base_of e) = base_of e) by (rewrite append_patterns_fresh; [reflexivity|exact Hbn|intros x _ []]).
  assert (Hbne : base_of e <> []) by (unfold base_of; destruct e; discriminate).
  split.
  - unfold set_patterns at 1. fold (base_of e). cbn [append_patterns]. rewrite Hd, Hs. rewrite append_patterns_skip by tauto.
    rewrite Hs in Hn. destruct (NoDup_app_parts _ _ Hn) as [Hns Hdis]. apply append_patterns_fresh; assumption.
  - assert (Hne : l <> []) by (rewrite Hs; destruct (base_of e); [congruence|discriminate]). clear Hs Hd. clearbody l.
    unfold set_patterns. destruct l as [|x l']; [congruence|].
    change (append_patterns (append_patterns (append_patterns [] (x :: l')) []) []) with (append_patterns [] (x :: l')).
    rewrite append_patterns_fresh; [reflexivity|exact Hn|intros y _ []].
Qed.
