(* C02, create -sf on a flat history: the new generation holds records for exactly the named files (all files beneath a
   named folder), each once, as file records with the current digests -- and for nothing else. *)
From Coq Require Import Lia.
From MHL Require Import Model.Commands Gen.Generated Proofs.BaseFacts Proofs.SealFacts Proofs.TreeFacts Proofs.RouteFacts
  Proofs.CommitFacts Proofs.LoadFacts Proofs.CreateFacts Proofs.FreshFacts.

Section Sf.
  Variable Hb : fmt -> bytes -> bytes.
  Variable matches : list text -> text -> bool.
  Variable C : Type.
  Variable cdig : C -> text.
  Variable ser : gen -> C.
  Notation node := (node C).
  Variable h0 : lhist.
  Hypothesis h0_root : lh_root h0 = [].
  Hypothesis h0_parent : lh_parent h0 = None.

  Lemma add_entries_fresh' rs p d sz es : ~ In p (map r_path rs) -> add_entries rs p d sz es = rs ++ [mkRecord p d sz es None].
  Proof.
    induction rs as [|r rs IH]; intros Hn; cbn [add_entries app]; [reflexivity|].
    destruct (path_eqb_spec (r_path r) p) as [E|E]; [exfalso; apply Hn; left; exact E|].
    rewrite IH; [reflexivity|]. intros H. apply Hn. right. exact H.
  Qed.

  (* a record written by this run for one of the files *)
  Definition sf_record (fmts : list fmt) (files : list (path * bytes)) (r : record) : Prop :=
    r_dir r = false /\ r_prev r = None /\
    exists c, In (r_path r, c) files /\ r_entries r = fst (seal (lh_gens h0) (r_path r) (fun f => digest_text Hb f c) fmts).

  Lemma sf_fold fmts : fmts <> [] -> forall files s fails done,
    (forall x, In x files -> fst x <> []) -> map r_path (recs s) = rev done ->
    let st := fold_left (sf_step Hb [h0] fmts) files (s, fails, done) in
    map r_path (recs (fst (fst st))) = rev (snd st) /\
    (forall q, In q (snd st) <-> In q done \/ In q (map fst files)) /\
    (forall r, In r (recs (fst (fst st))) -> In r (recs s) \/ sf_record fmts files r).
  Proof.
    intros Hf. induction files as [|x files IH]; intros s fails done Hne Hp; cbn [fold_left].
    - split; [exact Hp|]. split; [intros q; cbn; tauto|auto].
    - cbn zeta. destruct (mem_path (fst x) done) eqn:Em.
      + assert (E : sf_step Hb [h0] fmts (s, fails, done) x = (s, fails, done)).
        { unfold sf_step. match goal with |- (if ?b then _ else _) = _ => replace b with true by (symmetry; exact Em) end. reflexivity. }
        rewrite E. destruct (IH s fails done (fun y Hy => Hne y (or_intror Hy)) Hp) as [A [B D]]. cbn zeta in A, B, D.
        split; [exact A|]. split.
        * intros q. rewrite B. cbn [map In]. apply mem_path_In in Em. split; [tauto|]. intros [H|[<-|H]]; auto.
        * intros r Hr. destruct (D r Hr) as [H|[H1 [H2 [c [H3 H4]]]]]; [auto|]. right. split; [exact H1|]. split; [exact H2|]. exists c. split; [right; exact H3|exact H4].
      + destruct x as [p c]. cbn [fst snd] in *.
        assert (Hsp : strip_prefix [] p = p) by (destruct p; reflexivity).
        pose proof (seal_nonempty (lh_gens h0) p (fun f => digest_text Hb f c) fmts Hf) as Hsn.
        destruct (seal (lh_gens h0) p (fun f => digest_text Hb f c) fmts) as [es res] eqn:Es. cbn [fst] in Hsn.
        destruct es as [|e0 es']; [congruence|].
        assert (Hpne : p <> []) by (apply (Hne (p, c)); left; reflexivity).
        assert (Hnew : ~ In p (map r_path (recs s))).
        { rewrite Hp, <- in_rev. intros H. apply mem_path_In in H. congruence. }
        set (s1 := sess_add s [] p false (Some (N.of_nat (length c))) (e0 :: es')).
        assert (E : exists f1, sf_step Hb [h0] fmts (s, fails, done) (p, c) = (s1, f1, p :: done)).
        { unfold sf_step. cbn [fst snd]. match goal with |- context [if ?b then _ else _] => replace b with false by (symmetry; exact Em) end. unfold seal_file. rewrite (route_flat h0), h0_root. cbn [strip_prefix]. rewrite ?Hsp, Es.
          eexists. reflexivity. }
        destruct E as [f1 E]. rewrite E.
        assert (Hr1 : recs s1 = recs s ++ [mkRecord p false (Some (N.of_nat (length c))) (e0 :: es') None]).
        { unfold s1. rewrite recs_sess_add. destruct p as [|n p']; [congruence|]. apply add_entries_fresh'. exact Hnew. }
        destruct (IH s1 f1 (p :: done)) as [A [B D]].
        { intros y Hy. apply Hne. right. exact Hy. }
        { rewrite Hr1, map_app, Hp. cbn [map rev r_path]. reflexivity. }
        cbn zeta in A, B, D.
        split; [exact A|]. split.
        * intros q. rewrite B. cbn [map In fst]. tauto.
        * intros r Hr. destruct (D r Hr) as [H|[H1 [H2 [c' [H3 H4]]]]].
          -- rewrite Hr1 in H. apply in_app_or in H. destruct H as [H|[<-|[]]]; [left; exact H|]. right.
             split; [reflexivity|]. split; [reflexivity|]. exists c. cbn [r_path r_entries]. split; [left; reflexivity|rewrite Es; reflexivity].
          -- right. split; [exact H1|]. split; [exact H2|]. exists c'. split; [right; exact H3|exact H4].
  Qed.
  Lemma sf_fold_nodup fmts : forall files s fails done, NoDup done ->
    NoDup (snd (fold_left (sf_step Hb [h0] fmts) files (s, fails, done))).
  Proof.
    induction files as [|x files IH]; intros s fails done Hn; cbn [fold_left]; [exact Hn|].
    unfold sf_step at 2. destruct (mem_path (fst x) done) eqn:Em; [apply IH; exact Hn|].
    destruct (seal_file Hb [h0] fmts s (fst x) (snd x)) as [[s' n] ok]. apply IH. constructor; [|exact Hn].
    intros H. apply mem_path_In in H. congruence.
  Qed.
  Lemma sf_files_nonempty spec t p q c : is_dir C t = true -> In (q, c) (sf_files matches C spec t p) -> q <> [].
  Proof.
    intros Hd. unfold sf_files. destruct (get C t p) as [[c0|h kids]|] eqn:Eg; [| |intros []].
    - intros [E|[]]. injection E as <- _. intros ->. destruct t; [discriminate|]. cbn in Eg. discriminate.
    - intros H. apply in_flat_map in H. destruct H as [e [He H]]. destruct e as [q0 c1|]; [|destruct H].
      destruct H as [E|[]]. injection E as -> ->.
      apply (files_nonempty matches C spec (Dir h kids) p). unfold files_of. apply in_flat_map. exists (EvFile q c). split; [exact He|left; reflexivity].
  Qed.

  Theorem create_sf_flat_exact t req sf ip ifl :
    load C cdig t = inl [h0] -> is_dir C t = true -> req <> [] ->
    let spec := set_patterns (latest_patterns (lh_gens h0)) ip (pattern_file_lines ifl) in
    let files := flat_map (sf_files matches C spec t) sf in
    let o := snd (create_sf Hb matches C cdig ser t req sf ip ifl) in
    o_outcome o <> Abort ->
    (files = [] -> o_written o = []) /\
    (files <> [] -> exists doc, o_written o = [([], doc)] /\ NoDup (map r_path (g_records doc)) /\
       (forall q, In q (map r_path (g_records doc)) <-> In q (map fst files)) /\
       (forall r, In r (g_records doc) -> r_dir r = false /\ exists c, In (r_path r, c) files /\
          forall e, In e (r_entries r) -> e_digest e = digest_text Hb (e_fmt e) c)).
  Proof.
    intros Hl Hd Hreq. cbn zeta. unfold create_sf. rewrite Hl. change (root_hist [h0]) with h0.
    set (spec := set_patterns (latest_patterns (lh_gens h0)) ip (pattern_file_lines ifl)).
    set (files := flat_map (sf_files matches C spec t) sf).
    assert (Hne : forall x, In x files -> fst x <> []).
    { intros [q c] Hin. unfold files in Hin. apply in_flat_map in Hin. destruct Hin as [p [_ Hin]]. eapply sf_files_nonempty; eauto. }
    destruct files as [|x0 fs] eqn:Efiles.
    { (* no file at all: nothing is committed *)
      cbn [fold_left]. unfold commit. cbn [fold_left]. unfold commit_one. cbn [cs_abort cs_refs refs_get sess_get].
      cbn [sess_get refs_get snd o_written cs_written o_outcome cs_abort]. intros _. split; [reflexivity|congruence]. }
    rewrite <- Efiles in *.
    match goal with |- context [fold_left ?f ?l ?i] => set (st := fold_left f l i) end.
    assert (Hfold : map r_path (recs (fst (fst st))) = rev (snd st) /\
                    (forall q, In q (snd st) <-> In q [] \/ In q (map fst files)) /\
                    (forall r, In r (recs (fst (fst st))) -> In r (recs []) \/ sf_record (sort_fmts req) files r))
      by exact (sf_fold (sort_fmts req) (sort_fmts_nonempty req Hreq) files [] 0 [] Hne eq_refl).
    assert (Hnd : NoDup (snd st)) by exact (sf_fold_nodup (sort_fmts req) files [] 0 [] (NoDup_nil _)).
    clearbody st. destruct st as [[sess fails] done'].
    cbn [fst snd] in Hfold, Hnd. destruct Hfold as [Hpaths [Hdone Hrecs]].
    unfold commit. cbn [fold_left].
    pose proof (commit_one_cases C cdig ser InPlace sess spec (mkCS C t [] [] [] false) h0) as Hcase.
    set (cs' := commit_one C cdig ser InPlace sess spec (mkCS C t [] [] [] false) h0) in *.
    assert (Hfne : files <> []) by (rewrite Efiles; discriminate).
    destruct Hcase as [Hs|_ _ _ Ha|nl recs0 doc Hnl Hv Hdoc Hw _ _ _ _].
    - (* nothing committed: impossible, the session holds a record *)
      intros _. exfalso.
      unfold cs', commit_one in Hs. cbn [cs_abort cs_refs refs_get] in Hs. rewrite h0_root in Hs.
      destruct (sess_get sess []) as [v|] eqn:Es.
      + destruct (validate_records (nl_records v)); discriminate.
      + assert (Hp2 : @nil path = rev done').
        { rewrite <- Hpaths. unfold recs, sess_list. rewrite Es. reflexivity. }
        assert (Hin : In (fst x0) done') by (apply Hdone; right; rewrite Efiles; left; reflexivity).
        apply in_rev in Hin. rewrite <- Hp2 in Hin. destruct Hin.
    - intros Hout. exfalso. apply Hout. cbn [snd o_outcome]. rewrite Ha. reflexivity.
    - intros _. rewrite h0_root in Hnl, Hw, Hdoc. cbn [cs_refs refs_get cs_written app] in Hdoc, Hw.
      assert (Hrs : nl_records nl = recs sess) by (rewrite Hnl; reflexivity).
      cbn [snd o_written]. split; [congruence|].
      intros _. exists doc. split; [exact Hw|].
      rewrite Hdoc. unfold new_doc. cbn [g_records]. rewrite readback_paths, (validate_records_paths _ _ Hv), Hrs, Hpaths.
      split; [apply NoDup_rev; exact Hnd|]. split.
      + intros q. rewrite <- in_rev, Hdone. cbn. tauto.
      + intros r Hr. apply in_map_iff in Hr. destruct Hr as [r1 [<- Hr1]].
        apply validate_records_Forall2 in Hv. rewrite Hrs in Hv.
        assert (Hex : exists r2, In r2 (recs sess) /\ validate_record r2 = Some r1).
        { clear -Hv Hr1. induction Hv as [|a b la lb Hab Hv IH]; [destruct Hr1|]. destruct Hr1 as [->|Hr1]; [exists a; split; [left; reflexivity|exact Hab]|].
          destruct (IH Hr1) as [r2 [H1 H2]]. exists r2. split; [right; exact H1|exact H2]. }
        destruct Hex as [r2 [Hr2 Hval]]. destruct (Hrecs r2 Hr2) as [[]|[Hdir [Hprev [c [Hc Hent]]]]].
        apply validate_record_ok in Hval. destruct Hval as [Ep [Edir [_ [_ [Ees _]]]]].
        unfold readback_record. rewrite Edir, Hdir. cbn [r_dir r_path r_entries]. split; [reflexivity|].
        exists c. rewrite Ep. split; [exact Hc|]. intros e He. apply sort_In in He. rewrite Ees in He.
        apply in_map_iff in He. destruct He as [e2 [<- He2]]. rewrite promote_digest, promote_fmt.
        rewrite Hent in He2. exact (seal_digest (lh_gens h0) (r_path r2) (fun f => digest_text Hb f c) (sort_fmts req) e2 He2).
  Qed.
End Sf.
