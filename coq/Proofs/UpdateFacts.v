(* Lemmas for C20: the order on versions, and the invariant of the two-thread system of Model/Update.v *)
From Coq Require Import List NArith Bool Lia.
From MHL Require Import Gen.Generated Model.Update.
Import ListNotations.
Local Open Scope N_scope.

(* ------------------------------------------------------------------------------------ the version order *)

Lemma cmp_then_opp : forall a b, CompOpp (cmp_then a b) = cmp_then (CompOpp a) (CompOpp b).
Proof. destruct a; reflexivity. Qed.

Lemma lex_refl : forall A (c : A -> A -> comparison), (forall a, c a a = Eq) -> forall x, lex c x x = Eq.
Proof. intros A c H; induction x; simpl; auto. rewrite H; simpl; auto. Qed.

Lemma lex_antisym : forall A (c : A -> A -> comparison), (forall a b, c b a = CompOpp (c a b)) ->
  forall x y, lex c y x = CompOpp (lex c x y).
Proof.
  intros A c H; induction x; destruct y; simpl; auto.
  rewrite cmp_then_opp, <- H, <- IHx; reflexivity.
Qed.

Lemma ext_refl : forall A (c : A -> A -> comparison), (forall a, c a a = Eq) -> forall x, ext_cmp c x x = Eq.
Proof. intros A c H [| a |]; simpl; auto. Qed.
Lemma ext_antisym : forall A (c : A -> A -> comparison), (forall a b, c b a = CompOpp (c a b)) ->
  forall x y, ext_cmp c y x = CompOpp (ext_cmp c x y).
Proof. intros A c H [| a |] [| b |]; simpl; auto. Qed.

Lemma pre_cmp_refl : forall a, pre_cmp a a = Eq.
Proof. intros [k n]; unfold pre_cmp; simpl; rewrite !N.compare_refl; reflexivity. Qed.
Lemma pre_cmp_antisym : forall a b, pre_cmp b a = CompOpp (pre_cmp a b).
Proof.
  intros [k n] [k' n']; unfold pre_cmp; simpl.
  rewrite cmp_then_opp, <- !N.compare_antisym; reflexivity.
Qed.
Lemma lseg_cmp_refl : forall a, lseg_cmp a a = Eq.
Proof. intros [n | s]; simpl; [apply N.compare_refl | apply lex_refl, N.compare_refl]. Qed.
Lemma lseg_cmp_antisym : forall a b, lseg_cmp b a = CompOpp (lseg_cmp a b).
Proof.
  intros [n | s] [m | t]; simpl; auto.
  - apply N.compare_antisym.
  - apply lex_antisym; intros; apply N.compare_antisym.
Qed.

Lemma ver_cmp_refl : forall v, ver_cmp v v = Eq.
Proof.
  intros v; unfold ver_cmp.
  rewrite N.compare_refl, (lex_refl _ _ N.compare_refl); simpl.
  rewrite (ext_refl _ _ pre_cmp_refl), !(ext_refl _ _ N.compare_refl); simpl.
  apply ext_refl, lex_refl, lseg_cmp_refl.
Qed.

Lemma ver_cmp_antisym : forall a b, ver_cmp b a = CompOpp (ver_cmp a b).
Proof.
  intros a b; unfold ver_cmp.
  rewrite !cmp_then_opp.
  rewrite <- N.compare_antisym.
  rewrite <- (lex_antisym _ N.compare (fun x y => N.compare_antisym x y)).
  rewrite <- (ext_antisym _ pre_cmp pre_cmp_antisym).
  rewrite <- !(ext_antisym _ N.compare (fun x y => N.compare_antisym x y)).
  rewrite <- (ext_antisym _ (lex lseg_cmp) (lex_antisym _ lseg_cmp lseg_cmp_antisym)).
  reflexivity.
Qed.

Lemma ver_gtb_irrefl : forall v, ver_gtb v v = false.
Proof. intros; unfold ver_gtb; rewrite ver_cmp_refl; reflexivity. Qed.

Lemma ver_gtb_lt : forall a b, ver_gtb a b = true <-> ver_cmp b a = Lt.
Proof.
  intros; unfold ver_gtb; rewrite (ver_cmp_antisym a b).
  destruct (ver_cmp a b); simpl; split; congruence.
Qed.

Lemma ver_gtb_asym : forall a b, ver_gtb a b = true -> ver_gtb b a = false.
Proof. intros a b H; apply ver_gtb_lt in H; unfold ver_gtb; rewrite H; reflexivity. Qed.

(* equal keys: the equal-version case never asks for an update *)
Lemma ver_gtb_eq_false : forall a b, ver_cmp a b = Eq -> ver_gtb a b = false /\ ver_gtb b a = false.
Proof. intros a b H; unfold ver_gtb; rewrite (ver_cmp_antisym a b), H; auto. Qed.

(* ------------------------------------------------------------------------ steps of the checker: frame *)

(* a step of the checker thread touches its own program counter, latest_version, finished and stderr -- never the
   main thread's program counter, standard output, the clock or the join delay *)
Lemma step_chk_frame : forall k s s', step_chk k s = Some s' ->
  s_main s' = s_main s /\ s_out s' = s_out s /\ s_now s' = s_now s /\ s_delay s' = s_delay s.
Proof.
  intros k s s' H; unfold step_chk in H.
  repeat match type of H with
         | context [match ?x with _ => _ end] => destruct x; try discriminate
         end; inversion H; subst; simpl; auto.
Qed.

(* ------------------------------------------------------------------------------------------ invariant *)

Definition fresh_reply (k : config) (v : version) : Prop :=
  s_reply (k_server k) = RResponse true (Some (JDict (TagText (Some v)))).
(* the answer had arrived by now *)
Definition got (k : config) (s : state) : Prop := exists t, s_after (k_server k) = Some t /\ t <= s_now s.

Definition out_cmd (k : config) : list oev := map OChunk (cmd_chunks k).

(* what justifies a notice *)
Definition justified (k : config) (s : state) : Prop :=
  exists v t c, s_after (k_server k) = Some t /\ fresh_reply k v /\ t <= cmd_time k + s_delay s /\
                k_current k = Some c /\ ver_cmp v c = Gt /\ v_pre v = None /\ v_dev v = None /\
                c_end (k_cmd k) = Returns.

Definition out_ok (k : config) (s : state) : Prop :=
  s_out s = out_cmd k \/ (s_out s = out_cmd k ++ [ONotice] /\ justified k s).

Definition main_inv (k : config) (s : state) : Prop :=
  match s_main s with
  | MRun r => s_out s ++ map OChunk (emits r) = out_cmd k /\ s_now s + works r = cmd_time k /\ s_delay s = 0
  | MJoin | MNeeds => s_out s = out_cmd k /\ s_now s = cmd_time k + s_delay s /\ c_end (k_cmd k) = Returns
  | MNotice => s_out s = out_cmd k /\ s_now s = cmd_time k + s_delay s /\ c_end (k_cmd k) = Returns /\ justified k s
  | MReturn => out_ok k s /\ s_now s = cmd_time k + s_delay s /\ c_end (k_cmd k) = Returns
  | MExit c => s_now s = cmd_time k + s_delay s /\
               ((c = 0 /\ c_end (k_cmd k) = Returns /\ out_ok k s) \/
                (c_end (k_cmd k) = Raises c /\ s_out s = out_cmd k /\ s_delay s = 0) \/
                (c = 1 /\ k_current k = None /\ c_end (k_cmd k) = Returns /\ s_out s = out_cmd k))
  end.

Definition latest_ok (k : config) (s : state) : Prop :=
  s_latest s = PNone \/ exists v, s_latest s = PVer v /\ fresh_reply k v /\ got k s.

Definition chk_inv (k : config) (s : state) : Prop :=
  match s_chk s with
  | CGet => s_latest s = PNone
  | CStatus ok b => s_reply (k_server k) = RResponse ok b /\ got k s /\ s_latest s = PNone
  | CJson b => s_reply (k_server k) = RResponse true b /\ got k s /\ s_latest s = PNone
  | CTag j => s_reply (k_server k) = RResponse true (Some j) /\ got k s /\ s_latest s = PNone
  | CParse t => s_reply (k_server k) = RResponse true (Some (JDict t)) /\ got k s /\ s_latest s = PNone
  | CAssign v => fresh_reply k v /\ got k s /\ s_latest s = PNone
  | CHandler => s_latest s = PNone
  | CFinish | CDone => latest_ok k s
  end.

Definition inv (k : config) (s : state) : Prop :=
  main_inv k s /\ chk_inv k s /\ s_delay s <= k_timeout k /\
  (In EMainTraceback (s_err s) -> k_current k = None /\ s_main s = MExit 1).

Lemma inv_init : forall k, inv k (init k).
Proof.
  intros k; unfold inv, main_inv, chk_inv, init; simpl.
  repeat split; auto; try lia; try contradiction.
Qed.

Lemma got_mono : forall k s s', got k s -> s_now s <= s_now s' -> got k s'.
Proof. intros k s s' [t [H1 H2]] H; exists t; split; auto; lia. Qed.

Lemma latest_ok_mono : forall k s s', latest_ok k s -> s_latest s' = s_latest s -> s_now s <= s_now s' -> latest_ok k s'.
Proof.
  intros k s s' [H | [v [H1 [H2 H3]]]] E L; [left; congruence |].
  right; exists v; repeat split; try congruence; auto. eapply got_mono; eauto.
Qed.

(* the checker's invariant survives anything that keeps its pc and latest_version and does not turn the clock back *)
Lemma chk_inv_mono : forall k s s', chk_inv k s -> s_chk s' = s_chk s -> s_latest s' = s_latest s ->
  s_now s <= s_now s' -> chk_inv k s'.
Proof.
  intros k s s' H Ec El L; unfold chk_inv in *; rewrite Ec.
  destruct (s_chk s); try (rewrite El; exact H);
    try (destruct H as [H1 [H2 H3]]; repeat split; auto; [eapply got_mono; eauto | congruence]);
    eapply latest_ok_mono; eauto.
Qed.

Lemma main_inv_chk_step : forall k s s', main_inv k s -> step_chk k s = Some s' -> main_inv k s'.
Proof.
  intros k s s' H St; destruct (step_chk_frame _ _ _ St) as [Em [Eo [En Ed]]].
  unfold main_inv, out_ok, justified in *; rewrite Em, Eo, En, Ed; exact H.
Qed.

Lemma chk_inv_chk_step : forall k s s', chk_inv k s -> step_chk k s = Some s' -> chk_inv k s'.
Proof.
  intros k s s' H St; unfold step_chk in St; unfold chk_inv in H.
  destruct (s_chk s) eqn:Ec.
  - (* CGet *)
    destruct (s_after (k_server k)) as [t |] eqn:Ea; try discriminate.
    destruct (t <=? s_now s) eqn:Et; try discriminate.
    apply N.leb_le in Et.
    assert (G : forall c, got k (set_chk s c)) by (intros; exists t; simpl; auto).
    destruct (s_reply (k_server k)) eqn:Er; inversion St; subst; unfold chk_inv; simpl; auto.
  - destruct H as [H1 [[t [H2 H2']] H3]].
    destruct ok; inversion St; subst; unfold chk_inv; simpl; auto.
    repeat split; auto. exists t; auto.
  - destruct H as [H1 [[t [H2 H2']] H3]].
    destruct b; inversion St; subst; unfold chk_inv; simpl; auto.
    repeat split; auto. exists t; auto.
  - destruct H as [H1 [[t [H2 H2']] H3]].
    destruct j; inversion St; subst; unfold chk_inv; simpl; auto.
    repeat split; auto. exists t; auto.
  - destruct H as [H1 [[tm [H2 H2']] H3]].
    destruct t as [| | | [v |]]; inversion St; subst; unfold chk_inv; simpl; auto.
    repeat split; auto. exists tm; auto.
  - destruct H as [H1 [[t [H2 H2']] H3]].
    inversion St; subst; unfold chk_inv, latest_ok; simpl.
    right; exists v; repeat split; auto. exists t; auto.
  - inversion St; subst; unfold chk_inv, latest_ok; simpl; auto.
  - inversion St; subst; unfold chk_inv, latest_ok in *; simpl.
    destruct H as [H | [v [H1 [H2 [t [H3 H4]]]]]]; auto.
    right; exists v; repeat split; auto. exists t; auto.
  - discriminate.
Qed.

(* latest_version is None or a Version in every state that satisfies the checker's invariant *)
Lemma chk_inv_latest : forall k s, chk_inv k s -> latest_ok k s.
Proof.
  intros k s H; unfold chk_inv in H; unfold latest_ok.
  destruct (s_chk s); try (left; tauto); exact H.
Qed.

Lemma needs_update_true : forall k s, chk_inv k s -> needs_update (s_latest s) (k_current k) = Some true ->
  exists v t c, s_after (k_server k) = Some t /\ fresh_reply k v /\ t <= s_now s /\ k_current k = Some c /\
                ver_cmp v c = Gt /\ v_pre v = None /\ v_dev v = None.
Proof.
  intros k s H N; destruct (chk_inv_latest _ _ H) as [E | [v [E [F [t [G1 G2]]]]]]; rewrite E in N; simpl in N.
  - discriminate.
  - destruct (k_current k) as [c |] eqn:Ecur; try discriminate.
    inversion N as [N']. apply andb_prop in N' as [N1 N3]. apply andb_prop in N1 as [N1 N2].
    exists v, t, c; repeat split; auto.
    + unfold ver_gtb in N1; destruct (ver_cmp v c); auto; discriminate.
    + unfold is_prerelease, is_some in N3. destruct (v_pre v); auto.
      rewrite orb_true_r in N3; discriminate.
    + unfold is_devrelease, is_some in N2. destruct (v_dev v); auto; discriminate.
Qed.

Lemma needs_update_none : forall k s, chk_inv k s -> needs_update (s_latest s) (k_current k) = None -> k_current k = None.
Proof.
  intros k s H N; destruct (chk_inv_latest _ _ H) as [E | [v [E _]]]; rewrite E in N; simpl in N.
  - discriminate.
  - destruct (k_current k); auto; discriminate.
Qed.

Lemma app_chunk_assoc : forall (o : list oev) x r, (o ++ [OChunk x]) ++ map OChunk r = o ++ map OChunk (x :: r).
Proof. intros; rewrite <- app_assoc; reflexivity. Qed.

Lemma justified_delay : forall k s s', justified k s -> s_delay s' = s_delay s -> justified k s'.
Proof. intros k s s' H E; unfold justified in *; rewrite E; exact H. Qed.

(* the checker thread writes nothing to stderr *)
Lemma step_chk_err : forall k s s', step_chk k s = Some s' -> s_err s' = s_err s.
Proof.
  intros k s s' St; unfold step_chk in St.
  repeat match type of St with
         | context [match ?x with _ => _ end] => destruct x; try discriminate
         end; inversion St; subst; simpl; auto.
Qed.

Lemma inv_intro : forall k s, main_inv k s -> chk_inv k s -> s_delay s <= k_timeout k ->
  (In EMainTraceback (s_err s) -> k_current k = None /\ s_main s = MExit 1) -> inv k s.
Proof. unfold inv; tauto. Qed.

Lemma inv_chk_step : forall k s s', inv k s -> step_chk k s = Some s' -> inv k s'.
Proof.
  intros k s s' [Hm [Hc [Hd He]]] St.
  destruct (step_chk_frame _ _ _ St) as [Em [Eo [En Ed]]].
  apply inv_intro.
  - eapply main_inv_chk_step; eauto.
  - eapply chk_inv_chk_step; eauto.
  - rewrite Ed; exact Hd.
  - rewrite (step_chk_err _ _ _ St), Em; exact He.
Qed.

Lemma inv_main_step : forall k s s', inv k s -> step_main k s = Some s' -> inv k s'.
Proof.
  intros k s s' [Hm [Hc [Hd He]]] St.
  assert (Hne : forall c, s_main s = MExit c -> False).
  { intros c E; unfold step_main in St; rewrite E in St; discriminate. }
  assert (He0 : ~ In EMainTraceback (s_err s)).
  { intros H; destruct (He H) as [_ E]; eapply Hne; eauto. }
  unfold step_main in St; unfold main_inv in Hm.
  destruct (s_main s) as [r | | | | | c] eqn:Em.
  - destruct r as [| [x | m] r].
    + destruct Hm as [H1 [H2 H3]]. simpl in H1, H2. rewrite app_nil_r in H1. rewrite N.add_0_r in H2.
      destruct (c_end (k_cmd k)) eqn:Ee; inversion St; subst; clear St;
        (apply inv_intro; [unfold main_inv; simpl | eapply chk_inv_mono; eauto; simpl; lia | simpl; auto | simpl; tauto]).
      * repeat split; auto; lia.
      * split; [lia |]. right; left; auto.
    + destruct Hm as [H1 [H2 H3]]. inversion St; subst; clear St.
      apply inv_intro; [unfold main_inv; simpl | eapply chk_inv_mono; eauto; simpl; lia | simpl; auto | simpl; tauto].
      repeat split; auto. rewrite app_chunk_assoc. exact H1.
    + destruct Hm as [H1 [H2 H3]]. inversion St; subst; clear St.
      apply inv_intro; [unfold main_inv; simpl | eapply chk_inv_mono; eauto; simpl; lia | simpl; auto | simpl; tauto].
      repeat split; auto. simpl in H2. lia.
  - destruct (chk_terminated (s_chk s) || (k_timeout k <=? s_delay s)); inversion St; subst; clear St.
    apply inv_intro; [unfold main_inv; simpl; tauto | eapply chk_inv_mono; eauto; simpl; lia | simpl; auto | simpl; tauto].
  - destruct Hm as [H1 [H2 H3]].
    destruct (needs_update (s_latest s) (k_current k)) as [[|] |] eqn:En; inversion St; subst; clear St.
    + destruct (needs_update_true _ _ Hc En) as [v [t [c [A1 [A2 [A3 [A4 [A5 [A6 A7]]]]]]]]].
      apply inv_intro; [unfold main_inv; simpl | eapply chk_inv_mono; eauto; simpl; lia | simpl; auto | simpl; tauto].
      repeat split; auto.
      exists v, t, c; simpl; repeat split; auto. lia.
    + apply inv_intro; [unfold main_inv; simpl | eapply chk_inv_mono; eauto; simpl; lia | simpl; auto | simpl; tauto].
      repeat split; auto. left; auto.
    + pose proof (needs_update_none _ _ Hc En) as Hcur.
      apply inv_intro; [unfold main_inv; simpl | eapply chk_inv_mono; eauto; simpl; lia | simpl; auto | simpl; auto].
      split; auto. right; right; auto.
  - destruct Hm as [H1 [H2 [H3 H4]]]. inversion St; subst; clear St.
    apply inv_intro; [unfold main_inv; simpl | eapply chk_inv_mono; eauto; simpl; lia | simpl; auto | simpl; tauto].
    repeat split; auto. right; split; [simpl; congruence |]. eapply justified_delay; eauto.
  - destruct Hm as [H1 [H2 H3]]. inversion St; subst; clear St.
    apply inv_intro; [unfold main_inv; simpl | eapply chk_inv_mono; eauto; simpl; lia | simpl; auto | simpl; tauto].
    split; auto.
  - discriminate.
Qed.

Lemma inv_tick_step : forall k s dt s', inv k s -> step_tick k s dt = Some s' -> inv k s'.
Proof.
  intros k s dt s' [Hm [Hc [Hd He]]] St.
  unfold step_tick in St; unfold main_inv in Hm.
  destruct (s_main s) eqn:Em; try discriminate.
  destruct (negb (chk_terminated (s_chk s)) && (s_delay s <? k_timeout k) && (0 <? dt)) eqn:G; try discriminate.
  apply andb_prop in G as [G G3]. apply andb_prop in G as [G1 G2].
  apply N.ltb_lt in G2, G3.
  destruct Hm as [H1 [H2 H3]]. inversion St; subst; clear St.
  apply inv_intro; [unfold main_inv; simpl | eapply chk_inv_mono; eauto; simpl; lia | simpl; lia | simpl; intros H ].
  - repeat split; auto. lia.
  - apply He in H. destruct H as [_ H]; discriminate.
Qed.

Lemma inv_step : forall k s a s', inv k s -> step k s a = Some s' -> inv k s'.
Proof.
  intros k s a s' H St; unfold step in St.
  destruct (process_over k s); try discriminate.
  destruct a; eauto using inv_chk_step, inv_main_step, inv_tick_step.
Qed.

Lemma reach_inv : forall k s, reach k s -> inv k s.
Proof. induction 1; eauto using inv_init, inv_step. Qed.

Lemma reach_run : forall k l s, reach k s -> reach k (run k s l).
Proof.
  intros k l; induction l as [| a l IH]; simpl; intros s H; auto.
  apply IH. unfold do_action. destruct (step k s a) eqn:E; auto. eapply reach_step; eauto.
Qed.

Lemma reach_trace : forall k l s s', reach k s -> trace k s l = Some s' -> reach k s'.
Proof.
  intros k l; induction l as [| a l IH]; simpl; intros s s' H T.
  - inversion T; subst; auto.
  - destruct (step k s a) as [s0 |] eqn:E; try discriminate. apply (IH s0); auto. eapply reach_step; eauto.
Qed.

(* every reachable state is the end of a strict trace, hence of a schedule *)
Lemma trace_app : forall k l1 l2 s s1, trace k s l1 = Some s1 -> trace k s (l1 ++ l2) = trace k s1 l2.
Proof.
  intros k l1; induction l1 as [| a l IH]; simpl; intros l2 s s1 H.
  - inversion H; auto.
  - destruct (step k s a); try discriminate; auto.
Qed.
Lemma reach_is_trace : forall k s, reach k s -> exists l, trace k (init k) l = Some s.
Proof.
  induction 1 as [| s a s' _ [l IH] St].
  - exists []; reflexivity.
  - exists (l ++ [a]). rewrite (trace_app _ _ _ _ _ IH); simpl; rewrite St; reflexivity.
Qed.
Lemma trace_run : forall k l s s', trace k s l = Some s' -> run k s l = s'.
Proof.
  intros k l; induction l as [| a l IH]; simpl; intros s s' H.
  - inversion H; auto.
  - change (run k (do_action k s a) l = s'). unfold do_action. destruct (step k s a); try discriminate; auto.
Qed.

(* ----------------------------------------------------------------------------- progress and termination *)

Lemma step_main_run : forall k s r, s_main s = MRun r -> exists s', step_main k s = Some s'.
Proof.
  intros k s r E; unfold step_main; rewrite E.
  destruct r as [| [x | m] r]; [destruct (c_end (k_cmd k)) |  | ]; eauto.
Qed.

(* with a daemon checker and a finite join timeout some thread (or the clock) can always move until the process is gone *)
Lemma no_deadlock : forall k s, k_daemon k = true -> process_over k s = false -> exists a s', step k s a = Some s'.
Proof.
  intros k s D P; unfold step; rewrite P.
  destruct (s_main s) as [r | | | | | c] eqn:Em.
  - exists AMain. eapply step_main_run; eauto.
  - destruct (chk_terminated (s_chk s) || (k_timeout k <=? s_delay s)) eqn:G.
    + exists AMain; unfold step_main; rewrite Em, G; eauto.
    + apply orb_false_elim in G as [G1 G2]. apply N.leb_gt in G2.
      exists (ATick 1); unfold step_tick; rewrite Em, G1.
      apply N.ltb_lt in G2; rewrite G2; simpl; eauto.
  - exists AMain; unfold step_main; rewrite Em.
    destruct (needs_update (s_latest s) (k_current k)) as [[|] |]; eauto.
  - exists AMain; unfold step_main; rewrite Em; eauto.
  - exists AMain; unfold step_main; rewrite Em; eauto.
  - unfold process_over in P; rewrite Em, D in P; discriminate.
Qed.

Lemma over_stuck : forall k s, process_over k s = true -> stuck k s.
Proof. intros k s P a; unfold step; rewrite P; reflexivity. Qed.

Lemma stuck_over : forall k s, k_daemon k = true -> stuck k s -> process_over k s = true.
Proof.
  intros k s D St; destruct (process_over k s) eqn:P; auto.
  destruct (no_deadlock _ _ D P) as [a [s' H]]; rewrite St in H; discriminate.
Qed.

Definition main_m (m : mpc) : N :=
  match m with MRun r => 6 + N.of_nat (length r) | MJoin => 5 | MNeeds => 4 | MNotice => 3 | MReturn => 2 | MExit _ => 0 end.
Definition chk_m (c : cpc) : N :=
  match c with
  | CGet => 7 | CStatus _ _ => 6 | CJson _ => 5 | CTag _ => 4 | CParse _ => 3 | CAssign _ => 2 | CHandler => 2
  | CFinish => 1 | CDone => 0
  end.
Definition measure (k : config) (s : state) : N := main_m (s_main s) + chk_m (s_chk s) + (k_timeout k - s_delay s).

Lemma step_decreases : forall k s a s', step k s a = Some s' -> measure k s' < measure k s.
Proof.
  intros k s a s' St; unfold step in St.
  destruct (process_over k s); try discriminate.
  destruct a as [| | dt].
  - destruct (step_chk_frame _ _ _ St) as [Em [_ [_ Ed]]].
    unfold measure; rewrite Em, Ed.
    assert (chk_m (s_chk s') < chk_m (s_chk s)); [| lia].
    unfold step_chk in St.
    repeat match type of St with
           | context [match ?x with _ => _ end] => destruct x eqn:?; try discriminate
           end; inversion St; subst; cbn [s_chk set_chk chk_m]; lia.
  - assert (H : main_m (s_main s') < main_m (s_main s) /\ s_chk s' = s_chk s /\ s_delay s' = s_delay s).
    { unfold step_main in St. destruct (s_main s) as [r | | | | | c] eqn:Em.
      - destruct r as [| [x | m] r]; [destruct (c_end (k_cmd k)) | |]; inversion St; subst;
          cbn [s_main s_chk s_delay set_main main_m length]; repeat split; lia.
      - destruct (chk_terminated (s_chk s) || (k_timeout k <=? s_delay s)); inversion St; subst;
          cbn [s_main s_chk s_delay set_main main_m]; repeat split; lia.
      - destruct (needs_update (s_latest s) (k_current k)) as [[|] |]; inversion St; subst;
          cbn [s_main s_chk s_delay set_main main_m]; repeat split; lia.
      - inversion St; subst; cbn [s_main s_chk s_delay set_main main_m]; repeat split; lia.
      - inversion St; subst; cbn [s_main s_chk s_delay set_main main_m]; repeat split; lia.
      - discriminate. }
    destruct H as [H1 [H2 H3]]. unfold measure; rewrite H2, H3. lia.
  - unfold step_tick in St.
    destruct (s_main s) eqn:Em; try discriminate.
    destruct (negb (chk_terminated (s_chk s)) && (s_delay s <? k_timeout k) && (0 <? dt)) eqn:G; try discriminate.
    apply andb_prop in G as [G G3]. apply andb_prop in G as [G1 G2]. apply N.ltb_lt in G2, G3.
    inversion St; subst. unfold measure; cbn [s_main s_chk s_delay]. rewrite Em. lia.
Qed.

(* no run is longer than the measure of its first state: there are no infinite runs *)
Lemma trace_bounded : forall k l s s', trace k s l = Some s' -> N.of_nat (length l) + measure k s' <= measure k s.
Proof.
  intros k l; induction l as [| a l IH]; simpl length; intros s s' T.
  - inversion T; subst; simpl; lia.
  - simpl in T. destruct (step k s a) as [s0 |] eqn:E; try discriminate.
    apply IH in T. apply step_decreases in E. lia.
Qed.

Lemma complete_run_exists_aux : forall k, k_daemon k = true -> forall n s, measure k s < N.of_nat n ->
  exists l s', trace k s l = Some s' /\ process_over k s' = true.
Proof.
  intros k D; induction n as [| n IH]; intros s M; [lia |].
  destruct (process_over k s) eqn:P.
  - exists [], s; auto.
  - destruct (no_deadlock _ _ D P) as [a [s1 St]].
    pose proof (step_decreases _ _ _ _ St) as Dm.
    destruct (IH s1) as [l [s' [T O]]]; [lia |].
    exists (a :: l), s'; simpl; rewrite St; auto.
Qed.

Lemma complete_run_exists : forall k s, k_daemon k = true -> exists l s', trace k s l = Some s' /\ process_over k s' = true.
Proof.
  intros k s D. apply (complete_run_exists_aux k D (S (N.to_nat (measure k s)))). lia.
Qed.

(* ------------------------------------------------------------------------------- the eager scheduler *)

Lemma eager_trace : forall k f s, trace k s (fst (eager k f s)) = Some (snd (eager k f s)).
Proof.
  intros k f; induction f as [| f IH]; intros s; simpl; auto.
  destruct (step k s (eager_action k s)) as [s' |] eqn:E; simpl; auto.
  specialize (IH s'). destruct (eager k f s') as [l z]; simpl in *. rewrite E; exact IH.
Qed.

Lemma eager_reach : forall k f s, reach k s -> reach k (snd (eager k f s)).
Proof. intros; eapply reach_trace; eauto using eager_trace. Qed.

Definition observe (s : state) (c : N) : observation :=
  mkObs c (chunks_of (s_out s)) (has_notice (s_out s)) (s_delay s) (s_err s).

Lemma predict_is_run : forall k o, predict k = Some o ->
  exists l s c, trace k (init k) l = Some s /\ s_main s = MExit c /\ process_over k s = true /\ o = observe s c.
Proof.
  intros k o H; unfold predict in H.
  pose proof (eager_trace k (eager_fuel k) (init k)) as T.
  destruct (s_main (snd (eager k (eager_fuel k) (init k)))) eqn:Em; try discriminate.
  destruct (process_over k (snd (eager k (eager_fuel k) (init k)))) eqn:P; try discriminate.
  inversion H; subst. eexists _, _, _; repeat split; eauto.
Qed.

(* ------------------------------------------------------------------------- what the invariant says *)

Lemma chunks_of_out_cmd : forall l, chunks_of (map OChunk l) = l.
Proof. induction l; simpl; congruence. Qed.
Lemma has_notice_out_cmd : forall l, has_notice (map OChunk l) = false.
Proof. induction l; simpl; auto. Qed.
Lemma chunks_of_app : forall a b, chunks_of (a ++ b) = chunks_of a ++ chunks_of b.
Proof. intros; unfold chunks_of; apply flat_map_app. Qed.
Lemma has_notice_app : forall a b, has_notice (a ++ b) = has_notice a || has_notice b.
Proof. intros; unfold has_notice; apply existsb_app. Qed.

Lemma exit_facts : forall k s c, reach k s -> s_main s = MExit c -> k_current k <> None ->
  c = cmd_exit k /\ out_ok k s /\ s_now s = cmd_time k + s_delay s /\ s_delay s <= k_timeout k /\
  (c_end (k_cmd k) <> Returns -> s_delay s = 0 /\ s_out s = out_cmd k).
Proof.
  intros k s c R Em Hcur. destruct (reach_inv _ _ R) as [Hm [_ [Hd _]]].
  unfold main_inv in Hm; rewrite Em in Hm. destruct Hm as [Hn [[A [B C]] | [[A [B C]] | [A [B _]]]]].
  - subst; unfold cmd_exit; rewrite B; repeat split; auto; congruence.
  - unfold cmd_exit; rewrite A; repeat split; auto. left; auto.
  - contradiction.
Qed.

Lemma server_eta : forall srv a r, s_after srv = a -> s_reply srv = r -> srv = mkServer a r.
Proof. intros [a' r'] a r; simpl; congruence. Qed.

Lemma not_in_notice_chunks : forall l, ~ In ONotice (map OChunk l).
Proof. induction l; simpl; [tauto | intros [H | H]; [discriminate | auto]]. Qed.

(* ---------------------------------------------------------------- statements over arbitrary schedules *)

Section Runs.
  Variable k : config.
  Variable sched : list action.
  Let s := run k (init k) sched.

  Lemma run_reach : reach k s.
  Proof. apply reach_run, reach_init. Qed.

  Lemma run_exit_code : forall c, k_current k <> None -> s_main s = MExit c -> c = cmd_exit k.
  Proof. intros c H E; exact (proj1 (exit_facts _ _ _ run_reach E H)). Qed.

  Lemma run_stdout :
    (exists r, s_main s = MRun r /\ s_out s ++ map OChunk (emits r) = out_cmd k) \/
    (forall r, s_main s <> MRun r) /\ (s_out s = out_cmd k \/ s_out s = out_cmd k ++ [ONotice]).
  Proof.
    destruct (reach_inv _ _ run_reach) as [Hm _]. unfold main_inv in Hm.
    destruct (s_main s) as [r | | | | | c] eqn:Em.
    - left; exists r; tauto.
    - right; split; [congruence | tauto].
    - right; split; [congruence | tauto].
    - right; split; [congruence | tauto].
    - right; split; [congruence |]. destruct Hm as [[H | [H _]] _]; auto.
    - right; split; [congruence |].
      destruct Hm as [_ [[_ [_ [H | [H _]]]] | [[_ [H _]] | [_ [_ [_ H]]]]]]; auto.
  Qed.

  Lemma run_notice_only_if : In ONotice (s_out s) ->
    exists v t c,
      k_server k = mkServer (Some t) (RResponse true (Some (JDict (TagText (Some v))))) /\
      t <= cmd_time k + s_delay s /\ s_delay s <= k_timeout k /\
      k_current k = Some c /\ ver_cmp c v = Lt /\ v_pre v = None /\ v_dev v = None /\ v <> c /\
      c_end (k_cmd k) = Returns.
  Proof.
    intros Hin. destruct (reach_inv _ _ run_reach) as [Hm [_ [Hd _]]]. unfold main_inv in Hm.
    assert (Hno : s_out s = out_cmd k -> False).
    { intros H; rewrite H in Hin. eapply not_in_notice_chunks; eauto. }
    assert (J : justified k s).
    { destruct (s_main s) as [r | | | | | c] eqn:Em.
      - exfalso. destruct Hm as [H _]. apply (not_in_notice_chunks (cmd_chunks k)).
        fold (out_cmd k). rewrite <- H. apply in_or_app; auto.
      - exfalso; tauto.
      - exfalso; tauto.
      - tauto.
      - destruct Hm as [[H | [_ H]] _]; auto. exfalso; auto.
      - destruct Hm as [_ [[_ [_ [H | [_ H]]]] | [[_ [H _]] | [_ [_ [_ H]]]]]]; auto; exfalso; auto. }
    destruct J as [v [t [c [A1 [A2 [A3 [A4 [A5 [A6 [A7 A8]]]]]]]]]].
    exists v, t, c. repeat split; auto.
    - apply server_eta; auto.
    - rewrite (ver_cmp_antisym v c), A5; reflexivity.
    - intros E; subst. rewrite ver_cmp_refl in A5; discriminate.
  Qed.

  Lemma run_delay : s_delay s <= k_timeout k /\ s_now s <= cmd_time k + k_timeout k /\
    (forall c, s_main s = MExit c -> s_now s = cmd_time k + s_delay s) /\
    (c_end (k_cmd k) <> Returns -> s_delay s = 0).
  Proof.
    destruct (reach_inv _ _ run_reach) as [Hm [_ [Hd _]]]. unfold main_inv in Hm.
    destruct (s_main s) as [r | | | | | c] eqn:Em; (split; [exact Hd |]); (split; [lia |]); split;
      try (intros c' E; discriminate E); tauto.
  Qed.

  Lemma run_no_deadlock : k_daemon k = true -> process_over k s = false -> exists a s', step k s a = Some s'.
  Proof. intros; apply no_deadlock; auto. Qed.

  (* nothing the checker does surfaces: it writes nothing to stderr, never leaves a raw string behind, and every failure
     ends in the handler with latest_version still None *)
  Lemma run_isolated :
    (k_current k <> None -> s_err s = []) /\ (forall b, s_latest s <> PStr b) /\ (s_chk s = CHandler -> s_latest s = PNone).
  Proof.
    destruct (reach_inv _ _ run_reach) as [_ [Hc [_ He]]].
    repeat split.
    - intros Hcur. destruct (s_err s) as [| [] l] eqn:E; auto.
      exfalso; apply Hcur, He; simpl; auto.
    - intros b E. destruct (chk_inv_latest _ _ Hc) as [H | [v [H _]]]; congruence.
    - intros E. unfold chk_inv in Hc; rewrite E in Hc; exact Hc.
  Qed.
End Runs.

Lemma step_checker_frame : forall k s s', step k s AChk = Some s' ->
  s_main s' = s_main s /\ s_out s' = s_out s /\ s_now s' = s_now s /\ s_delay s' = s_delay s /\ s_err s' = s_err s.
Proof.
  intros k s s' H; unfold step in H. destruct (process_over k s); try discriminate.
  destruct (step_chk_frame _ _ _ H) as [A [B [C D]]]. repeat split; auto. eapply step_chk_err; eauto.
Qed.

(* the checker thread cannot end in any other way than by returning from run() *)
Lemma checker_always_finishes : forall k s, s_chk s <> CDone -> s_chk s <> CGet -> exists s', step_chk k s = Some s'.
Proof.
  intros k s H1 H2; unfold step_chk.
  destruct (s_chk s) as [| ok b | [j |] | [| t] | [| | | [v |]] | v | | |]; try congruence; eauto.
Qed.

Lemma no_infinite_run : forall k l s, trace k (init k) l = Some s ->
  N.of_nat (length l) <= 13 + N.of_nat (length (c_steps (k_cmd k))) + k_timeout k.
Proof.
  intros k l s T. apply trace_bounded in T.
  assert (E : measure k (init k) = 13 + N.of_nat (length (c_steps (k_cmd k))) + k_timeout k).
  { unfold measure, init; cbn [s_main s_chk s_delay main_m chk_m]. lia. }
  lia.
Qed.

Lemma maximal_run_ends_in_exit : forall k l s, k_daemon k = true -> trace k (init k) l = Some s -> stuck k s ->
  exists c, s_main s = MExit c /\
    (k_current k <> None ->
       c = cmd_exit k /\ (s_out s = out_cmd k \/ s_out s = out_cmd k ++ [ONotice]) /\ s_delay s <= k_timeout k).
Proof.
  intros k l s D T St. pose proof (stuck_over _ _ D St) as P.
  unfold process_over in P. destruct (s_main s) as [| | | | | c] eqn:Em; try discriminate.
  exists c; split; auto. intros Hcur.
  assert (R : reach k s) by (eapply reach_trace; eauto using reach_init).
  destruct (exit_facts _ _ _ R Em Hcur) as [A [B [_ [C _]]]].
  repeat split; auto. destruct B as [B | [B _]]; auto.
Qed.

(* any two complete runs of the same command -- whatever the two servers do, whatever the schedules -- end with the same
   exit status and the same command output *)
Lemma same_as_reference : forall k1 k2 l1 l2 c1 c2,
  k_cmd k1 = k_cmd k2 -> k_current k1 <> None -> k_current k2 <> None ->
  s_main (run k1 (init k1) l1) = MExit c1 -> s_main (run k2 (init k2) l2) = MExit c2 ->
  c1 = c2 /\ chunks_of (s_out (run k1 (init k1) l1)) = chunks_of (s_out (run k2 (init k2) l2)).
Proof.
  intros k1 k2 l1 l2 c1 c2 Ec H1 H2 E1 E2.
  destruct (exit_facts _ _ _ (run_reach k1 l1) E1 H1) as [A1 [B1 _]].
  destruct (exit_facts _ _ _ (run_reach k2 l2) E2 H2) as [A2 [B2 _]].
  assert (Ch : forall k s, out_ok k s -> chunks_of (s_out s) = cmd_chunks k).
  { intros k s [H | [H _]]; rewrite H; unfold out_cmd.
    - apply chunks_of_out_cmd.
    - rewrite chunks_of_app, chunks_of_out_cmd; simpl; apply app_nil_r. }
  split.
  - subst; unfold cmd_exit; rewrite Ec; reflexivity.
  - rewrite (Ch _ _ B1), (Ch _ _ B2). unfold cmd_chunks; rewrite Ec; reflexivity.
Qed.

Lemma predict_sound : forall k o, predict k = Some o -> k_current k <> None ->
  o_exit o = cmd_exit k /\ o_chunks o = cmd_chunks k /\ o_delay o <= k_timeout k /\ o_err o = [] /\
  (o_notice o = true ->
     exists v t c, k_server k = mkServer (Some t) (RResponse true (Some (JDict (TagText (Some v))))) /\
                   t <= cmd_time k + o_delay o /\ k_current k = Some c /\ ver_cmp c v = Lt /\
                   v_pre v = None /\ v_dev v = None /\ c_end (k_cmd k) = Returns).
Proof.
  intros k o H Hcur. destruct (predict_is_run _ _ H) as [l [s [c [T [Em [P E]]]]]].
  pose proof (trace_run _ _ _ _ T) as Er.
  assert (R : reach k s) by (eapply reach_trace; eauto using reach_init).
  destruct (exit_facts _ _ _ R Em Hcur) as [A [B [_ [C _]]]].
  subst o; unfold observe; simpl.
  repeat split; auto.
  - destruct B as [B | [B _]]; rewrite B; unfold out_cmd.
    + apply chunks_of_out_cmd.
    + rewrite chunks_of_app, chunks_of_out_cmd; simpl; apply app_nil_r.
  - rewrite <- Er. apply (run_isolated k l); auto.
  - intros Hn.
    assert (Hin : In ONotice (s_out s)).
    { unfold has_notice in Hn. apply existsb_exists in Hn as [x [Hx Hy]]. destruct x; try discriminate; auto. }
    rewrite <- Er in Hin. destruct (run_notice_only_if k l Hin) as [v [t [c' [A1 [A2 [A3 [A4 [A5 [A6 [A7 [A8 A9]]]]]]]]]]].
    rewrite Er in *. exists v, t, c'; repeat split; auto.
Qed.
