(* Facts about the base vocabulary: equality tests, the lexicographic order of Python str, the insertion sort
   standing for list.sort()/sorted(), order-preserving de-duplication, folds. *)
From Coq Require Import Lia Permutation Sorting.Sorted.
From MHL Require Import Model.Base.

Lemma list_eqb_spec {A} (eqb : A -> A -> bool) :
  (forall x y, reflect (x = y) (eqb x y)) -> forall a b, reflect (a = b) (list_eqb eqb a b).
Proof.
  intros H. induction a as [|x a IH]; intros [|y b]; cbn; try (constructor; congruence).
  destruct (H x y) as [->|Hn]; cbn; [|constructor; congruence].
  destruct (IH b) as [->|Hn]; constructor; congruence.
Qed.
Lemma text_eqb_spec a b : reflect (a = b) (text_eqb a b).
Proof. apply list_eqb_spec. intros x y. apply N.eqb_spec. Qed.
Lemma path_eqb_spec a b : reflect (a = b) (path_eqb a b).
Proof. apply list_eqb_spec. exact text_eqb_spec. Qed.
Lemma text_eqb_refl a : text_eqb a a = true.
Proof. destruct (text_eqb_spec a a); congruence. Qed.
Lemma path_eqb_refl a : path_eqb a a = true.
Proof. destruct (path_eqb_spec a a); congruence. Qed.
Lemma text_eqb_eq a b : text_eqb a b = true <-> a = b.
Proof. destruct (text_eqb_spec a b); split; congruence. Qed.
Lemma path_eqb_eq a b : path_eqb a b = true <-> a = b.
Proof. destruct (path_eqb_spec a b); split; congruence. Qed.

Lemma mem_text_In x l : mem_text x l = true <-> In x l.
Proof.
  unfold mem_text. rewrite existsb_exists. split.
  - intros [y [Hy He]]. apply text_eqb_eq in He. subst. exact Hy.
  - intros H. exists x. split; [exact H|apply text_eqb_refl].
Qed.
Lemma mem_path_In x l : mem_path x l = true <-> In x l.
Proof.
  unfold mem_path. rewrite existsb_exists. split.
  - intros [y [Hy He]]. apply path_eqb_eq in He. subst. exact Hy.
  - intros H. exists x. split; [exact H|apply path_eqb_refl].
Qed.

(* ---- the order ---- *)
Lemma lexb_total : forall a b, lexb a b = true \/ lexb b a = true.
Proof.
  induction a as [|x a IH]; intros [|y b]; cbn; auto.
  destruct (N.ltb_spec x y), (N.ltb_spec y x), (N.eqb_spec x y), (N.eqb_spec y x); subst; auto; try lia.
Qed.
Lemma lexb_antisym : forall a b, lexb a b = true -> lexb b a = true -> a = b.
Proof.
  induction a as [|x a IH]; intros [|y b]; cbn; auto; try discriminate.
  destruct (N.ltb_spec x y), (N.ltb_spec y x), (N.eqb_spec x y), (N.eqb_spec y x); try lia; try discriminate.
  intros; subst; f_equal; auto.
Qed.
Lemma lexb_trans : forall a b c, lexb a b = true -> lexb b c = true -> lexb a c = true.
Proof.
  induction a as [|x a IH]; intros [|y b] [|z c]; cbn; auto; try discriminate.
  destruct (N.ltb_spec x y), (N.ltb_spec y z), (N.ltb_spec x z), (N.eqb_spec x y), (N.eqb_spec y z), (N.eqb_spec x z);
    try lia; try discriminate; auto; intros; subst; eauto.
Qed.
Lemma lexb_refl a : lexb a a = true.
Proof. destruct (lexb_total a a); auto. Qed.

(* ---- the sort, for any total transitive test ---- *)
Section SortFacts.
  Context {A : Type} (leb : A -> A -> bool).
  Hypothesis leb_total : forall a b, leb a b = true \/ leb b a = true.
  Hypothesis leb_trans : forall a b c, leb a b = true -> leb b c = true -> leb a c = true.
  Definition le (a b : A) := leb a b = true.

  Lemma insert_perm x l : Permutation (x :: l) (insert leb x l).
  Proof. induction l as [|y l IH]; cbn; auto. destruct (leb x y); auto. rewrite perm_swap. auto. Qed.
  Lemma sort_perm l : Permutation l (sort leb l).
  Proof. induction l as [|x l IH]; cbn; auto. rewrite <- insert_perm. auto. Qed.
  Lemma sort_In x l : In x (sort leb l) <-> In x l.
  Proof. split; apply Permutation_in; [apply Permutation_sym|]; apply sort_perm. Qed.
  Lemma sort_length l : length (sort leb l) = length l.
  Proof. symmetry. apply Permutation_length, sort_perm. Qed.

  Lemma insert_sorted x l : Sorted le l -> Sorted le (insert leb x l).
  Proof.
    induction l as [|y l IH]; cbn; intros Hs; [repeat constructor|].
    destruct (leb x y) eqn:E.
    - constructor; auto.
    - inversion Hs as [|? ? Hs' Hhd]; subst. constructor; auto.
      assert (le y x) by (destruct (leb_total x y); [congruence|auto]).
      destruct l as [|z l]; cbn in *; [constructor; auto|].
      destruct (leb x z); constructor; auto. inversion Hhd; auto.
  Qed.
  Lemma sort_sorted l : Sorted le (sort leb l).
  Proof. induction l; cbn; [constructor|apply insert_sorted; auto]. Qed.

  (* for an antisymmetric test the sorted list is unique: sorting forgets the input order *)
  Hypothesis leb_antisym : forall a b, leb a b = true -> leb b a = true -> a = b.
  Lemma sorted_perm_eq : forall l l', Sorted le l -> Sorted le l' -> Permutation l l' -> l = l'.
  Proof.
    induction l as [|x l IH]; intros l' Hs Hs' Hp.
    - apply Permutation_nil in Hp; auto.
    - destruct l' as [|y l']; [apply Permutation_sym, Permutation_nil in Hp; discriminate|].
      apply Sorted_StronglySorted in Hs; [|intros a b c; apply leb_trans].
      apply Sorted_StronglySorted in Hs'; [|intros a b c; apply leb_trans].
      inversion Hs as [|? ? Hsl Hfx]; inversion Hs' as [|? ? Hsl' Hfy]; subst.
      assert (x = y).
      { assert (Hx : In x (y :: l')) by (eapply Permutation_in; [exact Hp|left; auto]).
        assert (Hy : In y (x :: l)) by (eapply Permutation_in; [apply Permutation_sym; exact Hp|left; auto]).
        cbn in Hx, Hy. destruct Hx as [->|Hx]; auto. destruct Hy as [->|Hy]; auto.
        rewrite Forall_forall in Hfx, Hfy. apply leb_antisym; [apply Hfx|apply Hfy]; auto. }
      subst y. f_equal. apply IH; try apply StronglySorted_Sorted; auto.
      eapply Permutation_cons_inv; eauto.
  Qed.
  Theorem sort_canonical l l' : Permutation l l' -> sort leb l = sort leb l'.
  Proof.
    intros Hp. apply sorted_perm_eq; try apply sort_sorted.
    rewrite <- sort_perm, <- sort_perm. exact Hp.
  Qed.
End SortFacts.

Theorem sort_text_canonical l l' : Permutation l l' -> sort_text l = sort_text l'.
Proof. apply sort_canonical; [exact lexb_total|exact lexb_trans|exact lexb_antisym]. Qed.
Lemma sort_text_perm l : Permutation l (sort_text l).
Proof. apply sort_perm. Qed.

(* ---- folds ---- *)
Lemma fold_left_inv {A B} (f : A -> B -> A) (P : A -> Prop) l :
  (forall a b, In b l -> P a -> P (f a b)) -> forall a, P a -> P (fold_left f l a).
Proof.
  induction l as [|b l IH]; cbn [fold_left]; intros Hf a Ha; [exact Ha|].
  apply IH; [intros a0 b0 Hin; apply Hf; right; exact Hin|apply Hf; [left; reflexivity|exact Ha]].
Qed.

(* ---- de-duplication ---- *)
Section Dedup.
  Context {A : Type} (eqb : A -> A -> bool).
  Hypothesis eqb_spec : forall x y, reflect (x = y) (eqb x y).
  Lemma existsb_eqb_In x l : existsb (eqb x) l = true <-> In x l.
  Proof.
    rewrite existsb_exists. split.
    - intros [y [Hy He]]. destruct (eqb_spec x y); [subst; auto|discriminate].
    - intros H. exists x. split; auto. destruct (eqb_spec x x); congruence.
  Qed.
  Lemma dedup_by_In : forall l seen x, In x (dedup_by eqb seen l) <-> In x l /\ ~ In x seen.
  Proof.
    induction l as [|y l IH]; cbn; intros seen x; [tauto|].
    destruct (existsb (eqb y) seen) eqn:E.
    - apply existsb_eqb_In in E. rewrite IH. split; [tauto|]. intros [[->|H] Hn]; tauto.
    - assert (~ In y seen) by (rewrite <- existsb_eqb_In; congruence).
      cbn. rewrite IH. cbn. split.
      + intros [->|[H1 H2]]; [tauto|]. split; [tauto|]. intros Hs. apply H2. auto.
      + intros [[->|H1] H2]; [tauto|]. destruct (eqb_spec y x); [tauto|]. right. split; auto. intros [?|?]; auto.
  Qed.
  Lemma dedup_by_NoDup : forall l seen, NoDup (dedup_by eqb seen l).
  Proof.
    induction l as [|y l IH]; cbn; intros seen; [constructor|].
    destruct (existsb (eqb y) seen); auto. constructor; auto.
    rewrite dedup_by_In. cbn. tauto.
  Qed.
End Dedup.
