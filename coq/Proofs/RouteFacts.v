(* history.find_history_for_path as `route`, relative paths, and the record list of a new generation. *)
From Coq Require Import Lia.
From MHL Require Import Model.Create Proofs.BaseFacts Proofs.SealFacts.

Lemma is_prefix_app a b : is_prefix a (a ++ b) = true.
Proof. induction a as [|x a IH]; cbn; [reflexivity|]. rewrite text_eqb_refl. exact IH. Qed.
Lemma is_prefix_spec a b : is_prefix a b = true <-> exists s, b = a ++ s.
Proof.
  split.
  - revert b. induction a as [|x a IH]; intros b H; [exists b; reflexivity|].
    destruct b as [|y b]; [discriminate|]. cbn in H. apply andb_true_iff in H. destruct H as [H1 H2].
    apply text_eqb_eq in H1. subst y. destruct (IH b H2) as [s ->]. exists s. reflexivity.
  - intros [s ->]. apply is_prefix_app.
Qed.
Lemma strip_prefix_app a s : strip_prefix a (a ++ s) = s.
Proof. induction a as [|x a IH]; cbn; [destruct s; reflexivity|exact IH]. Qed.
(* the recorded path, put back under its history root, is the entry's path: relative, below the root *)
Theorem strip_prefix_rejoin a b : is_prefix a b = true -> a ++ strip_prefix a b = b.
Proof. intros H. apply is_prefix_spec in H. destruct H as [s ->]. rewrite strip_prefix_app. reflexivity. Qed.
(* in particular a relative path consists of components of the entry's own path: no "..", no absolute path *)
Theorem strip_prefix_components a b c : is_prefix a b = true -> In c (strip_prefix a b) -> In c b.
Proof. intros H Hc. rewrite <- (strip_prefix_rejoin a b H). apply in_or_app. right. exact Hc. Qed.

Section Route.
  Variable hs : list lhist.
  Variable root_h : lhist.
  Variable p : path.

  Definition good (h : lhist) : Prop := is_prefix (lh_root h) p = true.

  Lemma better_cases best cand : better p best cand = best \/ (better p best cand = cand /\ good cand /\ length (lh_root best) < length (lh_root cand)).
  Proof.
    unfold better. destruct (is_prefix (lh_root cand) p) eqn:E1; cbn [andb]; [|left; reflexivity].
    destruct (Nat.ltb_spec (length (lh_root best)) (length (lh_root cand))); [right|left; reflexivity].
    repeat split; auto.
  Qed.

  Lemma route_inv : forall l best,
    good best ->
    let r := fold_left (better p) l best in
    good r /\ (r = best \/ In r l) /\ length (lh_root best) <= length (lh_root r) /\
    (forall h, In h l -> good h -> length (lh_root h) <= length (lh_root r)).
  Proof.
    induction l as [|c l IH]; intros best Hb; cbn [fold_left].
    - repeat split; auto. intros h [].
    - destruct (better_cases best c) as [E|[E [Hg Hl]]]; rewrite E.
      + destruct (IH best Hb) as [H1 [H2 [H3 H4]]]. repeat split; auto.
        * destruct H2 as [H2|H2]; [left; exact H2|right; right; exact H2].
        * intros h Hin Hgh. destruct Hin as [Ec|Hh]; [subst h|apply H4; auto].
          unfold better in E. unfold good in Hgh. rewrite Hgh in E. cbn [andb] in E.
          destruct (Nat.ltb_spec (length (lh_root best)) (length (lh_root c))) as [Hlt|Hge]; [rewrite E in Hlt; lia|lia].
      + destruct (IH c Hg) as [H1 [H2 [H3 H4]]]. repeat split; auto.
        * destruct H2 as [H2|H2]; [right; left; symmetry; exact H2|right; right; exact H2].
        * lia.
        * intros h Hin Hgh. destruct Hin as [Ec|Hh]; [subst h; exact H3|apply H4; auto].
  Qed.

  (* the history a path is routed to contains it, is one of the loaded histories, and no loaded history that
     contains the path has a deeper root *)
  Theorem route_deepest : good root_h ->
    good (route hs root_h p) /\ (route hs root_h p = root_h \/ In (route hs root_h p) hs) /\
    (forall h, In h hs -> good h -> length (lh_root h) <= length (lh_root (route hs root_h p))).
  Proof. intros H. destruct (route_inv hs root_h H) as [H1 [H2 [_ H4]]]. unfold route. auto. Qed.
End Route.

(* two loaded histories that both contain the path and have roots of the same depth have the same root: the
   deepest history is unique as a location *)
Lemma prefix_same_length a b p : is_prefix a p = true -> is_prefix b p = true -> length a = length b -> a = b.
Proof.
  rewrite !is_prefix_spec. intros [s ->] [s' H] Hl. revert b s' H Hl.
  induction a as [|x a IH]; intros [|y b] s' H Hl; try discriminate; [reflexivity|].
  cbn in H. injection H as -> H. f_equal. eapply IH; eauto.
Qed.

(* ---- records of the new generation: one per path ---- *)
Lemma add_entries_paths : forall rs p d s es,
  map r_path (add_entries rs p d s es) = if mem_path p (map r_path rs) then map r_path rs else map r_path rs ++ [p].
Proof.
  induction rs as [|r rs IH]; intros p d s es; cbn [add_entries map mem_path existsb]; [reflexivity|].
  destruct (path_eqb_spec (r_path r) p) as [E|E].
  - subst p. unfold mem_path. cbn [existsb]. rewrite path_eqb_refl. reflexivity.
  - cbn [map]. rewrite IH. unfold mem_path. cbn [existsb].
    destruct (path_eqb_spec p (r_path r)); [congruence|]. cbn [orb].
    fold (mem_path p (map r_path rs)). destruct (mem_path p (map r_path rs)); reflexivity.
Qed.
Theorem add_entries_NoDup rs p d s es : NoDup (map r_path rs) -> NoDup (map r_path (add_entries rs p d s es)).
Proof.
  intros H. rewrite add_entries_paths. destruct (mem_path p (map r_path rs)) eqn:E; [exact H|].
  assert (~ In p (map r_path rs)) by (rewrite <- mem_path_In; congruence).
  clear E. induction (map r_path rs) as [|x l IH]; cbn; [repeat constructor; tauto|].
  inversion H; subst. constructor.
  - rewrite in_app_iff. cbn. intros [Hi|[<-|[]]]; [tauto|]. apply H0. left. reflexivity.
  - apply IH; auto. intros Hi. apply H0. right. exact Hi.
Qed.
Theorem add_entries_has rs p d s es : In p (map r_path (add_entries rs p d s es)).
Proof.
  rewrite add_entries_paths. destruct (mem_path p (map r_path rs)) eqn:E; [apply mem_path_In; exact E|].
  apply in_or_app. right. left. reflexivity.
Qed.

(* every digest seal_file puts into a record is the digest of the file's bytes in the entry's format *)
Section SealFile.
  Variable Hb : fmt -> bytes -> bytes.
  Variable hs : list lhist.
  Theorem seal_file_digests fmts p content e :
    let h := route_to hs p in
    In e (fst (seal (lh_gens h) (strip_prefix (lh_root h) p) (fun f => digest_text Hb f content) fmts)) ->
    e_digest e = digest_text Hb (e_fmt e) content.
  Proof. cbn zeta. intros H. apply seal_digest in H. exact H. Qed.
End SealFile.

(* ---- the session: what a run collects per history ---- *)
Lemma sess_get_set_same s h v : sess_get (sess_set s h v) h = Some v.
Proof.
  induction s as [|[k w] s IH]; cbn; [rewrite path_eqb_refl; reflexivity|].
  destruct (path_eqb_spec k h) as [->|Hn]; cbn; [rewrite path_eqb_refl; reflexivity|].
  destruct (path_eqb_spec k h); [congruence|exact IH].
Qed.
Lemma sess_get_set_other s h h' v : h <> h' -> sess_get (sess_set s h v) h' = sess_get s h'.
Proof.
  intros Hn. induction s as [|[k w] s IH]; cbn.
  - destruct (path_eqb_spec h h'); [congruence|reflexivity].
  - destruct (path_eqb_spec k h) as [->|Hk]; cbn.
    + destruct (path_eqb_spec h h'); [congruence|reflexivity].
    + destruct (path_eqb_spec k h'); [reflexivity|exact IH].
Qed.
Lemma add_entries_record : forall rs q d s es, exists r,
  In r (add_entries rs q d s es) /\ r_path r = q /\ (d = true -> r_dir r = true) /\ incl es (r_entries r).
Proof.
  induction rs as [|r0 rs IH]; intros q d s es; cbn [add_entries].
  - eexists. split; [left; reflexivity|]. cbn. repeat split; auto. apply incl_refl.
  - destruct (path_eqb_spec (r_path r0) q) as [E|E].
    + eexists. split; [left; reflexivity|]. cbn. repeat split; auto.
      * intros ->. apply orb_true_r.
      * apply incl_appr, incl_refl.
    + destruct (IH q d s es) as [r [H1 H2]]. exists r. split; [right; exact H1|exact H2].
Qed.

Section RecordDir.
  Variable hs : list lhist.
  (* the root folder of a nested history is also recorded one level up, in the parent history, as a directory
     entry carrying the very same hashes *)
  Theorem child_root_recorded_in_parent s p es par :
    let h := route_to hs p in
    strip_prefix (lh_root h) p = [] -> lh_parent h = Some par -> strip_prefix par p <> [] ->
    exists r, In r (nl_records (sess_list (record_dir hs s p es) par)) /\
              r_path r = strip_prefix par p /\ r_dir r = true /\ incl es (r_entries r).
  Proof.
    cbn zeta. intros Hrel Hpar Hne. unfold record_dir. rewrite Hrel, Hpar.
    unfold sess_add at 1. unfold sess_list at 1. rewrite sess_get_set_same.
    unfold nl_add. destruct (strip_prefix par p) as [|c q] eqn:E; [congruence|]. cbn [nl_records].
    destruct (add_entries_record (nl_records (sess_list (sess_add s (lh_root (route_to hs p)) [] true None es) par)) (c :: q) true None es)
      as [r [H1 [H2 [H3 H4]]]].
    exists r. repeat split; auto.
  Qed.
End RecordDir.
