(* C16 -- lemmas about Model/Time.v: the PEP 495 local-time resolution on zones with isolated transitions, decimal
   and fixed-width number texts, the utc-offset text, the size attribute.  (Calendar: Proofs/CalendarFacts.v) *)
From Coq Require Import Lia.
From MHL Require Import Model.Base Model.Time.
Open Scope Z_scope.

(* ---- zones ---- *)

Ltac step off Hw T :=
  match goal with
  | |- context [off ?x] => rewrite (Hw x) by lia; destruct (Z.ltb_spec x T)
  end.
Ltac tests :=
  repeat match goal with
       | |- context [Z.eqb ?a ?b] => destruct (Z.eqb_spec a b); try lia
       | |- context [Z.ltb ?a ?b] => destruct (Z.ltb_spec a b); try lia
       | |- context [Z.leb ?a ?b] => destruct (Z.leb_spec a b); try lia
       end.

Lemma off_at off t T o1 o2 : window off t T o1 o2 -> off t = if t <? T then o1 else o2.
Proof. intros (_ & _ & _ & Hw). apply Hw. unfold day. lia. Qed.

Lemma detect_fold_spec off t T o1 o2 : window off t T o1 o2 ->
  detect_fold off t = (T <=? t) && (t + o2 - o1 <? T).
Proof.
  intros (H1 & H2 & H12 & Hw). unfold detect_fold, local, max_fold_seconds, day in *.
  repeat (step off Hw T; try lia); tests; cbn; tests; try lia.
  all: repeat (step off Hw T; try lia); tests; cbn; tests; try lia.
Qed.

Lemma mktime_spec off t T o1 o2 fd : window off t T o1 o2 ->
  let w := local off t in
  let sA := w - o1 <? T in let sB := T <=? w - o2 in
  mktime off w fd = if sA && sB then (if fd then w - o2 else w - o1) else if sA then w - o1 else w - o2.
Proof.
  intros (H1 & H2 & H12 & Hw). unfold mktime, local, max_fold_seconds, day in *. cbn zeta.
  rewrite (Hw t) by lia.
  destruct fd; destruct (Z.ltb_spec t T).
  all: repeat (step off Hw T; try lia); tests; cbn; tests; try lia.
Qed.

Lemma resolve_fromtimestamp_at gr off t us :
  regular_at off t ->
  resolve gr off {| wall := local off t; usec := us; fold := detect_fold off t |} = t.
Proof.
  intros (T & o1 & o2 & W). unfold resolve. cbn [wall fold].
  rewrite !(mktime_spec off t T o1 o2) by exact W. rewrite (detect_fold_spec off t T o1 o2 W). cbn zeta.
  unfold local. rewrite (off_at off t T o1 o2 W).
  destruct W as (H1 & H2 & H12 & Hw). unfold day in *.
  destruct gr; destruct (Z.ltb_spec t T); tests; cbn in *; tests; cbn in *; try lia.
Qed.


(* ---- zones given by a transition table ---- *)
Lemma table_ok_weaken : forall tr base prev, table_ok base prev tr = true -> table_ok base None tr = true.
Proof.
  intros [|[t o] r] base prev H; cbn [table_ok] in *; [exact H|]. destruct prev as [p|]; [|exact H].
  destruct (p + 4 * day <? t); [exact H|]. cbn [andb] in H. rewrite andb_false_r in H. discriminate.
Qed.

Lemma off_table_before : forall r o t u, table_ok o (Some t) r = true -> u <= t + 4 * day -> off_table o r u = o.
Proof.
  intros [|[t' o'] r] o t u H Hu; [reflexivity|]. cbn [table_ok off_table] in *.
  apply andb_prop in H as [_ H]. apply andb_prop in H as [H _]. apply andb_prop in H as [H _]. apply Z.ltb_lt in H.
  destruct (Z.ltb_spec u t'); [reflexivity|lia].
Qed.

Theorem table_regular : forall tr base prev, table_ok base prev tr = true -> forall t, regular_at (off_table base tr) t.
Proof.
  induction tr as [|[t1 o1] r IH]; intros base prev H t.
  - cbn [table_ok] in H. rewrite andb_true_r in H. apply andb_prop in H as [Ha Hb]. apply Z.ltb_lt in Ha, Hb.
    exists 0, base, base. unfold window. repeat split; try lia. intros u _. cbn. destruct (u <? 0); reflexivity.
  - cbn [table_ok] in H. apply andb_prop in H as [Hb H]. apply andb_prop in Hb as [Hb1 Hb2].
    apply andb_prop in H as [H H0]. apply andb_prop in H as [_ H1].
    apply Z.ltb_lt in Hb1, Hb2. apply Z.leb_le in H1.
    pose proof (IH o1 (Some t1) H0) as IHr.
    assert (Ho1 : - day < o1 < day).
    { assert (Hx : (- day <? o1) && (o1 <? day) = true) by (destruct r as [|[? ?] ?]; cbn [table_ok] in H0; apply andb_prop in H0 as [H0 _]; exact H0).
      apply andb_prop in Hx as [Hx1 Hx2]. apply Z.ltb_lt in Hx1, Hx2. lia. }
    destruct (Z_lt_le_dec (t + 2 * day) t1).
    + exists t1, base, o1. unfold window. repeat split; try lia.
      intros u Hu. cbn [off_table]. destruct (Z.ltb_spec u t1); [reflexivity|lia].
    + destruct (Z_lt_le_dec t (t1 + 2 * day)).
      * exists t1, base, o1. unfold window. repeat split; try lia.
        intros u Hu. cbn [off_table]. destruct (Z.ltb_spec u t1); [reflexivity|].
        apply (off_table_before r o1 t1 u H0). lia.
      * destruct (IHr t) as (T & a & b & Ha & Hb & Hab & Hw). exists T, a, b. unfold window. repeat split; try lia.
        intros u Hu. cbn [off_table]. destruct (Z.ltb_spec u t1); [lia|]. apply Hw. exact Hu.
Qed.

(* ---- the dates written ---- *)

Lemma regular_resolves gr off t : regular_at off t -> resolves gr off t.
Proof. intros R us. apply resolve_fromtimestamp_at. exact R. Qed.

Lemma const_regular o t : - day < o < day -> regular_at (fun _ => o) t.
Proof. intros H. exists 0, o, o. unfold window. repeat split; try lia. intros u _. destruct (u <? 0); reflexivity. Qed.

Lemma isostring_naive gr off t_us keep : resolves gr off (t_us / 1000000) ->
  let s := datetime_isostring gr off (Naive (fromtimestamp off t_us)) keep in
  s_off s = off (t_us / 1000000) /\
  denotes s = if keep then t_us else t_us / 1000000 * 1000000.
Proof.
  intros R. cbn zeta. unfold datetime_isostring, fromtimestamp, utcoffset_naive, denotes. cbn [wall usec fold s_wall s_usec s_off].
  rewrite R. split; [reflexivity|]. unfold local.
  pose proof (Z.div_mod t_us 1000000 ltac:(lia)). destruct keep; lia.
Qed.

Theorem lastmod_instant gr off t_us : resolves gr off (t_us / 1000000) ->
  denotes (lastmod_value gr off t_us) = t_us / 1000000 * 1000000 /\ s_off (lastmod_value gr off t_us) = off (t_us / 1000000).
Proof. intros R. destruct (isostring_naive gr off t_us false R) as [A B]. split; [exact B|exact A]. Qed.

Theorem hashdate_instant gr off now_us : resolves gr off (now_us / 1000000) ->
  denotes (hashdate_value gr off now_us) = now_us /\ s_off (hashdate_value gr off now_us) = off (now_us / 1000000).
Proof. intros R. destruct (isostring_naive gr off now_us true R) as [A B]. split; [exact B|exact A]. Qed.

Theorem creationdate_instant gr off now_us : resolves gr off (now_us / 1000000) ->
  denotes (creationdate_value gr off now_us) = now_us / 1000000 * 1000000 /\ s_off (creationdate_value gr off now_us) = off (now_us / 1000000).
Proof. intros R. destruct (isostring_naive gr off now_us false R) as [A B]. split; [exact B|exact A]. Qed.

(* the written second is the wall clock of the zone at that instant *)
Lemma lastmod_wall gr off t_us : s_wall (lastmod_value gr off t_us) = t_us / 1000000 + off (t_us / 1000000) /\ s_usec (lastmod_value gr off t_us) = 0.
Proof. split; reflexivity. Qed.

(* an aware value keeps its own offset *)
Lemma isostring_aware gr off s keep : s_off (datetime_isostring gr off (Aware s) keep) = s_off s /\
  denotes (datetime_isostring gr off (Aware s) true) = denotes s.
Proof. split; reflexivity. Qed.

(* ---- decimal ---- *)
Lemma digit_val_chr d : 0 <= d < 10 -> digit_val (digit_chr d) = Some d.
Proof.
  intros H. unfold digit_val, digit_chr, chr0.
  replace (48 <=? Z.to_N (48 + d))%N with true by (symmetry; apply N.leb_le; lia).
  replace (Z.to_N (48 + d) <=? 57)%N with true by (symmetry; apply N.leb_le; lia).
  cbv [andb]. f_equal. lia.
Qed.

Lemma dec_loop_app : forall fuel v acc, dec_loop fuel v acc = dec_loop fuel v [] ++ acc.
Proof.
  induction fuel as [|k IH]; intros v acc; cbn [dec_loop]; [reflexivity|].
  destruct (v / 10 =? 0); [reflexivity|].
  rewrite (IH (v / 10) (digit_chr (v mod 10) :: acc)), (IH (v / 10) [digit_chr (v mod 10)]).
  rewrite <- app_assoc. reflexivity.
Qed.

Lemma dec_loop_fuel : forall f f' v acc, 0 <= v < 10 ^ Z.of_nat (S f) -> 0 <= v < 10 ^ Z.of_nat (S f') ->
  dec_loop (S f) v acc = dec_loop (S f') v acc.
Proof.
  induction f as [|k IH]; intros f' v acc H H'.
  - cbn [dec_loop]. change (10 ^ Z.of_nat 1) with 10 in H. rewrite Z.div_small by lia. reflexivity.
  - cbn [dec_loop]. destruct (Z.eqb_spec (v / 10) 0) as [E|E]; [reflexivity|].
    rewrite Nat2Z.inj_succ, Z.pow_succ_r in H, H' by lia.
    assert (0 <= v / 10) by (apply Z.div_pos; lia).
    destruct f' as [|k'].
    + change (10 * 10 ^ Z.of_nat 0) with 10 in H'. rewrite Z.div_small in E by lia. lia.
    + change (dec_loop (S k) (v / 10) (digit_chr (v mod 10) :: acc) = dec_loop (S k') (v / 10) (digit_chr (v mod 10) :: acc)).
      apply IH; (split; [assumption|apply Z.div_lt_upper_bound; lia]).
Qed.

Lemma log2_fuel v : 0 <= v -> 0 <= v < 10 ^ Z.of_nat (S (Z.to_nat (Z.log2 v))).
Proof.
  intros H. split; [exact H|].
  destruct (Z.eq_dec v 0) as [->|Hn]; [cbn; lia|].
  rewrite Nat2Z.inj_succ, Z2Nat.id by apply Z.log2_nonneg.
  pose proof (Z.log2_spec v ltac:(lia)) as [_ Hs].
  eapply Z.lt_le_trans; [exact Hs|].
  apply Z.pow_le_mono_l. pose proof (Z.log2_nonneg v). lia.
Qed.

Lemma str_nonneg_small v : 0 <= v < 10 -> str_nonneg v = [digit_chr v].
Proof.
  intros H. unfold str_nonneg. cbn [dec_loop].
  rewrite Z.div_small, Z.mod_small by lia. reflexivity.
Qed.

Lemma str_nonneg_step v : 10 <= v -> str_nonneg v = str_nonneg (v / 10) ++ [digit_chr (v mod 10)].
Proof.
  intros H. unfold str_nonneg at 1. cbn [dec_loop].
  destruct (Z.eqb_spec (v / 10) 0) as [E|E].
  - assert (v / 10 >= 1) by (apply Z.le_ge, Z.div_le_lower_bound; lia). lia.
  - rewrite dec_loop_app. f_equal. unfold str_nonneg.
    assert (0 <= v / 10) by (apply Z.div_pos; lia).
    destruct (Z.to_nat (Z.log2 v)) as [|n] eqn:El.
    + assert (Z.log2 v = 0) by (pose proof (Z.log2_nonneg v); lia).
      pose proof (Z.log2_spec v ltac:(lia)) as [_ Hs]. rewrite H1 in Hs. cbn in Hs. lia.
    + apply dec_loop_fuel; [|apply log2_fuel; assumption].
      split; [assumption|].
      apply Z.div_lt_upper_bound; [lia|].
      rewrite <- Z.pow_succ_r by lia. rewrite <- Nat2Z.inj_succ. rewrite <- El. apply log2_fuel. lia.
Qed.

Lemma digits_val_app : forall s r acc, digits_val acc (s ++ r) = match digits_val acc s with Some a => digits_val a r | None => None end.
Proof.
  induction s as [|c s IH]; intros r acc; cbn [app digits_val]; [reflexivity|].
  destruct (digit_val c); [apply IH|reflexivity].
Qed.

Lemma dec_ind (P : Z -> Prop) :
  (forall v, 0 <= v < 10 -> P v) -> (forall v, 10 <= v -> P (v / 10) -> P v) -> forall v, 0 <= v -> P v.
Proof.
  intros H0 Hs v. induction v as [v IH] using (well_founded_induction (Z.lt_wf 0)). intros Hv.
  destruct (Z_lt_le_dec v 10); [apply H0; lia|].
  apply Hs; [assumption|]. assert (0 <= v / 10 < v) by (split; [apply Z.div_pos; lia|apply Z.div_lt; lia]).
  apply IH; lia.
Qed.

Lemma digits_val_str : forall v, 0 <= v -> digits_val 0 (str_nonneg v) = Some v.
Proof.
  apply dec_ind.
  - intros v H. rewrite str_nonneg_small by assumption. cbn [digits_val]. rewrite digit_val_chr by assumption. f_equal.
  - intros v H IH. rewrite str_nonneg_step, digits_val_app, IH by assumption. cbn [digits_val].
    rewrite digit_val_chr by (apply Z.mod_pos_bound; lia). f_equal. pose proof (Z.div_mod v 10). lia.
Qed.

(* the text of a non-negative number starts with a digit, so it is neither empty nor signed *)
Lemma str_nonneg_head : forall v, 0 <= v -> exists d r, 0 <= d < 10 /\ str_nonneg v = digit_chr d :: r.
Proof.
  apply dec_ind.
  - intros v H. exists v, []. split; [assumption|apply str_nonneg_small; assumption].
  - intros v H (d & r & Hd & E). exists d, (r ++ [digit_chr (v mod 10)]). split; [assumption|].
    rewrite str_nonneg_step, E by assumption. reflexivity.
Qed.

Lemma digit_chr_range d : 0 <= d < 10 -> (48 <= digit_chr d <= 57)%N.
Proof. intros H. unfold digit_chr, chr0. lia. Qed.

Lemma nat_of_text_str v : 0 <= v -> nat_of_text (str_nonneg v) = Some v.
Proof.
  intros H. destruct (str_nonneg_head v H) as (d & r & Hd & E). unfold nat_of_text.
  rewrite <- (digits_val_str v H). rewrite E. reflexivity.
Qed.

Lemma int_of_text_nonneg v : 0 <= v -> int_of_text (str_nonneg v) = Some v.
Proof.
  intros H. destruct (str_nonneg_head v H) as (d & r & Hd & E). unfold int_of_text.
  pose proof (digit_chr_range d Hd) as Hr. rewrite <- (nat_of_text_str v H). rewrite E.
  destruct (digit_chr d) as [|p] eqn:Ed; [lia|].
  assert (Hp : (48 <= p <= 57)%positive) by lia.
  do 6 (destruct p as [p|p|]; try lia); reflexivity.
Qed.

Theorem int_of_text_str v : int_of_text (str_int v) = Some v.
Proof.
  unfold str_int. destruct (Z.ltb_spec v 0).
  - cbn [int_of_text]. rewrite nat_of_text_str by lia. cbn. f_equal. lia.
  - apply int_of_text_nonneg. assumption.
Qed.

Lemma str_int_nonempty v : str_int v <> [].
Proof.
  unfold str_int. destruct (Z.ltb_spec v 0) as [l|l]; [discriminate|].
  destruct (str_nonneg_head v l) as (d & r & _ & E). rewrite E. discriminate.
Qed.

Theorem size_roundtrip n : recorded_size n = Some (Some n).
Proof.
  unfold recorded_size, emit_size, parse_size. pose proof (str_int_nonempty n).
  destruct (str_int n) eqn:E; [congruence|]. rewrite <- E, int_of_text_str. reflexivity.
Qed.

(* ---- fixed-width fields ---- *)
Fixpoint fixw (w : nat) (v : Z) : list Z := match w with O => [] | S k => fixw k (v / 10) ++ [v mod 10] end.

Lemma repeat_n_snoc {A} (x : A) n : repeat_n x (S n) = repeat_n x n ++ [x].
Proof. induction n as [|n IH]; [reflexivity|]. cbn [repeat_n app] in *. rewrite <- IH. reflexivity. Qed.

Lemma rjust_snoc {A} n (f : A) s x : rjust (S n) f (s ++ [x]) = rjust n f s ++ [x].
Proof. unfold rjust. rewrite app_length. cbn [length]. replace (S n - (length s + 1))%nat with (n - length s)%nat by lia. apply app_assoc. Qed.

Lemma fixw_zero n : map digit_chr (fixw n 0) = repeat_n 48%N n.
Proof.
  induction n as [|n IH]; [reflexivity|]. cbn [fixw]. rewrite Z.div_0_l, Z.mod_0_l by lia.
  rewrite map_app, IH, repeat_n_snoc. reflexivity.
Qed.

Lemma pad_fixw : forall w v, 0 <= v < 10 ^ Z.of_nat (S w) -> pad (S w) v = map digit_chr (fixw (S w) v).
Proof.
  induction w as [|k IH]; intros v H.
  - change (10 ^ Z.of_nat 1) with 10 in H. unfold pad. rewrite str_nonneg_small by assumption.
    cbn. rewrite Z.mod_small by lia. reflexivity.
  - unfold pad. destruct (Z_lt_le_dec v 10).
    + rewrite str_nonneg_small by lia. change [digit_chr v] with ([] ++ [digit_chr v]). rewrite rjust_snoc.
      change (fixw (S (S k)) v) with (fixw (S k) (v / 10) ++ [v mod 10]).
      rewrite (Z.div_small v), (Z.mod_small v) by lia. rewrite !map_app. f_equal.
      rewrite fixw_zero. unfold rjust. cbn [length]. rewrite Nat.sub_0_r, app_nil_r. reflexivity.
    + rewrite str_nonneg_step, rjust_snoc by assumption. fold (pad (S k) (v / 10)).
      rewrite Nat2Z.inj_succ, Z.pow_succ_r in H by lia.
      rewrite IH by (split; [apply Z.div_pos; lia|apply Z.div_lt_upper_bound; lia]).
      change (fixw (S (S k)) v) with (fixw (S k) (v / 10) ++ [v mod 10]). rewrite map_app. reflexivity.
Qed.

Lemma pad2 v : 0 <= v < 100 -> pad 2 v = [digit_chr (v / 10); digit_chr (v mod 10)].
Proof.
  intros H. rewrite pad_fixw by (change (10 ^ Z.of_nat 2) with 100; lia). cbn.
  rewrite (Z.mod_small (v / 10)) by (split; [apply Z.div_pos; lia|apply Z.div_lt_upper_bound; lia]). reflexivity.
Qed.

Lemma two_digits x y : 0 <= x < 10 -> 0 <= y < 10 -> two (digit_chr x) (digit_chr y) = Some (x * 10 + y).
Proof. intros Hx Hy. unfold two. rewrite !digit_val_chr by assumption. reflexivity. Qed.

Lemma two_pad2 v : 0 <= v < 100 -> two (digit_chr (v / 10)) (digit_chr (v mod 10)) = Some v.
Proof.
  intros H. rewrite two_digits.
  - f_equal. pose proof (Z.div_mod v 10). lia.
  - split; [apply Z.div_pos; lia|apply Z.div_lt_upper_bound; lia].
  - apply Z.mod_pos_bound. lia.
Qed.

(* ---- the offset text ---- *)
Lemma offset_fields a : 0 <= a < 86400 ->
  0 <= a / 3600 < 24 /\ 0 <= a mod 3600 / 60 < 60 /\ 0 <= (a mod 3600) mod 60 < 60 /\
  a = a / 3600 * 3600 + a mod 3600 / 60 * 60 + (a mod 3600) mod 60.
Proof.
  intros H. pose proof (Z.div_mod a 3600 ltac:(lia)). pose proof (Z.mod_pos_bound a 3600 ltac:(lia)).
  pose proof (Z.div_mod (a mod 3600) 60 ltac:(lia)). pose proof (Z.mod_pos_bound (a mod 3600) 60 ltac:(lia)).
  assert (0 <= a / 3600 < 24) by (split; [apply Z.div_pos; lia|apply Z.div_lt_upper_bound; lia]).
  assert (0 <= a mod 3600 / 60 < 60) by (split; [apply Z.div_pos; lia|apply Z.div_lt_upper_bound; lia]).
  lia.
Qed.

Theorem parse_fmt_offset o : -86400 < o < 86400 -> parse_offset (fmt_offset o) = Some o.
Proof.
  intros H. unfold fmt_offset.
  destruct (offset_fields (Z.abs o) ltac:(lia)) as (Hh & Hm & Hs & E).
  set (hh := Z.abs o / 3600) in *. set (mm := Z.abs o mod 3600 / 60) in *. set (ss := (Z.abs o mod 3600) mod 60) in *.
  rewrite !pad2 by lia. cbn [app].
  assert (K : (if N.eqb (if o <? 0 then 45%N else 43%N) 43%N then Some 1 else if N.eqb (if o <? 0 then 45%N else 43%N) 45%N then Some (-1) else None)
              = Some (if o <? 0 then -1 else 1)) by (destruct (o <? 0); reflexivity).
  destruct (Z.eqb_spec ss 0) as [Es|Es].
  - cbn [app parse_offset]. rewrite K, !two_pad2 by lia.
    replace (hh <? 24) with true by (symmetry; apply Z.ltb_lt; lia).
    replace (mm <? 60) with true by (symmetry; apply Z.ltb_lt; lia).
    cbn. f_equal. destruct (Z.ltb_spec o 0); lia.
  - cbn [app parse_offset]. rewrite K, !two_pad2 by lia.
    replace (hh <? 24) with true by (symmetry; apply Z.ltb_lt; lia).
    replace (mm <? 60) with true by (symmetry; apply Z.ltb_lt; lia).
    replace (ss <? 60) with true by (symmetry; apply Z.ltb_lt; lia).
    cbn. f_equal. destruct (Z.ltb_spec o 0); lia.
Qed.

(* xs:dateTime's time-zone form (+|-)hh:mm is produced exactly when the offset is a whole number of minutes *)
Lemma fmt_offset_length o : -86400 < o < 86400 -> length (fmt_offset o) = if o mod 60 =? 0 then 6%nat else 9%nat.
Proof.
  intros H. unfold fmt_offset.
  destruct (offset_fields (Z.abs o) ltac:(lia)) as (Hh & Hm & Hs & E).
  set (hh := Z.abs o / 3600) in *. set (mm := Z.abs o mod 3600 / 60) in *. set (ss := (Z.abs o mod 3600) mod 60) in *.
  assert (Hz : (o mod 60 =? 0) = (ss =? 0)).
  { destruct (Z.eqb_spec ss 0) as [Es|Es].
    - apply Z.eqb_eq. apply Z.mod_divide; [lia|]. exists ((if o <? 0 then -1 else 1) * (hh * 60 + mm)). destruct (Z.ltb_spec o 0); lia.
    - apply Z.eqb_neq. intros Em. apply Z.mod_divide in Em; [|lia]. destruct Em as [q Eq].
      assert (ss = 60 * ((if o <? 0 then - q else q) - hh * 60 - mm)) by (destruct (Z.ltb_spec o 0); lia). lia. }
  rewrite Hz, !pad2 by lia. destruct (ss =? 0) eqn:Es.
  - reflexivity.
  - reflexivity.
Qed.


Lemma pad4 v : 0 <= v < 10000 ->
  pad 4 v = [digit_chr (v / 1000); digit_chr (v / 100 mod 10); digit_chr (v / 10 mod 10); digit_chr (v mod 10)].
Proof.
  intros H. rewrite pad_fixw by (change (10 ^ Z.of_nat 4) with 10000; lia). cbn [fixw app map].
  replace (v / 10 / 10 / 10 mod 10) with (v / 1000) by (Z.div_mod_to_equations; lia).
  replace (v / 10 / 10 mod 10) with (v / 100 mod 10) by (Z.div_mod_to_equations; lia).
  reflexivity.
Qed.

Lemma four_pad4 v : 0 <= v < 10000 ->
  four (digit_chr (v / 1000)) (digit_chr (v / 100 mod 10)) (digit_chr (v / 10 mod 10)) (digit_chr (v mod 10)) = Some v.
Proof.
  intros H. unfold four. rewrite !two_digits by (Z.div_mod_to_equations; lia). f_equal. Z.div_mod_to_equations; lia.
Qed.

Lemma pad6 v : 0 <= v < 1000000 ->
  pad 6 v = [digit_chr (v / 100000); digit_chr (v / 10000 mod 10); digit_chr (v / 1000 mod 10);
             digit_chr (v / 100 mod 10); digit_chr (v / 10 mod 10); digit_chr (v mod 10)].
Proof.
  intros H. rewrite pad_fixw by (change (10 ^ Z.of_nat 6) with 1000000; lia). cbn [fixw app map].
  replace (v / 10 / 10 / 10 / 10 / 10 mod 10) with (v / 100000) by (Z.div_mod_to_equations; lia).
  replace (v / 10 / 10 / 10 / 10 mod 10) with (v / 10000 mod 10) by (Z.div_mod_to_equations; lia).
  replace (v / 10 / 10 / 10 mod 10) with (v / 1000 mod 10) by (Z.div_mod_to_equations; lia).
  replace (v / 10 / 10 mod 10) with (v / 100 mod 10) by (Z.div_mod_to_equations; lia).
  reflexivity.
Qed.

Lemma six_pad6 v : 0 <= v < 1000000 ->
  six [digit_chr (v / 100000); digit_chr (v / 10000 mod 10); digit_chr (v / 1000 mod 10);
       digit_chr (v / 100 mod 10); digit_chr (v / 10 mod 10); digit_chr (v mod 10)] = Some v.
Proof.
  intros H. unfold six, four. rewrite !two_digits by (Z.div_mod_to_equations; lia). f_equal. Z.div_mod_to_equations; lia.
Qed.

