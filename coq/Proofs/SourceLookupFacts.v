(* The lookups of ascmhl/history.py as the translator reads them from the source on every run (Gen/GeneratedFns.v) are the
   lookups of Model/History.v that every theorem about sealing and verifying is stated with. *)
From Coq Require Import List NArith Bool.
Import ListNotations.
From MHL Require Import Model.History Model.Emit Gen.GeneratedFns Proofs.BaseFacts Proofs.SealFacts.

Lemma find_pred_ext {A} (f g : A -> bool) l : (forall x, f x = g x) -> find f l = find g l.
Proof. intros H. induction l as [|a l IH]; cbn [find]; [reflexivity|]. rewrite H, IH. reflexivity. Qed.

Lemma find_always {A} (l : list A) : find (fun _ => true) l = match l with a :: _ => Some a | [] => None end.
Proof. destruct l; reflexivity. Qed.

Theorem src_find_original_is_model gens p : src_find_original gens p = find_original gens p.
Proof.
  induction gens as [|g gens IH]; cbn [src_find_original find_original]; [reflexivity|].
  destruct (find_media_hash g p) as [r|]; [|exact IH].
  rewrite (find_pred_ext _ is_original).
  - rewrite IH. reflexivity.
  - intros e. unfold is_original. destruct (e_action e) as [[]|]; reflexivity.
Qed.

Theorem src_find_first_is_model gens p f : src_find_first gens p (Some f) = find_first gens p f.
Proof.
  induction gens as [|g gens IH]; cbn [src_find_first find_first]; [reflexivity|].
  destruct (find_media_hash g p) as [r|]; [|exact IH].
  rewrite (find_pred_ext _ (fun e => fmt_eqb (e_fmt e) f)).
  - rewrite IH. reflexivity.
  - intros e. cbn [is_none negb andb opt_fmt_eqb]. rewrite orb_false_r. reflexivity.
Qed.

Theorem src_find_first_any_is_model gens p : src_find_first gens p None = find_first_any gens p.
Proof.
  induction gens as [|g gens IH]; cbn [src_find_first find_first_any]; [reflexivity|].
  destruct (find_media_hash g p) as [r|]; [|exact IH].
  rewrite (find_pred_ext _ (fun _ => true)) by (intros e; reflexivity).
  rewrite find_always, IH. destruct (r_entries r); reflexivity.
Qed.
