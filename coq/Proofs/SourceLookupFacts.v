(* The lookups of ascmhl/history.py as the translator reads them from the source on every run (Gen/GeneratedFns.v) are the
   lookups of Model/History.v that every theorem about sealing and verifying is stated with. *)
From Coq Require Import List NArith Bool.
Import ListNotations.
From MHL Require Import Gen.Generated Model.Ignore Model.History Model.Seal Model.Emit Gen.GeneratedFns Proofs.BaseFacts Proofs.SealFacts.

Lemma find_pred_ext {A} (f g : A -> bool) l : (forall x, f x = g x) -> find f l = find g l.
Proof. intros H. induction l as [|a l IH]; cbn [find]; [reflexivity|]. rewrite H, IH. reflexivity. Qed.

Lemma find_always {A} (l : list A) : find (fun _ => true) l = match l with a :: _ => Some a | [] => None end.
Proof. destruct l; reflexivity. Qed.

Theorem src_find_original_is_model gens p : src_find_original gens p = find_original gens p.
Proof.
  induction gens as [|g gens IH]; cbn [src_find_original find_original]; [reflexivity|].
  destruct (find_media_hash g p) as [r|]; [|exact IH].
  rewrite (find_pred_ext _ is_original).
  - rewrite IH. reflexivity.
  - intros e. unfold is_original. destruct (e_action e) as [[]|]; reflexivity.
Qed.

Theorem src_find_first_is_model gens p f : src_find_first gens p (Some f) = find_first gens p f.
Proof.
  induction gens as [|g gens IH]; cbn [src_find_first find_first]; [reflexivity|].
  destruct (find_media_hash g p) as [r|]; [|exact IH].
  rewrite (find_pred_ext _ (fun e => fmt_eqb (e_fmt e) f)).
  - rewrite IH. reflexivity.
  - intros e. cbn [is_none negb andb opt_fmt_eqb]. rewrite orb_false_r. reflexivity.
Qed.

Theorem src_find_first_any_is_model gens p : src_find_first gens p None = find_first_any gens p.
Proof.
  induction gens as [|g gens IH]; cbn [src_find_first find_first_any]; [reflexivity|].
  destruct (find_media_hash g p) as [r|]; [|exact IH].
  rewrite (find_pred_ext _ (fun _ => true)) by (intros e; reflexivity).
  rewrite find_always, IH. destruct (r_entries r); reflexivity.
Qed.

(* ---- find_existing_hash_formats_for_path: append-if-absent over all entries of all generations = first occurrences ---- *)
Lemma dedup_by_seen_ext {A} (eqb : A -> A -> bool) : forall l s1 s2,
  (forall y, existsb (eqb y) s1 = existsb (eqb y) s2) -> dedup_by eqb s1 l = dedup_by eqb s2 l.
Proof.
  induction l as [|x l IH]; intros s1 s2 H; cbn [dedup_by]; [reflexivity|].
  rewrite (H x). destruct (existsb (eqb x) s2); [apply IH; exact H|].
  f_equal. apply IH. intros y. cbn [existsb]. rewrite H. reflexivity.
Qed.

Definition append_if_absent (acc : list fmt) (x : fmt) : list fmt := if negb (memf x acc) then acc ++ [x] else acc.

Lemma append_if_absent_fold : forall l acc, fold_left append_if_absent l acc = acc ++ dedup_by fmt_eqb acc l.
Proof.
  induction l as [|x l IH]; intros acc; cbn [fold_left dedup_by]; [rewrite app_nil_r; reflexivity|].
  unfold append_if_absent at 2. unfold memf. destruct (existsb (fmt_eqb x) acc) eqn:E; cbn [negb].
  - apply IH.
  - rewrite IH, <- app_assoc. cbn [app]. do 2 f_equal. apply dedup_by_seen_ext.
    intros y. rewrite existsb_app. cbn [existsb]. rewrite orb_false_r. apply orb_comm.
Qed.

Lemma fold_left_map_in {A B C} (f : A -> B -> A) (g : C -> B) : forall l a, fold_left (fun a c => f a (g c)) l a = fold_left f (map g l) a.
Proof. induction l as [|c l IH]; intros a; cbn [fold_left map]; [reflexivity|apply IH]. Qed.

Theorem src_existing_formats_is_model gens p : src_existing_formats gens p = existing_formats gens p.
Proof.
  unfold src_existing_formats, existing_formats, dedup_fmts.
  assert (H : forall gs acc,
    fold_left (fun hash_formats hash_list =>
      match find_media_hash hash_list p with
      | None => hash_formats
      | Some media_hash => fold_left (fun hash_formats hash_entry =>
          if negb (memf (e_fmt hash_entry) hash_formats) then hash_formats ++ [e_fmt hash_entry] else hash_formats) (r_entries media_hash) hash_formats
      end) gs acc
    = fold_left append_if_absent (flat_map (fun g => match find_media_hash g p with Some r => map e_fmt (r_entries r) | None => [] end) gs) acc).
  { induction gs as [|g gs IH]; intros acc; cbn [fold_left flat_map]; [reflexivity|].
    rewrite fold_left_app, IH. f_equal.
    destruct (find_media_hash g p) as [r|]; [|reflexivity].
    rewrite <- (fold_left_map_in append_if_absent e_fmt). reflexivity. }
  rewrite H, append_if_absent_fold. reflexivity.
Qed.

(* ---- commands.seal_file_path: the list of formats that are hashed = to_generate ---------------------------------- *)
Lemma filter_append_fold (P : fmt -> bool) : forall l acc,
  fold_left (fun g f => if P f then g ++ [f] else g) l acc = acc ++ filter P l.
Proof.
  induction l as [|x l IH]; intros acc; cbn [fold_left filter]; [rewrite app_nil_r; reflexivity|].
  destruct (P x); rewrite IH; [rewrite <- app_assoc; reflexivity|reflexivity].
Qed.

Lemma dedup_by_app_fresh : forall (a : list fmt) seen b,
  NoDup a -> (forall x, In x a -> ~ In x seen) ->
  dedup_by fmt_eqb seen (a ++ b) = a ++ dedup_by fmt_eqb (a ++ seen) b.
Proof.
  induction a as [|x a IH]; intros seen b Hnd Hfresh; cbn [app dedup_by]; [reflexivity|].
  inversion Hnd as [|? ? Hx Hnd']; subst.
  assert (E : existsb (fmt_eqb x) seen = false).
  { apply (proj2 (memf_not_In x seen)). apply Hfresh. left. reflexivity. }
  rewrite E. f_equal. rewrite IH; [|exact Hnd'|].
  - f_equal. apply dedup_by_seen_ext. intros y. rewrite existsb_app. cbn [existsb]. rewrite existsb_app.
    destruct (fmt_eqb y x), (existsb (fmt_eqb y) a), (existsb (fmt_eqb y) seen); reflexivity.
  - intros y Hy [Hs|Hs]; [subst y; contradiction|]. apply (Hfresh y); [right; exact Hy|exact Hs].
Qed.

Theorem src_to_generate_is_model ex req : NoDup ex -> src_to_generate ex req = to_generate ex req.
Proof.
  intros Hnd. unfold src_to_generate, to_generate. cbv zeta.
  set (base := match ex with [] => [] | f0 :: _ => match filter (fun f => memf f req) ex with [] => [f0] | _ :: _ => filter (fun f => memf f req) ex end end).
  assert (Hg1 : (if negb (is_nil ex) && Nat.ltb 0 (length ex)
                 then if negb (negb (is_nil (fold_left (fun g f => if memf f req then g ++ [f] else g) ex []))) || Nat.eqb (length (fold_left (fun g f => if memf f req then g ++ [f] else g) ex [])) 0
                      then match ex with first :: _ => fold_left (fun g f => if memf f req then g ++ [f] else g) ex [] ++ [first] | [] => fold_left (fun g f => if memf f req then g ++ [f] else g) ex [] end
                      else fold_left (fun g f => if memf f req then g ++ [f] else g) ex []
                 else []) = base).
  { rewrite (filter_append_fold (fun f => memf f req) ex []). cbn [app]. unfold base.
    destruct ex as [|f0 l]; [reflexivity|]. cbn [is_nil negb length Nat.ltb Nat.leb andb].
    destruct (filter (fun f => memf f req) (f0 :: l)) as [|c cs]; reflexivity. }
  rewrite Hg1.
  change (fold_left (fun g f => if negb (memf f g) then g ++ [f] else g) req base) with (fold_left append_if_absent req base).
  rewrite append_if_absent_fold.
  assert (Hb : NoDup base).
  { unfold base. destruct ex as [|f0 l]; [constructor|].
    destruct (filter (fun f => memf f req) (f0 :: l)) as [|c cs] eqn:Ef; [repeat constructor; intros []|].
    rewrite <- Ef. apply NoDup_filter. exact Hnd. }
  rewrite (dedup_by_app_fresh base [] req Hb) by (intros x _ []).
  rewrite app_nil_r. reflexivity.
Qed.

(* ---- history.latest_generation_number ----------------------------------------------------------------------------- *)
Theorem src_latest_generation_number_is_model gens : src_latest_generation_number gens = latest_generation_number gens.
Proof.
  unfold src_latest_generation_number, latest_generation_number.
  assert (H : forall acc : N,
    fold_left (fun latest_number hash_list => if negb (N.eqb (g_no hash_list) 0) then g_no hash_list else latest_number) gens acc
    = fold_left (fun acc g => if N.eqb (g_no g) 0 then acc else g_no g) gens acc).
  { induction gens as [|g gens IH]; intros acc; cbn [fold_left]; [reflexivity|].
    destruct (N.eqb (g_no g) 0); cbn [negb]; apply IH. }
  apply H.
Qed.

(* ---- history.find_directory_hash_entries_for_path ------------------------------------------------------------------- *)
Lemma fold_append_flat_map {A B} (F : A -> list B) : forall l acc,
  fold_left (fun acc a => acc ++ F a) l acc = acc ++ flat_map F l.
Proof.
  induction l as [|a l IH]; intros acc; cbn [fold_left flat_map]; [rewrite app_nil_r; reflexivity|].
  rewrite IH, app_assoc. reflexivity.
Qed.

Lemma fold_left_pointwise {A B} (f g : A -> B -> A) : (forall a b, f a b = g a b) -> forall l a, fold_left f l a = fold_left g l a.
Proof. intros H. induction l as [|b l IH]; intros a; cbn [fold_left]; [reflexivity|]. rewrite H. apply IH. Qed.

Lemma dir_entries_fold gens p acc :
  fold_left (fun directory_hash_entries hash_list =>
    match find_media_hash hash_list p with
    | None => directory_hash_entries
    | Some media_hash => if r_dir media_hash then directory_hash_entries ++ map (fun hash_entry => (g_no hash_list, hash_entry)) (r_entries media_hash) else directory_hash_entries
    end) gens acc
  = acc ++ flat_map (fun g => match find_media_hash g p with Some r => if r_dir r then map (fun e => (g_no g, e)) (r_entries r) else [] | None => [] end) gens.
Proof.
  rewrite <- fold_append_flat_map. apply fold_left_pointwise.
  intros a g. destruct (find_media_hash g p) as [r|]; [destruct (r_dir r)|]; rewrite ?app_nil_r; reflexivity.
Qed.
Lemma root_entries_fold gens acc :
  fold_left (fun directory_hash_entries hash_list =>
    match g_root hash_list with
    | None => directory_hash_entries
    | Some root_entries => directory_hash_entries ++ map (fun hash_entry => (g_no hash_list, hash_entry)) root_entries
    end) gens acc
  = acc ++ flat_map (fun g => match g_root g with Some es => map (fun e => (g_no g, e)) es | None => [] end) gens.
Proof.
  rewrite <- fold_append_flat_map. apply fold_left_pointwise.
  intros a g. destruct (g_root g); rewrite ?app_nil_r; reflexivity.
Qed.

Theorem src_find_directory_entries_is_model gens p : src_find_directory_entries gens p = find_directory_entries gens p.
Proof.
  unfold src_find_directory_entries, find_directory_entries. cbv zeta.
  rewrite dir_entries_fold. cbn [app].
  destruct p as [|n p']; cbn [is_nil]; [apply root_entries_fold|rewrite app_nil_r; reflexivity].
Qed.

(* ---- ignore.MHLIgnoreSpec ------------------------------------------------------------------------------------------- *)
Lemma append_patterns_fold : forall ps acc,
  fold_left (fun ignore_list line => if negb (mem_text line ignore_list) then ignore_list ++ [line] else ignore_list) ps acc = append_patterns acc ps.
Proof.
  induction ps as [|p ps IH]; intros acc; cbn [fold_left append_patterns]; [reflexivity|].
  destruct (mem_text p acc); cbn [negb]; apply IH.
Qed.
Theorem src_append_patterns_list_is_model acc ps : src_append_patterns_list acc ps = append_patterns acc ps.
Proof.
  unfold src_append_patterns_list. destruct ps as [|p ps]; cbn [is_nil negb]; [reflexivity|]. apply append_patterns_fold.
Qed.
Theorem src_set_patterns_is_model existing new file :
  src_set_patterns existing new file = set_patterns existing new (match file with Some lines => pattern_file_lines lines | None => [] end).
Proof.
  unfold src_set_patterns, set_patterns, src_append_patterns_from_file, pattern_file_lines. cbv zeta.
  destruct existing as [|e es]; cbn [is_nil negb]; rewrite !src_append_patterns_list_is_model;
    destruct new as [|n ns]; cbn [is_nil negb]; rewrite ?src_append_patterns_list_is_model;
    destruct file as [lines|]; rewrite ?src_append_patterns_list_is_model; reflexivity.
Qed.
