(* Extraction of the schema validator for the C11 correspondence check (validator <-> libxml2).  ExtrOcamlBasic only;
   the two schema VALUES are the generated ones (Gen/Generated.v, re-read from /repo/xsd on every run).
   Second half: the invariants `reach` / `reach_chain` (Model/Reach.v) and the writers' model (Model/Emit.v), evaluated on
   the objects the real tool hands to its writers. *)
Require Import ExtrOcamlBasic.
From MHL Require Import Gen.Generated Model.Schema Model.Reach.
Extraction Language OCaml.
Extraction "../ocaml/schema_model.ml"
  validate valid_type stype_ok datetime_ok integer_ok email_ok schema_manifest schema_directory render_datetime
  reach reach_chain creator_reach procinfo_reach record_reach chainent_reach emit_hashlist emit_chain infoset.
