(* Extraction of the schema validator for the C11 correspondence check (validator <-> libxml2).  ExtrOcamlBasic only;
   the two schema VALUES are the generated ones (Gen/Generated.v, re-read from /repo/xsd on every run). *)
Require Import ExtrOcamlBasic.
From MHL Require Import Gen.Generated Model.Schema.
Extraction Language OCaml.
Extraction "../ocaml/schema_model.ml"
  validate valid_type stype_ok datetime_ok integer_ok email_ok schema_manifest schema_directory render_datetime.
