(* Extraction of the manifest / chain writers and readers (Model/Emit.v, Model/Read.v) for the correspondence check
   of C10 (and reuse by C11).  ExtrOcamlBasic only; no directive of our own. *)
Require Import ExtrOcamlBasic.
From MHL Require Import Model.Read.
Extraction Language OCaml.
Extraction "../ocaml/xml_model.ml"
  emit_hashlist read_hashlist canon wf emit_chain read_chain canon_chain wf_chain chain_entry_of_hashlist
  posix_norm iso_format iso_parse dec_of_N N_of_dec infoset tree_ok events to_gen.
