(* Extraction of the executable model for the correspondence check.  ExtrOcamlBasic only: bool, option, unit,
   list, prod, sumbool, sumor map to the OCaml types; N, Z, positive, nat, ascii/string stay extracted datatypes;
   oracles (hash primitive, matcher, ...) are ordinary function arguments.  No directive of our own. *)
Require Import ExtrOcamlBasic.
From MHL Require Import Model.Stream Model.World.
Extraction Language OCaml.
Extraction "../ocaml/model.ml"
  t fmt_name fmt_of_name all_fmts width
  hex_enc hex_dec c4_enc_value c4_string_digest c4_dec_value c4_bytes_from_string enc dec
  hash_file_loop hash_file_plan agg_loop hash_file hash_data multi_hash_file multi_hash_data digest_text
  set_patterns hash_of_hash_list structure_item seal validate_records
  do_step run load dirhash events.
