(* Extraction of the executable time / size model (C16) for the correspondence check.  ExtrOcamlBasic only; Z, N,
   positive, nat stay extracted datatypes; a zone is passed as a transition table through off_table. *)
Require Import ExtrOcamlBasic.
From MHL Require Import Model.Time.
Extraction Language OCaml.
Extraction "../ocaml/time_model.ml"
  off_table table_ok fromtimestamp detect_fold mktime resolve datetime_isostring denotes
  lastmod_value hashdate_value creationdate_value iso_text parse_iso fmt_offset parse_offset
  filename_stamp parse_filename_stamp str_int int_of_text emit_size emit_dir_size parse_size recorded_size
  civil_of_wall wall_of_civil.
