(* C14 -- commands touch nothing beyond what they document.  Statements only.  PARTIAL by nature: the theorems are
   about the model's effect description (the returned tree and the list of file-system operations); that the real
   commands perform exactly these operations is checked by comparing Python audit events and full snapshots with the
   model's prediction on every scenario. *)
From MHL Require Import Model.World Proofs.BaseFacts Proofs.TreeFacts Proofs.VerifyFacts Proofs.WorldFacts Proofs.CommitFacts.

(* verify (all modes), diff, verify -dh, info, info -sf, and flatten with respect to the source: tree unchanged ... *)
Theorem C14_readers_leave_tree : forall Hb matches C cdig t,
  (forall d only ip ifl, fst (verify_like Hb matches C cdig d t only ip ifl) = t) /\
  (forall f co ro ip ifl, fst (verify_dh Hb matches C cdig t f co ro ip ifl) = t) /\
  fst (info C cdig t) = t /\ (forall file, fst (info_sf C cdig t file) = t) /\
  (forall ip ifl, fst (flatten C cdig t ip ifl) = t).
Proof. exact readers_leave_tree. Qed.
Print Assumptions C14_readers_leave_tree.
(* ... and no file-system operation, for every input and outcome *)
Theorem C14_readers_write_nothing : forall Hb matches C cdig t,
  (forall d only ip ifl, o_ops (snd (verify_like Hb matches C cdig d t only ip ifl)) = [] /\ o_written (snd (verify_like Hb matches C cdig d t only ip ifl)) = []) /\
  (forall f co ro ip ifl, o_ops (snd (verify_dh Hb matches C cdig t f co ro ip ifl)) = [] /\ o_written (snd (verify_dh Hb matches C cdig t f co ro ip ifl)) = []) /\
  (o_ops (snd (info C cdig t)) = [] /\ o_written (snd (info C cdig t)) = []) /\
  (forall file, o_ops (snd (info_sf C cdig t file)) = [] /\ o_written (snd (info_sf C cdig t file)) = []) /\
  (forall ip ifl, o_ops (snd (flatten C cdig t ip ifl)) = []).
Proof. exact readers_write_nothing. Qed.
Print Assumptions C14_readers_write_nothing.

(* create: the media tree (everything but the ascmhl folders) is the same afterwards; every file-system operation is
   the mkdir of an ascmhl folder that did not exist (0), the writing of a manifest (1) or of the chain (2) of a loaded
   history; generations are written only into loaded histories *)
Theorem C14_commit_confined : forall C cdig ser hs proc t sess sp,
  Forall (fun h => get C t (lh_root h) <> None) hs ->
  let cs := commit C cdig ser hs proc t sess sp in
  erase C (cs_tree C cs) = erase C t /\ ops_in_scope hs (cs_ops C cs) /\
  (forall x, In x (cs_written C cs) -> exists h, In h hs /\ fst x = lh_root h).
Proof. exact commit_confined. Qed.
Print Assumptions C14_commit_confined.

(* the composed create commands (folder mode with every option incl. -dr, and -sf mode), on every well-formed tree and
   for every outcome: the media tree -- contents, names, shape -- is the same afterwards; every write concerns the ascmhl
   folder of a history of the tree; a refused run (damaged history) writes nothing at all *)
Theorem C14_create_leaves_media_untouched : forall Hb matches C cdig ser t req no_dh dr ip ifl, wf_tree C t ->
  let run := create_folder Hb matches C cdig ser t req no_dh dr ip ifl in
  erase C (fst run) = erase C t /\
  (forall hs, load C cdig t = inl hs -> ops_in_scope hs (o_ops (snd run)) /\
              forall x, In x (o_written (snd run)) -> exists h, In h hs /\ fst x = lh_root h) /\
  (forall e, load C cdig t = inr e -> fst run = t /\ o_ops (snd run) = [] /\ o_written (snd run) = []).
Proof. exact create_folder_confined. Qed.
Print Assumptions C14_create_leaves_media_untouched.
Theorem C14_create_sf_leaves_media_untouched : forall Hb matches C cdig ser t req sf ip ifl, wf_tree C t ->
  let run := create_sf Hb matches C cdig ser t req sf ip ifl in
  erase C (fst run) = erase C t /\
  (forall hs, load C cdig t = inl hs -> ops_in_scope hs (o_ops (snd run)) /\
              forall x, In x (o_written (snd run)) -> exists h, In h hs /\ fst x = lh_root h).
Proof. exact create_sf_confined. Qed.
Print Assumptions C14_create_sf_leaves_media_untouched.
