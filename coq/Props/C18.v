(* C18 -- a flattened manifest faithfully summarises the history.  Statements only.
   Proved for every history: the flattened record list holds each path at most once, no directory record, no failed
   digest, per record at most one digest per format, and -- the core of the property -- for EVERY path and format what
   the flattened manifest holds is exactly the EARLIEST digest of that format, in generation order, that did not fail
   (none if there is none); flatten returns the source tree unchanged and performs no write in it.
   PARTIAL: the verify -pl round trip is not in the model; it is checked by the oracle on the implementation. *)
From MHL Require Import Model.Commands Proofs.BaseFacts Proofs.InfoFacts Proofs.VerifyFacts.

Theorem C18_flattened_records : forall gens, fl_inv (flatten_records gens).
Proof. exact flatten_records_inv. Qed.
Print Assumptions C18_flattened_records.
Theorem C18_fl_inv_means : forall acc, fl_inv acc <->
  NoDup (map r_path acc) /\ Forall (fun r => r_dir r = false) acc /\
  Forall (fun r => forall e, In e (r_entries r) -> e_action e <> Some Failed) acc.
Proof. intros acc. reflexivity. Qed.

(* per record at most one digest per format, no previous paths *)
Theorem C18_one_digest_per_format : forall gens, fl_inv2 (flatten_records gens).
Proof. exact flatten_records_inv2. Qed.
Print Assumptions C18_one_digest_per_format.

(* scan = the order in which the generations, their file records and their entries are visited; earliest = the first
   entry in that order for the path and format whose action is not `failed`; held = what the flattened list holds *)
Theorem C18_holds_the_earliest_non_failed_digest : forall gens p f,
  held (flatten_records gens) p f = earliest (scan gens) p f.
Proof. exact flatten_keeps_earliest. Qed.
Print Assumptions C18_holds_the_earliest_non_failed_digest.

Theorem C18_source_untouched : forall C cdig t ip ifl,
  fst (flatten C cdig t ip ifl) = t /\ o_ops (snd (flatten C cdig t ip ifl)) = [].
Proof.
  intros C cdig t ip ifl. split.
  - apply (readers_leave_tree (fun _ b => b) (fun _ _ => false) C cdig t).
  - apply (readers_write_nothing (fun _ b => b) (fun _ _ => false) C cdig t).
Qed.
Print Assumptions C18_source_untouched.

(* non-vacuity: a two-generation history with a failed entry and a new format *)
Definition eA := mkEntry Md5 [49%N] (Some Original) None.
Definition eB := mkEntry Md5 [50%N] (Some Failed) None.
Definition eC := mkEntry Sha1 [51%N] (Some Verified) None.
Definition gA := mkGen 1 [mkRecord [[97%N]] false (Some 1%N) [eA] None; mkRecord [[100%N]] true None [] None] None [] [] InPlace.
Definition gB := mkGen 2 [mkRecord [[97%N]] false (Some 1%N) [eB; eC] None] None [] [] InPlace.
Example C18_example : map (fun r => (r_path r, map e_fmt (r_entries r))) (flatten_records [gA; gB]) = [([[97%N]], [Md5; Sha1])].
Proof. reflexivity. Qed.

(* verify -pl: the packing list is loaded as a history of one generation (numbered 1, at the root, no child histories, no
   chain) and then judged exactly like verify: always an exit code, tree and history untouched, 11 > 21 > 10 > 0, altered
   = the bytes no longer hash to the first `original` digest the packing list holds for the path, new = no such entry *)
Theorem C18_verify_pl_total : forall Hb matches C t pl ip ifl, exists c, o_outcome (snd (verify_pl Hb matches C t pl ip ifl)) = Exit c.
Proof. exact verify_pl_total. Qed.
Print Assumptions C18_verify_pl_total.
Theorem C18_verify_pl_source_untouched : forall Hb matches C t pl ip ifl,
  fst (verify_pl Hb matches C t pl ip ifl) = t /\ o_ops (snd (verify_pl Hb matches C t pl ip ifl)) = [] /\
  o_written (snd (verify_pl Hb matches C t pl ip ifl)) = [].
Proof. exact verify_pl_leaves_tree. Qed.
Print Assumptions C18_verify_pl_source_untouched.
Theorem C18_verify_pl_exit_code : forall Hb matches C t g ip ifl,
  let o := snd (verify_pl Hb matches C t (Some g) ip ifl) in
  o_outcome o = Exit (match o_mismatch o, o_new o, o_missing o with
                      | _ :: _, _, _ => 11 | [], _ :: _, _ => 21 | [], [], _ :: _ => 10 | [], [], [] => 0 end)%Z.
Proof. exact verify_pl_exit_selection. Qed.
Print Assumptions C18_verify_pl_exit_code.
Theorem C18_verify_pl_reports : forall Hb matches C t g ip ifl,
  let hs := [pl_history g] in
  let spec := set_patterns (g_patterns g) ip (pattern_file_lines ifl) in
  let files := ev_files (events matches C spec [] t) in
  let o := snd (verify_pl Hb matches C t (Some g) ip ifl) in
  (forall p, In p (o_mismatch o) <->
     exists c e, In (p, c) files /\ reference hs p = Some e /\ e_digest e <> digest_text Hb (e_fmt e) c) /\
  (forall p, In p (o_new o) <-> exists c, In (p, c) files /\ reference hs p = None).
Proof. exact verify_pl_reports. Qed.
Print Assumptions C18_verify_pl_reports.
