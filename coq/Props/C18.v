(* C18 -- a flattened manifest faithfully summarises the history.  Statements only.
   Proved for every history: the flattened record list holds each path at most once, no directory record, no failed
   digest, per record at most one digest per format, and -- the core of the property -- for EVERY path and format what
   the flattened manifest holds is exactly the EARLIEST digest of that format, in generation order, that did not fail
   (none if there is none); flatten returns the source tree unchanged and performs no write in it.
   The verify -pl round trip (last sentence of the property) is proved end to end for a flat history: see
   C18_seal_creates_flatten_verify_pl and C18_altered_tree_fails below. *)
From MHL Require Import Model.Commands Gen.Generated Proofs.BaseFacts Proofs.TreeFacts Proofs.InfoFacts Proofs.VerifyFacts Proofs.FlatFacts Proofs.PackFacts Proofs.ShapeFacts.

Theorem C18_flattened_records : forall gens, fl_inv (flatten_records gens).
Proof. exact flatten_records_inv. Qed.
Print Assumptions C18_flattened_records.
Theorem C18_fl_inv_means : forall acc, fl_inv acc <->
  NoDup (map r_path acc) /\ Forall (fun r => r_dir r = false) acc /\
  Forall (fun r => forall e, In e (r_entries r) -> e_action e <> Some Failed) acc.
Proof. intros acc. reflexivity. Qed.

(* per record at most one digest per format, no previous paths *)
Theorem C18_one_digest_per_format : forall gens, fl_inv2 (flatten_records gens).
Proof. exact flatten_records_inv2. Qed.
Print Assumptions C18_one_digest_per_format.

(* scan = the order in which the generations, their file records and their entries are visited; earliest = the first
   entry in that order for the path and format whose action is not `failed`; held = what the flattened list holds *)
Theorem C18_holds_the_earliest_non_failed_digest : forall gens p f,
  held (flatten_records gens) p f = earliest (scan gens) p f.
Proof. exact flatten_keeps_earliest. Qed.
Print Assumptions C18_holds_the_earliest_non_failed_digest.

Theorem C18_source_untouched : forall C cdig t ip ifl,
  fst (flatten C cdig t ip ifl) = t /\ o_ops (snd (flatten C cdig t ip ifl)) = [].
Proof.
  intros C cdig t ip ifl. split.
  - apply (readers_leave_tree (fun _ b => b) (fun _ _ => false) C cdig t).
  - apply (readers_write_nothing (fun _ b => b) (fun _ _ => false) C cdig t).
Qed.
Print Assumptions C18_source_untouched.

(* non-vacuity: a two-generation history with a failed entry and a new format *)
Definition eA := mkEntry Md5 [49%N] (Some Original) None.
Definition eB := mkEntry Md5 [50%N] (Some Failed) None.
Definition eC := mkEntry Sha1 [51%N] (Some Verified) None.
Definition gA := mkGen 1 [mkRecord [[97%N]] false (Some 1%N) [eA] None; mkRecord [[100%N]] true None [] None] None [] [] InPlace.
Definition gB := mkGen 2 [mkRecord [[97%N]] false (Some 1%N) [eB; eC] None] None [] [] InPlace.
Example C18_example : map (fun r => (r_path r, map e_fmt (r_entries r))) (flatten_records [gA; gB]) = [([[97%N]], [Md5; Sha1])].
Proof. reflexivity. Qed.

(* verify -pl: the packing list is loaded as a history of one generation (numbered 1, at the root, no child histories, no
   chain) and then judged exactly like verify: always an exit code, tree and history untouched, 11 > 21 > 10 > 0, altered
   = the bytes no longer hash to the first `original` digest the packing list holds for the path, new = no such entry *)
Theorem C18_verify_pl_total : forall Hb matches C t pl ip ifl, exists c, o_outcome (snd (verify_pl Hb matches C t pl ip ifl)) = Exit c.
Proof. exact verify_pl_total. Qed.
Print Assumptions C18_verify_pl_total.
Theorem C18_verify_pl_source_untouched : forall Hb matches C t pl ip ifl,
  fst (verify_pl Hb matches C t pl ip ifl) = t /\ o_ops (snd (verify_pl Hb matches C t pl ip ifl)) = [] /\
  o_written (snd (verify_pl Hb matches C t pl ip ifl)) = [].
Proof. exact verify_pl_leaves_tree. Qed.
Print Assumptions C18_verify_pl_source_untouched.
Theorem C18_verify_pl_exit_code : forall Hb matches C t g ip ifl,
  let o := snd (verify_pl Hb matches C t (Some g) ip ifl) in
  o_outcome o = Exit (match o_mismatch o, o_new o, o_missing o with
                      | _ :: _, _, _ => 11 | [], _ :: _, _ => 21 | [], [], _ :: _ => 10 | [], [], [] => 0 end)%Z.
Proof. exact verify_pl_exit_selection. Qed.
Print Assumptions C18_verify_pl_exit_code.
Theorem C18_verify_pl_reports : forall Hb matches C t g ip ifl,
  let hs := [pl_history g] in
  let spec := set_patterns (g_patterns g) ip (pattern_file_lines ifl) in
  let files := ev_files (events matches C spec [] t) in
  let o := snd (verify_pl Hb matches C t (Some g) ip ifl) in
  (forall p, In p (o_mismatch o) <->
     exists c e, In (p, c) files /\ reference hs p = Some e /\ e_digest e <> digest_text Hb (e_fmt e) c) /\
  (forall p, In p (o_new o) <-> exists c, In (p, c) files /\ reference hs p = None).
Proof. exact verify_pl_reports. Qed.
Print Assumptions C18_verify_pl_reports.

(* THE ROUND TRIP, END TO END (flat history = no nested child histories, no renames -- the property's scope).
   Seal a tree that has no history (any formats, -n or not, any patterns), run `create` any number of times on the
   untouched tree (any formats, -n or not), then `flatten`.  `verify -pl` of the unchanged tree against the manifest that
   flatten wrote exits 0 -- for every tree, every matcher and every hash primitive.  Composes: the create/verify cycle
   invariant of a flat history (C03), the shape of what create writes (a path's first non-failed digest is `original`,
   folder records carry directory hashes only, the pattern list starts from the defaults: `shape`, kept by every run),
   flatten = earliest non-failed digest per path and format (above), and the judging rule of verify -pl. *)
Theorem C18_seal_creates_flatten_verify_pl : forall Hb matches C cdig ser kids h0 req0 nd0 ip ifl rs doc,
  wf_tree C (Dir None kids) -> load C cdig (Dir None kids) = inl [h0] -> req0 <> [] -> Forall (fun x => fst x <> []) rs ->
  let r0 := create_folder Hb matches C cdig ser (Dir None kids) req0 nd0 false ip ifl in
  let r := run_creates Hb matches C cdig ser (fst r0) rs in
  In ([], doc) (o_written (snd (flatten C cdig (fst r) [] []))) ->
  o_outcome (snd (verify_pl Hb matches C (fst r) (Some doc) [] [])) = Exit 0.
Proof. exact seal_creates_flatten_verify_pl. Qed.
Print Assumptions C18_seal_creates_flatten_verify_pl.

(* the same from any state of the cycle (`flat_state2`: the create/verify invariant plus the shape), and its second
   half: a file the traversal reaches whose bytes were replaced -- in whatever tree the packing list is then verified
   against, so other files may have changed, appeared or gone too -- gives exit 11 and the file is reported.  The
   premise on the hash primitive is the usual one (no collision between the old and the new bytes). *)
Theorem C18_unchanged_tree_passes : forall Hb matches C cdig n old kids doc,
  flat_state2 Hb matches C cdig n old kids ->
  verify_result Hb matches C cdig false (Dir (Some old) kids) [] [] = Some (mkVR 0 [] [] []) ->
  In ([], doc) (o_written (snd (flatten C cdig (Dir (Some old) kids) [] []))) ->
  o_outcome (snd (verify_pl Hb matches C (Dir (Some old) kids) (Some doc) [] [])) = Exit 0.
Proof. exact flat_state_flatten_verify_pl. Qed.
Print Assumptions C18_unchanged_tree_passes.
Theorem C18_altered_tree_fails : forall Hb matches C cdig n old kids doc t' p c c',
  flat_state2 Hb matches C cdig n old kids ->
  verify_result Hb matches C cdig false (Dir (Some old) kids) [] [] = Some (mkVR 0 [] [] []) ->
  In ([], doc) (o_written (snd (flatten C cdig (Dir (Some old) kids) [] []))) ->
  In (p, c) (ev_files (events matches C (set_patterns (latest_patterns (loaded_gens C old)) [] (pattern_file_lines [])) [] (Dir (Some old) kids))) ->
  In (p, c') (ev_files (events matches C (set_patterns (g_patterns doc) [] (pattern_file_lines [])) [] t')) ->
  (forall f, digest_text Hb f c' <> digest_text Hb f c) ->
  let o := snd (verify_pl Hb matches C t' (Some doc) [] []) in
  o_outcome o = Exit 11 /\ In p (o_mismatch o).
Proof. exact flat_state_flatten_verify_pl_altered. Qed.
Print Assumptions C18_altered_tree_fails.
(* the state is kept by every run of create on the untouched tree (so the two theorems above apply after any number of runs) *)
Theorem C18_state_kept : forall Hb matches C cdig ser n old kids req no_dh, flat_state2 Hb matches C cdig n old kids -> req <> [] ->
  let run := create_folder Hb matches C cdig ser (Dir (Some old) kids) req no_dh false [] [] in
  o_outcome (snd run) = Exit 0 /\
  exists old', fst run = Dir (Some old') kids /\ flat_state2 Hb matches C cdig (S n) old' kids /\
    verify_result Hb matches C cdig false (fst run) [] [] = Some (mkVR 0 [] [] []).
Proof. exact flat_cycle2. Qed.
Print Assumptions C18_state_kept.
(* the shape, spelled out *)
Theorem C18_shape_means : forall gens, shape gens <->
  (forall p x, find (fun x => path_eqb (r_path (fst x)) p && match e_action (snd x) with Some Failed => false | _ => true end) (scan gens) = Some x ->
               is_original (snd x) = true) /\
  (forall g r e, In g gens -> In r (g_records g) -> r_dir r = true -> In e (r_entries r) -> e_action e = None) /\
  (latest_patterns gens = [] \/ exists s, latest_patterns gens = default_ignore ++ s).
Proof. intros. reflexivity. Qed.

(* non-vacuity: a concrete tree (a file, a sub-folder with a file), sealed with md5, one more run with sha1, flattened:
   the manifest is written and verify -pl exits 0; with one file's bytes replaced it exits 11 *)
Definition c18_kids : list (text * node unit) := [([97%N], @File unit [1%N; 2%N]); ([98%N], @Dir unit None [([99%N], @File unit [3%N])])].
Definition c18_kids' : list (text * node unit) := [([97%N], @File unit [1%N; 9%N]); ([98%N], @Dir unit None [([99%N], @File unit [3%N])])].
Definition c18_Hb (f : fmt) (b : bytes) : bytes := match f with Md5 => b | _ => 0%N :: b end.
Definition c18_m (spec : list text) (s : text) : bool := false.
Example C18_round_trip_example :
  let r0 := create_folder c18_Hb c18_m unit (fun _ => []) (fun _ => tt) (Dir None c18_kids) [Md5] false false [] [] in
  let r := run_creates c18_Hb c18_m unit (fun _ => []) (fun _ => tt) (fst r0) [([Sha1], false)] in
  match o_written (snd (flatten unit (fun _ => []) (fst r) [] [])) with
  | [([], doc)] =>
      map (fun x => (r_path x, map e_fmt (r_entries x))) (g_records doc) = [([[98%N]; [99%N]], [Md5; Sha1]); ([[97%N]], [Md5; Sha1])] /\
      o_outcome (snd (verify_pl c18_Hb c18_m unit (fst r) (Some doc) [] [])) = Exit 0 /\
      o_outcome (snd (verify_pl c18_Hb c18_m unit (Dir None c18_kids') (Some doc) [] [])) = Exit 11
  | _ => False
  end.
Proof. vm_compute. repeat split. Qed.
