(* C09 -- directory-hash verification detects any change anywhere in the tree.  Statements only.
   PARTIAL: proved, for every tree / history / option combination: verify -dh never ends in an internal error (it is a
   total function that always yields an exit code); the exit code is 12 exactly when some format failed and every
   judged format (the root history's, default c4) is among the failed ones, else 0; a recorded directory entry --
   of a sub-folder in its own history, or the root hash of any generation of the root history, i.e. entries
   directly in the root folder included -- counts as failed exactly when the content or structure hash computed now
   over the non-ignored entries (C07) differs, or the folder is gone.  That the hashes recorded by create are the ones
   recomputed on an unchanged tree is PROVED for flat trees with any number of generations (C09_unchanged_flat_tree_exit_0,
   C09_flat_invariant below); for nested histories it is the lockstep correspondence's job (create and verify -dh call
   the same `dirhash`). *)
From MHL Require Import Model.Commands Gen.Generated Proofs.BaseFacts Proofs.CodecFacts Proofs.DirHashFacts Proofs.VerifyFacts Proofs.SensFacts Proofs.TreeFacts Proofs.HistFacts Proofs.FlatFacts Proofs.FlatDhFacts Proofs.StructFacts Proofs.ReloadFacts Proofs.NestedFacts Proofs.NestedDhFacts Gen.GeneratedFns Proofs.SourceLookupFacts.

Theorem C09_never_aborts : forall Hb matches C cdig t f co ro ip ifl,
  exists c, o_outcome (snd (verify_dh Hb matches C cdig t f co ro ip ifl)) = Exit c.
Proof. exact verify_dh_total. Qed.
Print Assumptions C09_never_aborts.

Theorem C09_exit_code : forall Hb matches C cdig t hs ofmt co ro ip ifl, load C cdig t = inl hs ->
  let spec := set_patterns (latest_patterns (lh_gens (root_hist hs))) ip (pattern_file_lines ifl) in
  o_outcome (snd (verify_dh Hb matches C cdig t ofmt co ro ip ifl)) =
  Exit (match dh_failed Hb matches C hs t ofmt co ro spec with
        | [] => 0
        | failed => if forallb (fun f => memf f failed) (dh_judged hs ofmt) then exit_verification_directories_failed else 0
        end)%Z.
Proof. exact verify_dh_exit. Qed.
Print Assumptions C09_exit_code.
Theorem C09_code_is_12 : exit_verification_directories_failed = 12%Z.
Proof. exact dh_code_is_12. Qed.

(* the lookup of the recorded directory hashes (MHLHistory.find_directory_hash_entries_for_path, the property's fourth anchor) is
   tied to the source on every run: translator/gen.py requires the method's body to be exactly the recorded text
   (shape-locked: the method tags entries by assigning attributes to them, which the model renders as pairs) and emits
   src_find_directory_entries (Gen/GeneratedFns.v); it is the model's find_directory_entries -- every folder record of every
   generation that mentions the path, then for the root the root hashes of every generation that has them, in order *)
Theorem C09_source_directory_hash_lookup_is_the_models : forall gens p, src_find_directory_entries gens p = find_directory_entries gens p.
Proof. exact src_find_directory_entries_is_model. Qed.
Print Assumptions C09_source_directory_hash_lookup_is_the_models.

Theorem C09_entry_fails_iff_hash_differs : forall Hb matches C spec fmts t p es f,
  In f (dh_failures Hb matches C spec fmts t p es) <->
  exists e, In e es /\ e_fmt e = f /\ memf f fmts = true /\
            match get C t p with
            | Some d => match dirhash Hb matches C spec f p d with
                        | Some cs => dh_entry_ok e cs = false
                        | None => True
                        end
            | None => True
            end.
Proof. exact dh_failures_spec. Qed.
Print Assumptions C09_entry_fails_iff_hash_differs.

(* detection of a content change: an entry whose content hash was recorded from the tree before a one-file content
   change (at any depth below the folder) fails afterwards -- or a collision of the primitive is exhibited *)
Theorem C09_content_change_fails_entry : forall Hb matches C, (forall f b, Forall is_byte (Hb f b) /\ length (Hb f b) = width f) ->
  forall spec f p (d d' : node C) e c s cs',
  differ1 (prune matches C spec p d) (prune matches C spec p d') ->
  dirhash Hb matches C spec f p d = Some (c, s) -> dirhash Hb matches C spec f p d' = Some cs' ->
  e_digest e = c -> dh_entry_ok e cs' = false \/ collision Hb f.
Proof. intros Hb matches C Hw. exact (changed_entry_fails Hb matches C Hw). Qed.
Print Assumptions C09_content_change_fails_entry.

(* the same for a RENAME below the folder: an entry whose structure hash was recorded before some file or folder below
   it was renamed fails the comparison afterwards, or an explicit collision of the primitive is exhibited *)
Theorem C09_rename_fails_entry : forall Hb matches C, (forall f b, Forall is_byte (Hb f b) /\ length (Hb f b) = width f) ->
  forall spec f p (d d' : node C) e c s cs',
  renamed1 (prune matches C spec p d) (prune matches C spec p d') ->
  dirhash Hb matches C spec f p d = Some (c, s) -> dirhash Hb matches C spec f p d' = Some cs' ->
  e_struct e = Some s -> dh_entry_ok e cs' = false \/ collision Hb f.
Proof. exact renamed_entry_fails. Qed.
Print Assumptions C09_rename_fails_entry.

(* END TO END, "an unchanged tree gives exit 0", flat trees (one history at the root), any number of generations: seal a
   tree that has no history with any formats, -n or not, any patterns; run create any number of times with any formats
   (-n or not) on the untouched tree; then verify -dh exits 0 whatever its options (-h FORMAT, -co, -ro) -- for every
   tree, matcher and hash primitive.  Every directory entry and every root hash of every generation is the value that
   `dirhash` yields now (Proofs/FlatDhFacts.v: invariant dh_inv, kept by create, implies exit 0). *)
Theorem C09_unchanged_flat_tree_exit_0 : forall Hb matches C cdig ser kids h0 req0 nd0 ip ifl rs ofmt co ro,
  wf_tree C (Dir None kids) -> load C cdig (Dir None kids) = inl [h0] -> req0 <> [] -> Forall (fun x => fst x <> []) rs ->
  let r0 := create_folder Hb matches C cdig ser (Dir None kids) req0 nd0 false ip ifl in
  let r := run_creates Hb matches C cdig ser (fst r0) rs in
  o_outcome (snd (verify_dh Hb matches C cdig (fst r) ofmt co ro [] [])) = Exit 0.
Proof. exact seal_then_sequences_dh. Qed.
Print Assumptions C09_unchanged_flat_tree_exit_0.

(* the invariant behind it, from any flat history: recorded directory entries are the present values => exit 0; and one
   more create run keeps it *)
Theorem C09_flat_invariant : forall Hb matches C cdig ser n old kids,
  flat_state_dh Hb matches C cdig n old kids ->
  (forall ofmt co ro, o_outcome (snd (verify_dh Hb matches C cdig (Dir (Some old) kids) ofmt co ro [] [])) = Exit 0) /\
  (forall req no_dh, req <> [] ->
     let run := create_folder Hb matches C cdig ser (Dir (Some old) kids) req no_dh false [] [] in
     o_outcome (snd run) = Exit 0 /\ exists old', fst run = Dir (Some old') kids /\ flat_state_dh Hb matches C cdig (S n) old' kids).
Proof.
  intros Hb matches C cdig ser n old kids H. split.
  - intros ofmt co ro. apply (flat_state_dh_verifies Hb matches C cdig n old kids ofmt co ro H).
  - intros req no_dh Hreq. apply (flat_cycle_dh Hb matches C cdig ser n old kids req no_dh H Hreq).
Qed.
Print Assumptions C09_flat_invariant.

(* KNOWN FINDING (known_findings.json: dh-missed-change:root-history-has-no-directory-hashes), as a witness in the faithful
   model: the root history holds only a generation without root hash (-n); the nested history at Ab recorded a root hash
   in xxh64 that no longer matches; verify -dh judges by the default format c4, for which nothing is recorded: a format
   failed, yet the exit code is 0. *)
Definition toyHb9 (f : fmt) (b : bytes) : bytes := be_of_N (width f) (fold_left N.add b 7%N).
Definition gAb9 : gen := mkGen 1 [] (Some [mkEntry Xxh64 [49%N] None (Some [50%N])]) [] [] InPlace.
Definition gR9 : gen := mkGen 1 [] None [] [] InPlace.
Definition t9 : node N :=
  Dir (Some (mkHist N [mkMfile N 1 0%N gR9] (Some [mkCentry 1 1 [0%N]])))
      [([65%N; 98%N], Dir (Some (mkHist N [mkMfile N 1 0%N gAb9] (Some [mkCentry 1 1 [0%N]]))) [([120%N], File [1%N])])].
Example C09_root_without_directory_hashes_refuted :
  exists hs, load N (fun c => [c]) t9 = inl hs /\
    In Xxh64 (dh_failed toyHb9 (fun _ _ => false) N hs t9 None false false default_ignore) /\
    o_outcome (snd (verify_dh toyHb9 (fun _ _ => false) N (fun c => [c]) t9 None false false [] [])) = Exit 0.
Proof. eexists. split; [vm_compute; reflexivity|]. split; vm_compute; auto. Qed.

(* ANY NESTING OF HISTORIES, end to end (folder mode, seen from one and the same folder).  `dh_inv_n hs t spec`: every
   directory entry of every generation of EVERY loaded history, and every root hash, is what `dirhash` yields now for that
   folder -- computed from the command's folder, under the effective patterns.  It implies verify -dh = 0 whatever the
   options (C09_nested_invariant_gives_0); it is kept by every run of create on the untouched tree together with the
   create / verify state of C03 (`nstate`), for any number and depth of nested histories -- the run records the
   directory hashes of each folder in the history the folder belongs to, the root folder of a nested history additionally
   in the history above it, and the folder's own hash as the root hash of its history (C09_nested_cycle); hence after any
   number of runs verify -dh exits 0 (C09_nested_sequences).  The invariant is about ONE command folder: a generation
   that was recorded by a run started in a sub-folder enters with the hashes that run computed (same bytes, but patterns
   matched on paths relative to the sub-folder); it satisfies the invariant when no pattern separates the two views. *)
Theorem C09_nested_invariant_gives_0 : forall Hb matches C cdig h0 kids hs ofmt co ro,
  let t := Dir h0 kids in
  load C cdig t = inl hs -> nprev hs ->
  dh_inv_n Hb matches C hs t (set_patterns (latest_patterns (lh_gens (root_hist hs))) [] (pattern_file_lines [])) ->
  o_outcome (snd (verify_dh Hb matches C cdig t ofmt co ro [] [])) = Exit 0.
Proof. exact nested_dh_exit_0. Qed.
Print Assumptions C09_nested_invariant_gives_0.
Theorem C09_nested_cycle : forall Hb matches C cdig ser h0 kids hs req no_dh,
  wf_tree C (Dir h0 kids) -> load C cdig (Dir h0 kids) = inl hs -> req <> [] -> nstate_dh Hb matches C hs (Dir h0 kids) ->
  let run := create_folder Hb matches C cdig ser (Dir h0 kids) req no_dh false [] [] in
  o_outcome (snd run) = Exit 0 /\
  exists h1 kids1 hs', fst run = Dir h1 kids1 /\ wf_tree C (fst run) /\ load C cdig (fst run) = inl hs' /\ nstate_dh Hb matches C hs' (fst run) /\
    forall ofmt co ro, o_outcome (snd (verify_dh Hb matches C cdig (fst run) ofmt co ro [] [])) = Exit 0.
Proof. exact nested_cycle_dh. Qed.
Print Assumptions C09_nested_cycle.
Theorem C09_nested_sequences : forall Hb matches C cdig ser rs h0 kids hs,
  wf_tree C (Dir h0 kids) -> load C cdig (Dir h0 kids) = inl hs -> nstate_dh Hb matches C hs (Dir h0 kids) -> Forall (fun x => fst x <> []) rs ->
  let r := run_creates Hb matches C cdig ser (Dir h0 kids) rs in
  Forall (fun o => o = Exit 0) (snd r) /\
  forall ofmt co ro, o_outcome (snd (verify_dh Hb matches C cdig (fst r) ofmt co ro [] [])) = Exit 0.
Proof. exact nested_sequences_dh. Qed.
Print Assumptions C09_nested_sequences.
(* one run with explicit patterns: the invariant under the patterns the run used *)
Theorem C09_nested_run : forall Hb matches C cdig ser h0 kids hs req no_dh ip ifl,
  let t := Dir h0 kids in
  let spec := set_patterns (latest_patterns (lh_gens (root_hist hs))) ip (pattern_file_lines ifl) in
  wf_tree C t -> load C cdig t = inl hs -> NoDup (latest_patterns (lh_gens (root_hist hs))) ->
  dh_inv_n Hb matches C hs t spec ->
  let run := create_folder Hb matches C cdig ser t req no_dh false ip ifl in
  forall hs', load C cdig (fst run) = inl hs' ->
  dh_inv_n Hb matches C hs' (fst run) (set_patterns (latest_patterns (lh_gens (root_hist hs'))) [] (pattern_file_lines [])).
Proof. exact nested_run_dh. Qed.
Print Assumptions C09_nested_run.

(* non-vacuity: the nested state of Props/C03.v (folder `a` sealed on its own with directory hashes, beside a second file;
   the root has no history yet) satisfies the invariant; after the run at the root verify -dh exits 0.  (A small hash
   primitive keeps the evaluation inside the kernel's virtual machine short.) *)
Definition c09_cdig (c : N) : text := [c].
Definition c09_ser (g : gen) : N := (g_no g + 10)%N.
Definition c09_m (spec : list text) (s : text) : bool := false.
Definition c09_Hb (f : fmt) (b : bytes) : bytes := match f with Md5 => b | _ => 0%N :: b end.
Definition c09_t : node N := Eval vm_compute in
  Dir None [([97%N], fst (create_folder c09_Hb c09_m N c09_cdig c09_ser (Dir None [([102%N], @File N [7%N])]) [Md5] false false [] []));
            ([103%N], @File N [8%N])].
Definition c09_hs : list lhist := Eval vm_compute in match load N c09_cdig c09_t with inl l => l | inr _ => [] end.
Example C09_nested_state_nonvacuous :
  load N c09_cdig c09_t = inl c09_hs /\ wf_tree N c09_t /\ nstate_dh c09_Hb c09_m N c09_hs c09_t /\
  (exists h g es, In h c09_hs /\ In g (lh_gens h) /\ g_root g = Some es /\ es <> []) /\
  let run := create_folder c09_Hb c09_m N c09_cdig c09_ser c09_t [Sha1] false false [] [] in
  o_outcome (snd run) = Exit 0 /\
  o_outcome (snd (verify_dh c09_Hb c09_m N c09_cdig (fst run) None false false [] [])) = Exit 0.
Proof.
  split; [vm_compute; reflexivity|]. split.
  { unfold c09_t. constructor; [cbn; repeat constructor; cbn; intuition discriminate|].
    repeat constructor; cbn; intuition discriminate. }
  split.
  { split.
    - split; [apply nprev_b_ok; vm_compute; reflexivity|]. split; [apply (ncur_b_ok c09_Hb N); vm_compute; reflexivity|].
      split; [vm_compute; constructor|]. split; vm_compute; reflexivity.
    - apply dh_inv_n_b_ok. vm_compute. reflexivity. }
  split; [|vm_compute; split; reflexivity].
  unfold c09_hs. eexists. eexists. eexists. split; [left; reflexivity|]. split; [left; reflexivity|]. split; [reflexivity|discriminate].
Qed.
