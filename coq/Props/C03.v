(* C03 -- verification reports every discrepancy and never a false one.  Statements only.
   PARTIAL: proved, for every tree / history / pattern list / matcher / primitive: (1) which visited files verify
   names as altered and as new -- exactly those whose bytes no longer hash to the FIRST `original` digest recorded for
   them, resp. those without such a reference (so an unaltered file is never named: no false alarm; mtimes do not
   occur in the model at all); (2) the exit-code selection of verify (11 > 21 > 10 > 0), diff (10 > 21 > 0) and create
   (11 > 10 > 30 > 0) from the reported sets; (3) what is visited is exactly the non-ignored part of the tree (C02/C12
   traversal theorems) and ignored paths are filtered from the missing report.  The end-to-end statement ("on a tree that is unchanged since it was sealed, create, verify and diff all exit 0,
   whatever formats or ignore patterns were used") is proved for flat trees (one history at the root, no renames) with
   ANY number of generations: C03_unchanged_tree_all_exit_0 and C03_flat_cycle below; for nested histories and
   renames the composition is carried by the lockstep correspondence. *)
From MHL Require Import Model.Commands Gen.Generated Proofs.BaseFacts Proofs.TreeFacts Proofs.VerifyFacts Proofs.FreshFacts Proofs.HistFacts Proofs.FlatFacts Proofs.ReloadFacts Proofs.NestedFacts Proofs.SfNestedFacts Proofs.SfAlteredFacts Gen.GeneratedFns Proofs.SourceExitFacts.

Theorem C03_verify_reports_exactly : forall Hb matches C cdig t ipats ifile hs,
  load C cdig t = inl hs -> lh_gens (root_hist hs) <> [] ->
  let spec := set_patterns (latest_patterns (lh_gens (root_hist hs))) ipats (pattern_file_lines ifile) in
  let files := ev_files (events matches C spec [] t) in
  let o := snd (verify_like Hb matches C cdig false t None ipats ifile) in
  (forall p, In p (o_mismatch o) <->
     exists c e, In (p, c) files /\ reference hs p = Some e /\ e_digest e <> digest_text Hb (e_fmt e) c) /\
  (forall p, In p (o_new o) <-> exists c, In (p, c) files /\ reference hs p = None).
Proof. exact verify_reports. Qed.
Print Assumptions C03_verify_reports_exactly.

Theorem C03_verify_exit_code : forall Hb matches C cdig t ipats ifile r,
  verify_result Hb matches C cdig false t ipats ifile = Some r ->
  vr_code r = (match vr_mismatch r, vr_new r, vr_missing r with
               | _ :: _, _, _ => 11 | [], _ :: _, _ => 21 | [], [], _ :: _ => 10 | [], [], [] => 0 end)%Z.
Proof. exact verify_exit_selection. Qed.
Print Assumptions C03_verify_exit_code.

Theorem C03_diff_exit_code : forall Hb matches C cdig t ipats ifile r,
  verify_result Hb matches C cdig true t ipats ifile = Some r ->
  vr_code r = (match vr_missing r, vr_new r with _ :: _, _ => 10 | [], _ :: _ => 21 | [], [] => 0 end)%Z.
Proof. exact diff_exit_selection. Qed.
Print Assumptions C03_diff_exit_code.

Theorem C03_create_exit_code : forall Hb matches C cdig ser t req no_dh dr ip ifl hs, load C cdig t = inl hs ->
  let o := snd (create_folder Hb matches C cdig ser t req no_dh dr ip ifl) in
  (o_outcome o = Abort \/ o_outcome o = Exit 11 \/ o_outcome o = Exit 10 \/ o_outcome o = Exit 30 \/ o_outcome o = Exit 0) /\
  (o_outcome o = Exit 0 -> o_missing o = []) /\
  (o_outcome o = Exit 30 -> o_missing o = []) /\
  (o_outcome o = Exit 10 -> o_missing o <> []).
Proof. exact create_exit_selection. Qed.
Print Assumptions C03_create_exit_code.

(* never a false alarm: a tree consistent with its loaded histories (every visited file hashes to the first original
   digest recorded for it; every recorded path is visited or ignored) verifies and diffs with exit 0 and empty reports,
   whatever formats, patterns or nesting *)
Theorem C03_consistent_tree_verifies : forall Hb matches C cdig t hs ipats ifile,
  load C cdig t = inl hs -> lh_gens (root_hist hs) <> [] ->
  consistent_tree Hb matches C hs t (set_patterns (latest_patterns (lh_gens (root_hist hs))) ipats (pattern_file_lines ifile)) ->
  verify_result Hb matches C cdig false t ipats ifile = Some (mkVR 0 [] [] []) /\
  verify_result Hb matches C cdig true t ipats ifile = Some (mkVR 0 [] [] []).
Proof. exact consistent_verifies. Qed.
Print Assumptions C03_consistent_tree_verifies.

(* END TO END, base case of the first sentence of the property: seal a well-formed tree that has no history anywhere
   (any format request, -n or not, any patterns), then verify and diff the untouched result: exit 0, nothing reported --
   for every tree, matcher and hash primitive.  (Composes: traversal exactness, the session fold, validation, commit,
   the loader on the resulting tree, stability of the written pattern list, and the verify fold.) *)
Theorem C03_seal_then_verify_fresh_tree : forall Hb matches C cdig ser kids h0 req no_dh ip ifl,
  wf_tree C (Dir None kids) -> load C cdig (Dir None kids) = inl [h0] -> req <> [] ->
  let run := create_folder Hb matches C cdig ser (Dir None kids) req no_dh false ip ifl in
  o_outcome (snd run) <> Abort ->
  verify_result Hb matches C cdig false (fst run) [] [] = Some (mkVR 0 [] [] []) /\
  verify_result Hb matches C cdig true (fst run) [] [] = Some (mkVR 0 [] [] []).
Proof. exact fresh_create_then_verify. Qed.
Print Assumptions C03_seal_then_verify_fresh_tree.

(* END TO END, any number of generations (flat tree: one history, at the root): seal a tree that has no history with
   any formats, -n or not, any patterns; then run `create` any number of times with any formats (-n or not) on the
   untouched tree.  EVERY run exits 0, and verify and diff on the result exit 0 with empty reports -- for every tree,
   matcher and hash primitive.  (Composes everything above plus: the per-file decision on consistent histories, the
   validation of the session, commit onto a well-formed history, reloading, pattern-list stability.) *)
Theorem C03_unchanged_tree_all_exit_0 : forall Hb matches C cdig ser kids h0 req0 nd0 ip ifl rs,
  wf_tree C (Dir None kids) -> load C cdig (Dir None kids) = inl [h0] -> req0 <> [] -> Forall (fun x => fst x <> []) rs ->
  let r0 := create_folder Hb matches C cdig ser (Dir None kids) req0 nd0 false ip ifl in
  let r := run_creates Hb matches C cdig ser (fst r0) rs in
  o_outcome (snd r0) = Exit 0 /\ Forall (fun o => o = Exit 0) (snd r) /\
  verify_result Hb matches C cdig false (fst r) [] [] = Some (mkVR 0 [] [] []) /\
  verify_result Hb matches C cdig true (fst r) [] [] = Some (mkVR 0 [] [] []).
Proof. exact seal_then_sequences. Qed.
Print Assumptions C03_unchanged_tree_all_exit_0.

(* the hypotheses are satisfiable: a concrete tree with a sub-folder, no history anywhere *)
Example C03_unchanged_tree_nonvacuous :
  let kids := [([97%N], @File unit [1%N; 2%N]); ([98%N], @Dir unit None [([99%N], @File unit [3%N])])] in
  wf_tree unit (Dir None kids) /\ load unit (fun _ => []) (Dir None kids) = inl [lhist_of unit [] None None].
Proof.
  cbn zeta. split; [|reflexivity].
  constructor; [cbn; repeat constructor; cbn; intuition discriminate|].
  repeat constructor; cbn; intuition.
Qed.

(* the same as an invariant, from ANY flat history (not only one this tool wrote from scratch): `flat_state n old kids`
   says the history is well-formed with n generations, has no renames and no nested references, every recorded entry
   of a path that is a file now is that file's digest, and nothing recorded is missing.  Then `create` with any
   formats exits 0, the result satisfies the invariant again with n+1 generations, and verify / diff exit 0. *)
Theorem C03_flat_cycle : forall Hb matches C cdig ser n old kids req no_dh,
  flat_state Hb matches C cdig n old kids -> req <> [] ->
  let run := create_folder Hb matches C cdig ser (Dir (Some old) kids) req no_dh false [] [] in
  o_outcome (snd run) = Exit 0 /\
  exists old', fst run = Dir (Some old') kids /\ flat_state Hb matches C cdig (S n) old' kids /\
    verify_result Hb matches C cdig false (fst run) [] [] = Some (mkVR 0 [] [] []) /\
    verify_result Hb matches C cdig true (fst run) [] [] = Some (mkVR 0 [] [] []).
Proof. exact flat_cycle. Qed.
Print Assumptions C03_flat_cycle.

(* files and folders that appear between runs do not disturb what is recorded: the invariant on the recorded part
   survives any change of the tree that keeps the bytes of every recorded file *)
Theorem C03_unrecorded_changes_keep_invariant : forall Hb C cdig n old kids kids',
  flat_ok Hb C cdig n old kids -> keeps_recorded C old kids kids' -> flat_ok Hb C cdig n old kids'.
Proof. exact flat_ok_grow. Qed.
Print Assumptions C03_unrecorded_changes_keep_invariant.

(* DETECTION, relative to the loaded histories and whatever the tree looks like now: an altered file is named and gives 11;
   an unrecorded file is named and gives 21 unless something was altered; a recorded path that is neither visited nor
   ignored is named and gives a non-zero code -- 10 unless 11 / 21 take precedence *)
Theorem C03_altered_file_detected : forall Hb matches C cdig t hs ipats ifile p c e r,
  load C cdig t = inl hs ->
  In (p, c) (ev_files (events matches C (set_patterns (latest_patterns (lh_gens (root_hist hs))) ipats (pattern_file_lines ifile)) [] t)) ->
  reference hs p = Some e -> e_digest e <> digest_text Hb (e_fmt e) c ->
  verify_result Hb matches C cdig false t ipats ifile = Some r ->
  vr_code r = 11%Z /\ In p (vr_mismatch r).
Proof. exact altered_file_detected. Qed.
Print Assumptions C03_altered_file_detected.
Theorem C03_new_file_detected : forall Hb matches C cdig t hs ipats ifile p c r,
  load C cdig t = inl hs ->
  In (p, c) (ev_files (events matches C (set_patterns (latest_patterns (lh_gens (root_hist hs))) ipats (pattern_file_lines ifile)) [] t)) ->
  reference hs p = None ->
  verify_result Hb matches C cdig false t ipats ifile = Some r ->
  In p (vr_new r) /\ (vr_code r = 11%Z \/ vr_code r = 21%Z) /\ (vr_mismatch r = [] -> vr_code r = 21%Z).
Proof. exact new_file_detected. Qed.
Print Assumptions C03_new_file_detected.
Theorem C03_missing_entry_detected : forall Hb matches C cdig t hs ipats ifile q r,
  load C cdig t = inl hs ->
  let spec := set_patterns (latest_patterns (lh_gens (root_hist hs))) ipats (pattern_file_lines ifile) in
  In q (expected_paths hs) -> ~ In q (visited (events matches C spec [] t)) -> ignored matches spec q = false ->
  verify_result Hb matches C cdig false t ipats ifile = Some r ->
  In q (vr_missing r) /\ vr_code r <> 0%Z /\ (vr_mismatch r = [] -> vr_new r = [] -> vr_code r = 10%Z).
Proof. exact missing_entry_detected. Qed.
Print Assumptions C03_missing_entry_detected.

(* the exit codes named by the property: obligations on the constants regenerated from errors.py *)
(* DETECTION END TO END on a flat tree (one history at the root, any number n >= 1 of generations, no renames): the
   history `old` was consistent with the tree `kids` (flat_ok -- e.g. any state reached by C03_unchanged_tree_all_exit_0
   or C03_flat_cycle) and the tree is now `kids'`.  Section hypotheses of Proofs/FlatFacts.v (Changed) appear here as
   premises.  "or a collision": the premise digest f c' <> digest f c is exactly the statement that the old and the
   new bytes are not a collision of the primitive in the format that is compared. *)
Theorem C03_flat_altered_file_verify_11 : forall Hb matches C cdig n old kids kids',
  flat_ok Hb C cdig n old kids -> wf_tree C (Dir (Some old) kids') ->
  load C cdig (Dir (Some old) kids') = inl [lhist_of C [] None (Some old)] -> n <> 0 ->
  forall ipats ifile p c c' e,
  get C (Dir (Some old) kids) p = Some (File c) -> find_original (loaded_gens C old) p = Some e ->
  In (p, c') (ev_files (events matches C (set_patterns (latest_patterns (loaded_gens C old)) ipats (pattern_file_lines ifile)) [] (Dir (Some old) kids'))) ->
  digest_text Hb (e_fmt e) c' <> digest_text Hb (e_fmt e) c ->
  exists r, verify_result Hb matches C cdig false (Dir (Some old) kids') ipats ifile = Some r /\ vr_code r = 11%Z /\ In p (vr_mismatch r).
Proof. intros; eapply flat_altered_detected; eauto. Qed.
Print Assumptions C03_flat_altered_file_verify_11.

Theorem C03_flat_altered_file_create_11 : forall Hb matches C cdig n old kids kids',
  flat_ok Hb C cdig n old kids -> wf_tree C (Dir (Some old) kids') ->
  load C cdig (Dir (Some old) kids') = inl [lhist_of C [] None (Some old)] ->
  forall ser req no_dh ip ifl p c c' f e0,
  get C (Dir (Some old) kids) p = Some (File c) -> find_original (loaded_gens C old) p <> None ->
  In f req -> find_first (loaded_gens C old) p f = Some e0 ->
  In (p, c') (ev_files (events matches C (set_patterns (latest_patterns (loaded_gens C old)) ip (pattern_file_lines ifl)) [] (Dir (Some old) kids'))) ->
  digest_text Hb f c' <> digest_text Hb f c ->
  o_outcome (snd (create_folder Hb matches C cdig ser (Dir (Some old) kids') req no_dh false ip ifl)) = Exit 11.
Proof. intros; eapply flat_altered_create_11; eauto. Qed.
Print Assumptions C03_flat_altered_file_create_11.

Theorem C03_flat_new_file_verify_21 : forall Hb matches C cdig n old kids kids',
  flat_ok Hb C cdig n old kids -> load C cdig (Dir (Some old) kids') = inl [lhist_of C [] None (Some old)] -> n <> 0 ->
  forall ipats ifile p c',
  find_original (loaded_gens C old) p = None ->
  In (p, c') (ev_files (events matches C (set_patterns (latest_patterns (loaded_gens C old)) ipats (pattern_file_lines ifile)) [] (Dir (Some old) kids'))) ->
  exists r, verify_result Hb matches C cdig false (Dir (Some old) kids') ipats ifile = Some r /\
    In p (vr_new r) /\ (vr_code r = 11%Z \/ vr_code r = 21%Z) /\ (vr_mismatch r = [] -> vr_code r = 21%Z).
Proof. intros; eapply flat_new_detected; eauto. Qed.
Print Assumptions C03_flat_new_file_verify_21.

Theorem C03_flat_new_file_diff_21 : forall Hb matches C cdig n old kids kids',
  flat_ok Hb C cdig n old kids -> load C cdig (Dir (Some old) kids') = inl [lhist_of C [] None (Some old)] -> n <> 0 ->
  forall ipats ifile p c',
  find_original (loaded_gens C old) p = None ->
  In (p, c') (ev_files (events matches C (set_patterns (latest_patterns (loaded_gens C old)) ipats (pattern_file_lines ifile)) [] (Dir (Some old) kids'))) ->
  exists r, verify_result Hb matches C cdig true (Dir (Some old) kids') ipats ifile = Some r /\
    In p (vr_new r) /\ (vr_code r = 10%Z \/ vr_code r = 21%Z) /\ (vr_missing r = [] -> vr_code r = 21%Z).
Proof. intros; eapply flat_new_detected_diff; eauto. Qed.
Print Assumptions C03_flat_new_file_diff_21.

Theorem C03_flat_removed_entry_verify_nonzero : forall Hb matches C cdig n old kids kids',
  flat_ok Hb C cdig n old kids -> wf_tree C (Dir (Some old) kids') ->
  load C cdig (Dir (Some old) kids') = inl [lhist_of C [] None (Some old)] -> n <> 0 ->
  forall ipats ifile g r0,
  In g (loaded_gens C old) -> In r0 (g_records g) -> get C (Dir (Some old) kids') (r_path r0) = None ->
  ignored matches (set_patterns (latest_patterns (loaded_gens C old)) ipats (pattern_file_lines ifile)) (r_path r0) = false ->
  exists r, verify_result Hb matches C cdig false (Dir (Some old) kids') ipats ifile = Some r /\
    In (r_path r0) (vr_missing r) /\ vr_code r <> 0%Z /\ (vr_mismatch r = [] -> vr_new r = [] -> vr_code r = 10%Z).
Proof. intros; eapply flat_removed_detected; eauto. Qed.
Print Assumptions C03_flat_removed_entry_verify_nonzero.

Theorem C03_flat_removed_entry_diff_10 : forall Hb matches C cdig n old kids kids',
  flat_ok Hb C cdig n old kids -> wf_tree C (Dir (Some old) kids') ->
  load C cdig (Dir (Some old) kids') = inl [lhist_of C [] None (Some old)] -> n <> 0 ->
  forall ipats ifile g r0,
  In g (loaded_gens C old) -> In r0 (g_records g) -> get C (Dir (Some old) kids') (r_path r0) = None ->
  ignored matches (set_patterns (latest_patterns (loaded_gens C old)) ipats (pattern_file_lines ifile)) (r_path r0) = false ->
  exists r, verify_result Hb matches C cdig true (Dir (Some old) kids') ipats ifile = Some r /\ In (r_path r0) (vr_missing r) /\ vr_code r = 10%Z.
Proof. intros; eapply flat_removed_detected_diff; eauto. Qed.
Print Assumptions C03_flat_removed_entry_diff_10.

Theorem C03_flat_removed_entry_create_10 : forall Hb matches C cdig n old kids kids',
  flat_ok Hb C cdig n old kids -> wf_tree C (Dir (Some old) kids') ->
  load C cdig (Dir (Some old) kids') = inl [lhist_of C [] None (Some old)] ->
  forall ser req no_dh ip ifl g r0,
  In g (loaded_gens C old) -> In r0 (g_records g) -> get C (Dir (Some old) kids') (r_path r0) = None ->
  ignored matches (set_patterns (latest_patterns (loaded_gens C old)) ip (pattern_file_lines ifl)) (r_path r0) = false ->
  let o := snd (create_folder Hb matches C cdig ser (Dir (Some old) kids') req no_dh false ip ifl) in
  o_outcome o = Exit 11 \/ (o_outcome o = Exit 10 /\ In (r_path r0) (o_missing o)).
Proof. intros; eapply flat_removed_create; eauto. Qed.
Print Assumptions C03_flat_removed_entry_create_10.

(* a create run over a flat tree never aborts, whatever the history holds and whatever changed in the tree: each event
   of a well-formed tree has its own path, so each record holds one file's seal decision, which always passes
   _validate_new_hash_list (a `new` entry comes with a `verified` one and never with a `failed` one) *)
Theorem C03_flat_create_never_aborts : forall Hb matches C cdig ser h0, lh_root h0 = [] -> lh_parent h0 = None ->
  forall t req no_dh ip ifl, wf_tree C t -> is_dir C t = true -> load C cdig t = inl [h0] ->
  o_outcome (snd (create_folder Hb matches C cdig ser t req no_dh false ip ifl)) <> Abort.
Proof. exact create_flat_never_aborts. Qed.
Print Assumptions C03_flat_create_never_aborts.

(* create exits 11 exactly when some visited file has a failed format (general: any nesting), unless it aborts *)
Theorem C03_create_exit_11_iff : forall Hb matches C cdig ser t req no_dh ip ifl hs, load C cdig t = inl hs ->
  let spec := set_patterns (latest_patterns (lh_gens (root_hist hs))) ip (pattern_file_lines ifl) in
  let o := snd (create_folder Hb matches C cdig ser t req no_dh false ip ifl) in
  o_outcome o = Abort \/
  (o_outcome o = Exit 11 <-> exists x, In x (ev_files (events matches C spec [] t)) /\ file_failures Hb hs (sort_fmts req) x <> 0).
Proof. exact create_exit_11_iff. Qed.
Print Assumptions C03_create_exit_11_iff.

(* the reading commands always end with an exit code (any tree, any nesting, any state of the histories): an internal
   error of verify, diff, info, info -sf or flatten on the real tool is therefore a disagreement with the model *)
Theorem C03_readers_always_end_with_an_exit_code : forall Hb matches C cdig t,
  (forall d only ip ifl, exists c, o_outcome (snd (verify_like Hb matches C cdig d t only ip ifl)) = Exit c) /\
  (exists c, o_outcome (snd (info C cdig t)) = Exit c) /\ (forall file, exists c, o_outcome (snd (info_sf C cdig t file)) = Exit c) /\
  (forall ip ifl, exists c, o_outcome (snd (flatten C cdig t ip ifl)) = Exit c).
Proof. exact readers_total. Qed.
Print Assumptions C03_readers_always_end_with_an_exit_code.

Theorem C03_codes : exit_completeness = 10%Z /\ exit_verification_failed = 11%Z /\ exit_new_files_found = 21%Z /\ exit_single_file_not_found = 20%Z.
Proof. repeat split; reflexivity. Qed.

(* ANY NESTING OF HISTORIES (folder mode, no rename detection).  `nstate hs t`, for the list `load` returns on tree t: no
   record has a previous path; every recorded digest of a path that is a file now is that file's digest; nothing recorded
   is missing under the recorded patterns; every child history the root's latest generation refers to is there; the
   pattern list holds nothing twice.  From such a state -- however many histories are nested however deep, whatever they
   hold -- `create` with any formats (-n or not) on the untouched tree exits 0, leaves such a state again, verify and diff
   on the result exit 0 with empty reports, and every history only grew (`ext`, C06); hence by induction any number of
   runs.  The run itself never aborts on ANY tree (C03_nested_create_never_aborts: every record of every history's new
   generation stems from exactly one traversal event, so its validation cannot fail).
   Proofs/NestedFacts.v: the session after the traversal record by record for the list of loaded histories
   (`fold_events_sinv`), commit + reload (Proofs/ReloadFacts.v), the references after the run (`post_reference`),
   completeness and references to child histories after the run. *)
Theorem C03_nested_create_never_aborts : forall Hb matches C cdig ser h0 kids hs req no_dh ip ifl,
  wf_tree C (Dir h0 kids) -> load C cdig (Dir h0 kids) = inl hs ->
  o_outcome (snd (create_folder Hb matches C cdig ser (Dir h0 kids) req no_dh false ip ifl)) <> Abort.
Proof. exact create_nested_never_aborts. Qed.
Print Assumptions C03_nested_create_never_aborts.
Theorem C03_nested_unchanged_tree_cycle : forall Hb matches C cdig ser h0 kids hs req no_dh,
  wf_tree C (Dir h0 kids) -> load C cdig (Dir h0 kids) = inl hs -> req <> [] -> nstate Hb matches C hs (Dir h0 kids) ->
  let run := create_folder Hb matches C cdig ser (Dir h0 kids) req no_dh false [] [] in
  o_outcome (snd run) = Exit 0 /\
  exists h1 kids1 hs', fst run = Dir h1 kids1 /\ wf_tree C (fst run) /\ load C cdig (fst run) = inl hs' /\ nstate Hb matches C hs' (fst run) /\
    Forall2 (ext C cdig ser) hs hs' /\
    verify_result Hb matches C cdig false (fst run) [] [] = Some (mkVR 0 [] [] []) /\
    verify_result Hb matches C cdig true (fst run) [] [] = Some (mkVR 0 [] [] []).
Proof. exact nested_cycle. Qed.
Print Assumptions C03_nested_unchanged_tree_cycle.
Theorem C03_nested_unchanged_tree_sequences : forall Hb matches C cdig ser rs h0 kids hs,
  wf_tree C (Dir h0 kids) -> load C cdig (Dir h0 kids) = inl hs -> nstate Hb matches C hs (Dir h0 kids) -> Forall (fun x => fst x <> []) rs ->
  let r := run_creates Hb matches C cdig ser (Dir h0 kids) rs in
  Forall (fun o => o = Exit 0) (snd r) /\
  exists hs', load C cdig (fst r) = inl hs' /\ Forall2 (ext C cdig ser) hs hs' /\
    (rs <> [] -> verify_result Hb matches C cdig false (fst r) [] [] = Some (mkVR 0 [] [] []) /\
                 verify_result Hb matches C cdig true (fst r) [] [] = Some (mkVR 0 [] [] [])).
Proof. exact nested_sequences. Qed.
Print Assumptions C03_nested_unchanged_tree_sequences.
(* with explicit ignore patterns on the run (the state is then described under the patterns the run uses) *)
Theorem C03_nested_run : forall Hb matches C cdig ser h0 kids hs req no_dh ip ifl,
  let t := Dir h0 kids in
  let spec := set_patterns (latest_patterns (lh_gens (root_hist hs))) ip (pattern_file_lines ifl) in
  wf_tree C t -> load C cdig t = inl hs -> req <> [] ->
  nprev hs -> ncur Hb C hs t -> NoDup (latest_patterns (lh_gens (root_hist hs))) ->
  missing matches spec (diff_paths (expected_paths hs) (visited (events matches C spec [] t))) = [] ->
  missing_history_folders C hs t = [] ->
  let run := create_folder Hb matches C cdig ser t req no_dh false ip ifl in
  o_outcome (snd run) = Exit 0 /\
  exists h1 kids1 hs', fst run = Dir h1 kids1 /\ wf_tree C (fst run) /\ load C cdig (fst run) = inl hs' /\ nstate Hb matches C hs' (fst run) /\
    Forall2 (ext C cdig ser) hs hs' /\
    verify_result Hb matches C cdig false (fst run) [] [] = Some (mkVR 0 [] [] []) /\
    verify_result Hb matches C cdig true (fst run) [] [] = Some (mkVR 0 [] [] []).
Proof. exact nested_run. Qed.
Print Assumptions C03_nested_run.

(* detection on nested trees, end to end: the histories describe tree t (every recorded digest current); in a later tree
   t2 with the same histories a recorded file has other bytes: verify names it and exits 11 -- unless the two contents
   collide in the reference's format *)
Theorem C03_nested_altered_file_detected : forall Hb matches C cdig h0 kids hs t2 ipats ifile p c c' e r,
  wf_tree C (Dir h0 kids) -> load C cdig (Dir h0 kids) = inl hs -> nprev hs -> ncur Hb C hs (Dir h0 kids) ->
  get C (Dir h0 kids) p = Some (File c) -> reference hs p = Some e ->
  load C cdig t2 = inl hs ->
  In (p, c') (ev_files (events matches C (set_patterns (latest_patterns (lh_gens (root_hist hs))) ipats (pattern_file_lines ifile)) [] t2)) ->
  digest_text Hb (e_fmt e) c' <> digest_text Hb (e_fmt e) c ->
  verify_result Hb matches C cdig false t2 ipats ifile = Some r ->
  vr_code r = 11%Z /\ In p (vr_mismatch r).
Proof. exact nested_altered_detected. Qed.
Print Assumptions C03_nested_altered_file_detected.

(* ... a file its history has never recorded is named as new; an entry some generation of some history recorded, gone
   from the tree and not ignored, is named as missing *)
Theorem C03_nested_new_file_detected : forall Hb matches C cdig h0 kids hs ipats ifile p c r,
  load C cdig (Dir h0 kids) = inl hs -> nprev hs ->
  In (p, c) (ev_files (events matches C (set_patterns (latest_patterns (lh_gens (root_hist hs))) ipats (pattern_file_lines ifile)) [] (Dir h0 kids))) ->
  find_original (lh_gens (route_to hs p)) (strip_prefix (lh_root (route_to hs p)) p) = None ->
  verify_result Hb matches C cdig false (Dir h0 kids) ipats ifile = Some r ->
  In p (vr_new r) /\ (vr_code r = 11%Z \/ vr_code r = 21%Z) /\ (vr_mismatch r = [] -> vr_code r = 21%Z).
Proof. exact nested_new_detected. Qed.
Print Assumptions C03_nested_new_file_detected.
Theorem C03_nested_removed_entry_detected : forall Hb matches C cdig h0 kids hs ipats ifile h g rec r,
  load C cdig (Dir h0 kids) = inl hs -> nprev hs ->
  let spec := set_patterns (latest_patterns (lh_gens (root_hist hs))) ipats (pattern_file_lines ifile) in
  In h hs -> In g (lh_gens h) -> In rec (g_records g) ->
  ~ In (lh_root h ++ r_path rec) (visited (events matches C spec [] (Dir h0 kids))) -> ignored matches spec (lh_root h ++ r_path rec) = false ->
  verify_result Hb matches C cdig false (Dir h0 kids) ipats ifile = Some r ->
  In (lh_root h ++ r_path rec) (vr_missing r) /\ vr_code r <> 0%Z /\ (vr_mismatch r = [] -> vr_new r = [] -> vr_code r = 10%Z).
Proof. exact nested_removed_detected. Qed.
Print Assumptions C03_nested_removed_entry_detected.

(* create -sf over any nesting: the run never aborts, whatever is named (every named file is sealed once, in the history it
   belongs to, so each record holds one decision); and when every recorded digest is current it exits 0 *)
Theorem C03_nested_sf_never_aborts : forall Hb matches C cdig ser h0 kids hs req sf ip ifl,
  wf_tree C (Dir h0 kids) -> load C cdig (Dir h0 kids) = inl hs ->
  o_outcome (snd (create_sf Hb matches C cdig ser (Dir h0 kids) req sf ip ifl)) <> Abort.
Proof. exact create_sf_nested_never_aborts. Qed.
Print Assumptions C03_nested_sf_never_aborts.
Theorem C03_nested_sf_unchanged_exit_0 : forall Hb matches C cdig ser h0 kids hs req sf ip ifl,
  wf_tree C (Dir h0 kids) -> load C cdig (Dir h0 kids) = inl hs -> nprev hs -> ncur Hb C hs (Dir h0 kids) ->
  o_outcome (snd (create_sf Hb matches C cdig ser (Dir h0 kids) req sf ip ifl)) = Exit 0.
Proof. exact create_sf_nested_unchanged_exit_0. Qed.
Print Assumptions C03_nested_sf_unchanged_exit_0.

(* ... and the detection half of the named-files form: a file at or below a named path (sp) that is recorded in the history
   it belongs to, and whose recorded digests are all out of date, makes the run exit 11 -- whichever formats are asked for
   (recorded for that file or not; the command reads its verdict from the first requested format only, and this says that
   is enough), however deep the file sits below the named folder, and in whichever nested history it is recorded *)
Theorem C03_nested_sf_altered_exit_11 : forall Hb matches C cdig ser h0 kids hs req sf ip ifl sp p c,
  wf_tree C (Dir h0 kids) -> load C cdig (Dir h0 kids) = inl hs -> req <> [] ->
  In sp sf ->
  In (p, c) (sf_files matches C (set_patterns (latest_patterns (lh_gens (root_hist hs))) ip (pattern_file_lines ifl)) (Dir h0 kids) sp) ->
  find_original (lh_gens (route_to hs p)) (strip_prefix (lh_root (route_to hs p)) p) <> None ->
  (forall f e, find_first (lh_gens (route_to hs p)) (strip_prefix (lh_root (route_to hs p)) p) f = Some e -> e_digest e <> digest_text Hb f c) ->
  o_outcome (snd (create_sf Hb matches C cdig ser (Dir h0 kids) req sf ip ifl)) = Exit 11.
Proof. exact create_sf_nested_altered_exit_11. Qed.
Print Assumptions C03_nested_sf_altered_exit_11.
(* the same for create in folder mode over any nesting: one such file anywhere among the files the run visits *)
Theorem C03_nested_create_altered_exit_11 : forall Hb matches C cdig ser h0 kids hs req no_dh ip ifl p c,
  wf_tree C (Dir h0 kids) -> load C cdig (Dir h0 kids) = inl hs -> req <> [] ->
  In (p, c) (ev_files (events matches C (set_patterns (latest_patterns (lh_gens (root_hist hs))) ip (pattern_file_lines ifl)) [] (Dir h0 kids))) ->
  find_original (lh_gens (route_to hs p)) (strip_prefix (lh_root (route_to hs p)) p) <> None ->
  (forall f e, find_first (lh_gens (route_to hs p)) (strip_prefix (lh_root (route_to hs p)) p) f = Some e -> e_digest e <> digest_text Hb f c) ->
  o_outcome (snd (create_folder Hb matches C cdig ser (Dir h0 kids) req no_dh false ip ifl)) = Exit 11.
Proof. exact create_nested_altered_exit_11. Qed.
Print Assumptions C03_nested_create_altered_exit_11.
(* never a false one, on ANY tree the histories of which load (altered, extended, reduced, nested or not): when create -sf
   or create exits 11, some file among those it worked on is recorded, in the history it belongs to, with a digest that is
   not the digest of its present content *)
Theorem C03_sf_exit_11_is_never_a_false_alarm : forall Hb matches C cdig ser t hs req sf ip ifl,
  load C cdig t = inl hs ->
  o_outcome (snd (create_sf Hb matches C cdig ser t req sf ip ifl)) = Exit 11 ->
  exists sp p c f e, In sp sf /\
    In (p, c) (sf_files matches C (set_patterns (latest_patterns (lh_gens (root_hist hs))) ip (pattern_file_lines ifl)) t sp) /\
    find_first (lh_gens (route_to hs p)) (strip_prefix (lh_root (route_to hs p)) p) f = Some e /\ e_digest e <> digest_text Hb f c.
Proof. exact create_sf_exit_11_genuine. Qed.
Print Assumptions C03_sf_exit_11_is_never_a_false_alarm.
Theorem C03_create_exit_11_is_never_a_false_alarm : forall Hb matches C cdig ser t hs req no_dh ip ifl,
  load C cdig t = inl hs ->
  o_outcome (snd (create_folder Hb matches C cdig ser t req no_dh false ip ifl)) = Exit 11 ->
  exists p c f e,
    In (p, c) (ev_files (events matches C (set_patterns (latest_patterns (lh_gens (root_hist hs))) ip (pattern_file_lines ifl)) [] t)) /\
    find_first (lh_gens (route_to hs p)) (strip_prefix (lh_root (route_to hs p)) p) f = Some e /\ e_digest e <> digest_text Hb f c.
Proof. exact create_exit_11_genuine. Qed.
Print Assumptions C03_create_exit_11_is_never_a_false_alarm.
(* THE EXIT DECISIONS OF verify AND diff ARE THE SOURCE'S.  translator/gen.py translates, on every run, the tail of
   commands.verify_entire_folder and of commands.diff_entire_folder_against_full_history_subcommand (`exception =
   test_for_missing_files(...)`, the conditional re-assignments of `exception` in their order, `if exception: raise
   exception`; exception classes -> the regenerated exit codes) into src_verify_exit / src_diff_exit (Gen/GeneratedFns.v).
   On the quantities the model computes -- something recorded is missing and not ignored, a single file was asked for /
   found, the number of new files, the number of failed comparisons -- they give exactly the exit code of verify_core,
   which is what `verify` and `diff` are after loading (C03_verify_exit_code, C03_diff_exit_code describe that code). *)
Theorem C03_exit_decisions_are_the_sources : forall Hb matches C hs is_diff (t : node C) only ip ifl, lh_gens (root_hist hs) <> [] ->
  let spec := set_patterns (latest_patterns (lh_gens (root_hist hs))) ip (pattern_file_lines ifl) in
  let evs := events matches C spec [] t in
  let vs := fold_left (verify_file Hb hs (negb is_diff) only) (ev_files evs) (mkVS [] [] false) in
  let miss := sorted_paths (missing matches spec (diff_paths (expected_paths hs) (visited evs))) in
  o_outcome (snd (verify_core Hb matches C hs is_diff t only ip ifl)) =
  Exit (if is_diff
        then src_diff_exit (negb (is_nil miss)) false false (length (vs_new vs)) 0
        else src_verify_exit (negb (is_nil miss)) (match only with Some _ => true | None => false end) (vs_found vs)
                             (length (vs_new vs)) (length (vs_bad vs))).
Proof. exact verify_core_exit_is_source. Qed.
Print Assumptions C03_exit_decisions_are_the_sources.

(* ... and so is create's (folder mode): unless the run aborts, its exit code is the translated tail of
   commands.create_for_folder_subcommand (test_for_missing_files, the failed-verification override, `if exception: raise`,
   then the check for vanished nested history folders) applied to what the run reports missing, to the number of failed
   comparisons -- the failed formats of every visited file -- and to whether a loaded nested history's folder is gone *)
Theorem C03_create_exit_decision_is_the_sources : forall Hb matches C cdig ser (t : node C) req no_dh dr ip ifl hs, load C cdig t = inl hs ->
  let o := snd (create_folder Hb matches C cdig ser t req no_dh dr ip ifl) in
  let spec := set_patterns (latest_patterns (lh_gens (root_hist hs))) ip (pattern_file_lines ifl) in
  let fails := list_sum (map (file_failures Hb hs (sort_fmts req)) (ev_files (events matches C spec [] t))) in
  o_outcome o = Abort \/
  o_outcome o = Exit (src_create_exit (negb (is_nil (o_missing o))) false false 0 fails (negb (is_nil (missing_history_folders C hs t)))).
Proof. exact create_exit_is_source. Qed.
Print Assumptions C03_create_exit_decision_is_the_sources.

(* the tie of the two counting rules to the source (regenerated on every run from commands.py by translator/gen.py):
   create -sf counts one failure per sealed file, decided by the first requested format's verdict (Model/Create.v
   seal_file, Model/Commands.v sf_step); create in folder mode counts one per failed format of every sealed file
   (process_event); both exit 11 exactly when the count is positive *)
Theorem C03_failure_counting_rules : sf_count_rule = 1%N /\ folder_count_rule = 2%N.
Proof. split; reflexivity. Qed.
(* every verdict of such a run on that file is a failure, and every requested format has a verdict *)
Theorem C03_altered_file_every_verdict_fails : forall gens p dg req x,
  find_original gens p <> None -> (forall f e, find_first gens p f = Some e -> e_digest e <> dg f) ->
  In x (snd (seal gens p dg req)) -> snd x = false.
Proof. exact altered_all_verdicts_false. Qed.
Print Assumptions C03_altered_file_every_verdict_fails.
Theorem C03_every_requested_format_has_a_verdict : forall gens p dg req f0,
  In f0 req -> exists x, In x (snd (seal gens p dg req)) /\ fst x = f0.
Proof. exact requested_has_verdict. Qed.
Print Assumptions C03_every_requested_format_has_a_verdict.

(* non-vacuity: a folder `a` sealed on its own (one generation, one file), placed beside a second file in a tree whose
   root has no history yet: the state holds; the run at the root writes into BOTH histories, exits 0, and the result
   verifies *)
Definition c03_cdig (c : N) : text := [c].
Definition c03_ser (g : gen) : N := (g_no g + 10)%N.
Definition c03_Hb (f : fmt) (b : bytes) : bytes := match f with Md5 => b | _ => 0%N :: b end.
Definition c03_m (spec : list text) (s : text) : bool := false.
Definition c03_inner : node N := fst (create_folder c03_Hb c03_m N c03_cdig c03_ser (Dir None [([102%N], @File N [7%N])]) [Md5] false false [] []).
Definition c03_t : node N := Dir None [([97%N], c03_inner); ([103%N], @File N [8%N])].
Example C03_nested_state_nonvacuous :
  match load N c03_cdig c03_t with
  | inl hs => map (fun h => (lh_root h, length (lh_gens h))) hs = [([[97%N]], 1); ([], 0)] /\ wf_tree N c03_t /\ nstate c03_Hb c03_m N hs c03_t /\
              let run := create_folder c03_Hb c03_m N c03_cdig c03_ser c03_t [Sha1] false false [] [] in
              o_outcome (snd run) = Exit 0 /\ map fst (o_written (snd run)) = [[[97%N]]; []]
  | inr _ => False
  end.
Proof.
  vm_compute load. split; [reflexivity|]. split.
  { vm_compute. constructor; [cbn; repeat constructor; cbn; intuition discriminate|].
    repeat constructor; cbn; intuition discriminate. }
  split; [|vm_compute; split; reflexivity].
  split; [apply nprev_b_ok; vm_compute; reflexivity|]. split; [apply (ncur_b_ok c03_Hb N); vm_compute; reflexivity|].
  split; [vm_compute; constructor|]. split; vm_compute; reflexivity.
Qed.

(* non-vacuity of the -sf detection: the file inside `a` altered, the folder `a` named from the root in a format that
   was never recorded for it: the hypotheses hold and the run exits 11 *)
Definition c03_t2 : node N := Eval vm_compute in alter N [[97%N]; [102%N]] (fun _ => Some (@File N [9%N])) c03_t.
Example C03_nested_sf_altered_nonvacuous :
  match load N c03_cdig c03_t2 with
  | inl hs =>
      let p := [[97%N]; [102%N]] in
      wf_tree N c03_t2 /\
      In (p, [9%N]) (sf_files c03_m N (set_patterns (latest_patterns (lh_gens (root_hist hs))) [] (pattern_file_lines [])) c03_t2 [[97%N]]) /\
      find_original (lh_gens (route_to hs p)) (strip_prefix (lh_root (route_to hs p)) p) <> None /\
      (forall f e, find_first (lh_gens (route_to hs p)) (strip_prefix (lh_root (route_to hs p)) p) f = Some e -> e_digest e <> digest_text c03_Hb f [9%N]) /\
      o_outcome (snd (create_sf c03_Hb c03_m N c03_cdig c03_ser c03_t2 [Sha1] [[[97%N]]] [] [])) = Exit 11 /\
      In (p, [9%N]) (ev_files (events c03_m N (set_patterns (latest_patterns (lh_gens (root_hist hs))) [] (pattern_file_lines [])) [] c03_t2)) /\
      o_outcome (snd (create_folder c03_Hb c03_m N c03_cdig c03_ser c03_t2 [Xxh64; Sha1] false false [] [])) = Exit 11
  | inr _ => False
  end.
Proof.
  vm_compute load. cbv zeta. split.
  { vm_compute. constructor; [cbn; repeat constructor; cbn; intuition discriminate|].
    repeat constructor; cbn; intuition discriminate. }
  split; [vm_compute; left; reflexivity|]. split; [vm_compute; discriminate|].
  split; [|split; [vm_compute; reflexivity|split; [vm_compute; tauto|vm_compute; reflexivity]]].
  intros f e H. destruct f; vm_compute in H; try discriminate; injection H as <-; vm_compute; discriminate.
Qed.
