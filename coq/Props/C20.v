(* C20 -- the background update check can never change or stall a command.  Statements only.

   Model: Model/Update.v -- two threads (the Updater daemon thread of cli/update.py; the main thread running a
   sub-command through the click group and then the group's result callback), shared attribute latest_version, a clock
   that advances by the command's own work and by the time the main thread is blocked in `updater.join(timeout=...)`.
   A configuration `k` carries everything external: the server (when `requests.get` comes back -- or never -- and with
   what: RequestException, other exception, HTTP status, body that is not JSON / not a dict / has a missing, null,
   non-string, unparsable or valid tag_name), the installed version, the command (output chunks, work, normal return
   or any of the non-returning ends).  A schedule is ANY list of actions (checker step / main step / sleep dt in the
   join); `run k (init k) sched` is the state after it.  All theorems quantify over every k and every schedule.

   HISTORY: the pinned code (`except requests.exceptions.RequestException`) let the checker thread die of an unhandled
   exception on a tag_name that is missing / null / not a string / not a version, a body that is not a JSON object, or a
   non-requests exception; the dying thread held stderr while writing its traceback, and a main thread shutting the
   interpreter down at that moment (no join after a non-returning sub-command; join timed out) was aborted by CPython:
   exit status 134 instead of the command's (found by the C20 harness; then `C20_full_statement` was refuted in Coq).
   Repaired by the commit "fix: the update check swallows every exception of the checker thread" (`except Exception`):
   the thread now always reaches the handler, C20_full_statement below is PROVED, and the obligation
   C20_checker_swallows_every_exception on the regenerated constant breaks if the clause is narrowed again.

   Not covered by the proof (sampled by the harness): the real thread scheduler, interpreter shutdown
   with a live daemon thread, wall-clock slack; click's rule "result callback only after a normal return" and packaging's parser
   are transcribed / enter as data.  The code puts NO condition on the installed version being a final release: a
   notice is shown to a dev/pre-release installation as well (the theorem states exactly what the code requires). *)
From Coq Require Import List NArith Bool.
From MHL Require Import Gen.Generated Model.Update Proofs.UpdateFacts.
Import ListNotations.
Local Open Scope N_scope.

(* ---- the regenerated constants the statements depend on *)
Theorem C20_join_timeout_is_one_second : join_timeout = 1 /\ join_timeout_debug = 1.
Proof. split; reflexivity. Qed.
Theorem C20_checker_is_daemon : updater_daemon = true.
Proof. reflexivity. Qed.
(* the except clause of _get_latest_version names `Exception` (the model sends every failure of the checker to the
   handler because of this) *)
Theorem C20_checker_swallows_every_exception :
  update_caught_exception = [69; 120; 99; 101; 112; 116; 105; 111; 110].       (* "Exception" *)
Proof. reflexivity. Qed.
Theorem C20_comparison_is_strict : update_compare_strict = true.
Proof. reflexivity. Qed.
Theorem C20_same_notice_in_both_groups : update_notice = update_notice_debug.
Proof. reflexivity. Qed.
Theorem C20_real_config : forall debug cur srv cmd,
  k_timeout (real_config debug cur srv cmd) = 1000 /\ k_daemon (real_config debug cur srv cmd) = true /\
  k_current (real_config debug cur srv cmd) = cur /\ k_server (real_config debug cur srv cmd) = srv /\
  k_cmd (real_config debug cur srv cmd) = cmd.
Proof. intros [|] cur srv cmd; repeat split; reflexivity. Qed.

(* ---- exit code, at full strength: for every configuration (server, installed version, command) and every schedule, a
        run that ends, ends with the command's own status (hypothesis: the installed version string is a PEP 440
        version, see C20_needs_current) *)
Definition C20_full_statement : Prop := forall k sched c,
  k_current k <> None -> s_main (run k (init k) sched) = MExit c -> c = cmd_exit k.
Theorem C20_exit_code_is_the_commands : C20_full_statement.
Proof. exact run_exit_code. Qed.
Print Assumptions C20_exit_code_is_the_commands.

(* ---- standard output: while the command runs, a prefix of the command's output; afterwards the command's output,
        followed by at most one notice *)
Theorem C20_stdout_is_the_commands_plus_at_most_one_notice : forall k sched,
  let s := run k (init k) sched in
  (exists r, s_main s = MRun r /\ s_out s ++ map OChunk (emits r) = map OChunk (cmd_chunks k)) \/
  (forall r, s_main s <> MRun r) /\
  (s_out s = map OChunk (cmd_chunks k) \/ s_out s = map OChunk (cmd_chunks k) ++ [ONotice]).
Proof. exact run_stdout. Qed.
Print Assumptions C20_stdout_is_the_commands_plus_at_most_one_notice.

(* ---- the notice appears only if: the command returned normally; the server answered 200 with a JSON object whose
        tag_name parsed to a version v; that answer had completely arrived before the join ended (t <= command time +
        time spent in the join <= command time + timeout); v is strictly newer than the installed version; v is neither
        a pre- nor a dev-release *)
Theorem C20_notice_only_for_a_newer_final_release_received_in_time : forall k sched,
  let s := run k (init k) sched in
  In ONotice (s_out s) ->
  exists v t c,
    k_server k = mkServer (Some t) (RResponse true (Some (JDict (TagText (Some v))))) /\
    t <= cmd_time k + s_delay s /\ s_delay s <= k_timeout k /\
    k_current k = Some c /\ ver_cmp c v = Lt /\ v_pre v = None /\ v_dev v = None /\ v <> c /\
    c_end (k_cmd k) = Returns.
Proof. exact run_notice_only_if. Qed.
Print Assumptions C20_notice_only_for_a_newer_final_release_received_in_time.

(* ---- delay: the time the update check adds (blocked in join) never exceeds the timeout; the clock at exit is the
        command's time plus that delay; commands that do not return normally are not delayed at all *)
Theorem C20_delay_at_most_join_timeout : forall k sched,
  let s := run k (init k) sched in
  s_delay s <= k_timeout k /\ s_now s <= cmd_time k + k_timeout k /\
  (forall c, s_main s = MExit c -> s_now s = cmd_time k + s_delay s) /\
  (c_end (k_cmd k) <> Returns -> s_delay s = 0).
Proof. exact run_delay. Qed.
Print Assumptions C20_delay_at_most_join_timeout.
Theorem C20_real_delay_at_most_one_second : forall debug cur srv cmd sched,
  let k := real_config debug cur srv cmd in
  s_delay (run k (init k) sched) <= 1000 /\ s_now (run k (init k) sched) <= cmd_time k + 1000.
Proof.
  intros debug cur srv cmd sched k.
  destruct (run_delay k sched) as [A [B _]].
  destruct (C20_real_config debug cur srv cmd) as [E _]. fold k in E. rewrite E in A, B. auto.
Qed.
Print Assumptions C20_real_delay_at_most_one_second.

(* ---- no deadlock, no infinite run, every maximal run ends in Exit, and complete runs exist *)
Theorem C20_no_deadlock : forall k sched, k_daemon k = true ->
  let s := run k (init k) sched in
  process_over k s = false -> exists a s', step k s a = Some s'.
Proof. exact run_no_deadlock. Qed.
Print Assumptions C20_no_deadlock.
Theorem C20_no_infinite_run : forall k l s, trace k (init k) l = Some s ->
  N.of_nat (length l) <= 13 + N.of_nat (length (c_steps (k_cmd k))) + k_timeout k.
Proof. exact no_infinite_run. Qed.
Theorem C20_every_maximal_run_ends_in_exit : forall k l s,
  k_daemon k = true -> trace k (init k) l = Some s -> stuck k s ->
  exists c, s_main s = MExit c /\
    (k_current k <> None ->
       c = cmd_exit k /\
       (s_out s = map OChunk (cmd_chunks k) \/ s_out s = map OChunk (cmd_chunks k) ++ [ONotice]) /\
       s_delay s <= k_timeout k).
Proof. exact maximal_run_ends_in_exit. Qed.
Print Assumptions C20_every_maximal_run_ends_in_exit.
Theorem C20_complete_run_exists : forall k s, k_daemon k = true ->
  exists l s', trace k s l = Some s' /\ process_over k s' = true.
Proof. exact complete_run_exists. Qed.
Theorem C20_real_no_deadlock : forall debug cur srv cmd sched,
  let k := real_config debug cur srv cmd in
  process_over k (run k (init k) sched) = false -> exists a s', step k (run k (init k) sched) a = Some s'.
Proof. intros debug cur srv cmd sched k; apply run_no_deadlock; destruct debug; reflexivity. Qed.
Print Assumptions C20_real_no_deadlock.

(* ---- an exception in the checker thread never reaches the main thread (nor anybody else): a checker step changes
        nothing the main thread is or shows and writes nothing to stderr; whatever happens to the checker after
        requests.get came back it goes on until run() returns (it cannot die); latest_version is never anything but None
        or a Version, and None after any failure; nothing at all appears on stderr, so the main thread never raises *)
Theorem C20_checker_step_frame : forall k s s', step k s AChk = Some s' ->
  s_main s' = s_main s /\ s_out s' = s_out s /\ s_now s' = s_now s /\ s_delay s' = s_delay s /\ s_err s' = s_err s.
Proof. exact step_checker_frame. Qed.
Theorem C20_checker_always_finishes : forall k s, s_chk s <> CDone -> s_chk s <> CGet -> exists s', step_chk k s = Some s'.
Proof. exact checker_always_finishes. Qed.
Theorem C20_checker_failure_is_isolated : forall k sched,
  let s := run k (init k) sched in
  (k_current k <> None -> s_err s = []) /\ (forall b, s_latest s <> PStr b) /\ (s_chk s = CHandler -> s_latest s = PNone).
Proof. exact run_isolated. Qed.
Print Assumptions C20_checker_failure_is_isolated.

(* ---- what the harness compares: any two complete runs of the same command, under any two servers and schedules,
        agree on exit status and command output (the reference run is the one with a refused connection) *)
Theorem C20_same_as_reference_run : forall k1 k2 l1 l2 c1 c2,
  k_cmd k1 = k_cmd k2 -> k_current k1 <> None -> k_current k2 <> None ->
  s_main (run k1 (init k1) l1) = MExit c1 -> s_main (run k2 (init k2) l2) = MExit c2 ->
  c1 = c2 /\ chunks_of (s_out (run k1 (init k1) l1)) = chunks_of (s_out (run k2 (init k2) l2)).
Proof. exact same_as_reference. Qed.
Print Assumptions C20_same_as_reference_run.

(* ---- the prediction function run by the harness (eager schedule) is one of the runs above *)
Theorem C20_prediction_is_a_run : forall k o, predict k = Some o ->
  exists l s c, trace k (init k) l = Some s /\ s_main s = MExit c /\ process_over k s = true /\
                o = mkObs c (chunks_of (s_out s)) (has_notice (s_out s)) (s_delay s) (s_err s).
Proof. exact predict_is_run. Qed.
Theorem C20_prediction_sound : forall k o, predict k = Some o -> k_current k <> None ->
  o_exit o = cmd_exit k /\ o_chunks o = cmd_chunks k /\ o_delay o <= k_timeout k /\ o_err o = [] /\
  (o_notice o = true ->
     exists v t c, k_server k = mkServer (Some t) (RResponse true (Some (JDict (TagText (Some v))))) /\
                   t <= cmd_time k + o_delay o /\ k_current k = Some c /\ ver_cmp c v = Lt /\
                   v_pre v = None /\ v_dev v = None /\ c_end (k_cmd k) = Returns).
Proof. exact predict_sound. Qed.
Print Assumptions C20_prediction_sound.

(* ---- the order on versions used by needs_update is irreflexive and asymmetric (">" is not ">=") *)
Theorem C20_version_gt_irreflexive : forall v, ver_gtb v v = false.
Proof. exact ver_gtb_irrefl. Qed.
Theorem C20_version_gt_asymmetric : forall a b, ver_gtb a b = true -> ver_gtb b a = false.
Proof. exact ver_gtb_asym. Qed.
Theorem C20_version_cmp_antisymmetric : forall a b, ver_cmp b a = CompOpp (ver_cmp a b).
Proof. exact ver_cmp_antisym. Qed.
Theorem C20_equal_version_no_update : forall a b, ver_cmp a b = Eq -> needs_update (PVer a) (Some b) = Some false.
Proof. intros a b H; simpl. destruct (ver_gtb_eq_false _ _ H) as [E _]; rewrite E; reflexivity. Qed.
Print Assumptions C20_version_cmp_antisymmetric.

(* ------------------------------------------------------------------------------------------ non-vacuity *)

Definition rel (r : list N) : version := mkVer 0 r None None None None.
Definition v120 := rel [1; 2; 0].
Definition v13 := rel [1; 3].
Definition v13rc1 := mkVer 0 [1; 3] (Some (PreRC, 1)) None None None.
Definition v13dev := mkVer 0 [1; 3] None None (Some 2) None.
Definition ok_cmd := mkCommand [Work 200; Emit 7; Work 100; Emit 8] Returns.
Definition fail_cmd := mkCommand [Work 200; Emit 7] (Raises 11).
Definition answer (after : option N) (v : version) := mkServer after (RResponse true (Some (JDict (TagText (Some v))))).

(* a newer release that arrives 400 ms after the command: the main thread waits 400 ms and prints the notice *)
Example C20_ex_notice :
  predict (real_config false (Some v120) (answer (Some 700) v13) ok_cmd) = Some (mkObs 0 [7; 8] true 400 []).
Proof. vm_compute. reflexivity. Qed.
(* the same answer while the command is still working: no waiting at all *)
Example C20_ex_notice_no_wait :
  predict (real_config true (Some v120) (answer (Some 0) v13) ok_cmd) = Some (mkObs 0 [7; 8] true 0 []).
Proof. vm_compute. reflexivity. Qed.
(* the server never answers: one second in the join, no notice, same exit and output *)
Example C20_ex_hang :
  predict (real_config false (Some v120) (answer None v13) ok_cmd) = Some (mkObs 0 [7; 8] false 1000 []).
Proof. vm_compute. reflexivity. Qed.
(* the answer comes after the timeout *)
Example C20_ex_late :
  predict (real_config false (Some v120) (answer (Some 3000) v13) ok_cmd) = Some (mkObs 0 [7; 8] false 1000 []).
Proof. vm_compute. reflexivity. Qed.
(* garbage: a JSON list / tag_name "nightly" / tag_name missing / not JSON / HTTP error / any exception from requests.get
   -- everything ends in the handler, nothing on stderr *)
Example C20_ex_garbage :
  predict (real_config false (Some v120) (mkServer (Some 10) (RResponse true (Some JNonDict))) ok_cmd) = Some (mkObs 0 [7; 8] false 0 []) /\
  predict (real_config false (Some v120) (mkServer (Some 10) (RResponse true (Some (JDict (TagText None))))) ok_cmd) = Some (mkObs 0 [7; 8] false 0 []) /\
  predict (real_config false (Some v120) (mkServer (Some 10) (RResponse true (Some (JDict TagMissing)))) ok_cmd) = Some (mkObs 0 [7; 8] false 0 []) /\
  predict (real_config false (Some v120) (mkServer (Some 10) (RResponse true None)) ok_cmd) = Some (mkObs 0 [7; 8] false 0 []) /\
  predict (real_config false (Some v120) (mkServer (Some 10) (RResponse false None)) ok_cmd) = Some (mkObs 0 [7; 8] false 0 []) /\
  predict (real_config false (Some v120) (mkServer (Some 10) ROtherExc) ok_cmd) = Some (mkObs 0 [7; 8] false 0 []) /\
  predict (real_config false (Some v120) (mkServer (Some 10) RRequestExc) ok_cmd) = Some (mkObs 0 [7; 8] false 0 []).
Proof. vm_compute. repeat split; reflexivity. Qed.
(* equal (1.2 against 1.2.0), older, pre-release and dev-release answers: no notice *)
Example C20_ex_no_notice_versions :
  map (fun v => predict (real_config false (Some v120) (answer (Some 0) v) ok_cmd)) [rel [1; 2]; rel [1; 1; 9]; v13rc1; v13dev]
  = [Some (mkObs 0 [7; 8] false 0 []); Some (mkObs 0 [7; 8] false 0 []); Some (mkObs 0 [7; 8] false 0 []); Some (mkObs 0 [7; 8] false 0 [])].
Proof. vm_compute. reflexivity. Qed.
(* a failing command (exit 11): the callback is skipped, no join, no notice even for a newer release *)
Example C20_ex_failing_command :
  predict (real_config false (Some v120) (answer (Some 0) v13) fail_cmd) = Some (mkObs 11 [7] false 0 []).
Proof. vm_compute. reflexivity. Qed.
(* a dev installation is told about a newer final release (the code does not look at the installed version's kind) *)
Example C20_ex_dev_installation :
  predict (real_config false (Some (mkVer 0 [0; 1] None None (Some 1) (Some [LStr [103]]))) (answer (Some 0) v13) ok_cmd) = Some (mkObs 0 [7; 8] true 0 []).
Proof. vm_compute. reflexivity. Qed.
(* interleaving matters for WHETHER the notice shows (never for exit / output): the answer is there but the checker
   thread is not scheduled before the join times out *)
Example C20_ex_slow_checker :
  let k := real_config false (Some v120) (answer (Some 0) v13) ok_cmd in
  let s := run k (init k) [AMain; AMain; AMain; AMain; AMain; ATick 5000; AMain; AChk; AChk; AMain; AMain; AMain] in
  s_main s = MExit 0 /\ s_out s = [OChunk 7; OChunk 8] /\ s_delay s = 1000.
Proof. vm_compute. repeat split; reflexivity. Qed.
(* the schedule that made the pinned code exit with 134 (exit-11 command, answer {"tag_name": "nightly"}, five checker
   steps, then the main thread leaves): the checker is in its handler and the status is the command's *)
Example C20_ex_formerly_refuting_run :
  let k := real_config true (Some v120) (mkServer (Some 0) (RResponse true (Some (JDict (TagText None))))) fail_cmd in
  let s := run k (init k) [AChk; AChk; AChk; AChk; AChk; AMain; AMain; AMain] in
  s_main s = MExit 11 /\ s_chk s = CHandler /\ s_err s = [] /\ s_latest s = PNone.
Proof. vm_compute. repeat split; reflexivity. Qed.
(* hypotheses are needed: a NON-daemon checker with a silent server leaves a state that is stuck but not over *)
Example C20_needs_daemon :
  let k := mkConfig false 1000 (Some v120) (answer None v13) ok_cmd in
  let s := run k (init k) [AMain; AMain; AMain; AMain; AMain; ATick 1000; AMain; AMain; AMain] in
  s_main s = MExit 0 /\ process_over k s = false /\
  step k s AChk = None /\ step k s AMain = None /\ step k s (ATick 1) = None.
Proof. vm_compute. repeat split; reflexivity. Qed.
(* an installed version string that packaging cannot parse makes needs_update raise in the main thread: exit 1 *)
Example C20_needs_current :
  predict (real_config false None (answer (Some 0) v13) ok_cmd) = Some (mkObs 1 [7; 8] false 0 [EMainTraceback]).
Proof. vm_compute. reflexivity. Qed.
(* a raw string in latest_version (which no transition of the checker produces) would raise in the main thread *)
Example C20_ex_raw_string_would_raise : needs_update (PStr true) (Some v120) = None.
Proof. reflexivity. Qed.
Example C20_ex_order :
  ver_cmp (rel [1; 2]) v120 = Eq /\ ver_cmp v13rc1 v13 = Lt /\ ver_cmp v13dev v13rc1 = Lt /\
  ver_cmp (mkVer 0 [1; 3] None (Some 1) None None) v13 = Gt /\ ver_cmp (mkVer 1 [0] None None None None) v13 = Gt /\
  ver_cmp (mkVer 0 [1; 3] None None None (Some [LStr [97]])) (mkVer 0 [1; 3] None None None (Some [LNum 1])) = Lt.
Proof. vm_compute. repeat split; reflexivity. Qed.
