(* C08 -- nested histories partition the tree and reference each other correctly.  Statements only.
   PARTIAL: proved are the routing (deepest containing history, unique as a location, relative path), the copy of a
   nested root's hashes into its parent history, and the effect of one history's commit (references handed to the
   parent with the relative path and the new generation number, manifest before chain), the order in which `load`
   lists histories (every nested history before the history that contains it, root last) and that a run's write
   operations come grouped by history in that order -- so a child's manifest and chain are in place before its parent's
   manifest is written.  The commit set (which histories write) is C08_commit_set: exactly the histories that received
   records or have a child that wrote; that the session holds records for exactly the histories in scope (folder mode:
   every non-ignored history; -sf: those on the path to the named files) is carried by the lockstep correspondence. *)
From MHL Require Import Model.Commands Gen.Generated Proofs.BaseFacts Proofs.RouteFacts Proofs.CommitFacts Proofs.LoadFacts Proofs.CommitSetFacts Proofs.TreeFacts Proofs.PartitionFacts Proofs.CreateFacts Proofs.ReloadFacts Proofs.NestedFacts Proofs.LoadCompleteFacts.

Theorem C08_deepest_history : forall hs root_h p, good p root_h ->
  good p (route hs root_h p) /\ (route hs root_h p = root_h \/ In (route hs root_h p) hs) /\
  (forall h, In h hs -> good p h -> length (lh_root h) <= length (lh_root (route hs root_h p))).
Proof. exact route_deepest. Qed.
Print Assumptions C08_deepest_history.

(* containing roots of equal depth are the same folder: sibling names that are prefixes of each other as STRINGS
   ("A", "AB") cannot confuse the routing, which works on path components *)
Theorem C08_deepest_unique : forall a b p, is_prefix a p = true -> is_prefix b p = true -> length a = length b -> a = b.
Proof. exact prefix_same_length. Qed.
Print Assumptions C08_deepest_unique.

Theorem C08_relative_to_its_root : forall root p, is_prefix root p = true -> root ++ strip_prefix root p = p.
Proof. exact strip_prefix_rejoin. Qed.

(* each nested root also appears in its parent history as a directory entry with the child's own root hashes *)
Theorem C08_child_root_in_parent : forall hs s p es par,
  let h := route_to hs p in
  strip_prefix (lh_root h) p = [] -> lh_parent h = Some par -> strip_prefix par p <> [] ->
  exists r, In r (nl_records (sess_list (record_dir hs s p es) par)) /\
            r_path r = strip_prefix par p /\ r_dir r = true /\ incl es (r_entries r).
Proof. exact child_root_recorded_in_parent. Qed.
Print Assumptions C08_child_root_in_parent.

(* one history's commit: skipped iff it has neither records nor references; otherwise exactly one generation,
   numbered latest+1, manifest written before the chain, and one reference handed to the parent *)
Theorem C08_commit_one : forall C cdig ser proc sess sp cs h,
  commit_case C cdig ser proc sess sp cs h (commit_one C cdig ser proc sess sp cs h).
Proof. exact commit_one_cases. Qed.
Print Assumptions C08_commit_one.
Theorem C08_reference_goes_to_parent_only : forall l h h' x,
  refs_get (refs_add l h x) h = refs_get l h ++ [x] /\ (h <> h' -> refs_get (refs_add l h x) h' = refs_get l h').
Proof. intros. split; [apply refs_get_add_same|apply refs_get_add_other]. Qed.
Print Assumptions C08_reference_goes_to_parent_only.

(* children before parents: in the list `load` returns, the parent of every history comes later; the root is last *)
Theorem C08_load_children_first : forall C cdig t hs, load C cdig t = inl hs ->
  forall l1 h l2, hs = l1 ++ h :: l2 -> lh_parent h = None \/ exists h', In h' l2 /\ lh_parent h = Some (lh_root h').
Proof. exact load_children_first. Qed.
Print Assumptions C08_load_children_first.
(* ... and commit performs its write operations grouped by history in exactly that order *)
Theorem C08_writes_in_load_order : forall C cdig ser proc sess sp l cs0,
  exists ws, cs_ops C (fold_left (commit_one C cdig ser proc sess sp) l cs0) = cs_ops C cs0 ++ concat ws /\
             Forall2 (fun h w => forall op, In op w -> snd op = lh_root h) l ws.
Proof. exact commit_ops_grouped. Qed.
Print Assumptions C08_writes_in_load_order.

(* THE COMMIT SET: after a run that did not abort, a history has written a new generation EXACTLY when the session held
   records for it or one of its child histories has written one (so, by descending, exactly the histories that
   received records or have a descendant that did) -- for the list of histories `load` returns on any well-formed tree:
   distinct histories have distinct roots (load_roots_NoDup) and children come before parents (C08_load_children_first).
   Nothing is written for a folder that is not the root of a loaded history. *)
Theorem C08_commit_set : forall C cdig ser proc sess sp t t0 hs,
  wf_tree C t -> load C cdig t = inl hs ->
  let cs := commit C cdig ser hs proc t0 sess sp in
  cs_abort C cs = false ->
  (forall r, wrote C cs r -> In r (map lh_root hs)) /\
  (forall h, In h hs -> (wrote C cs (lh_root h) <->
     sess_get sess (lh_root h) <> None \/ exists c, In c hs /\ lh_parent c = Some (lh_root h) /\ wrote C cs (lh_root c))).
Proof.
  intros C cdig ser proc sess sp t t0 hs Hw Hl. apply commit_set.
  - eapply load_roots_NoDup; eauto.
  - intros l1 h l2 E. eapply load_children_first; eauto.
Qed.
Print Assumptions C08_commit_set.
Theorem C08_distinct_roots : forall C cdig t hs, wf_tree C t -> load C cdig t = inl hs -> NoDup (map lh_root hs).
Proof. exact load_roots_NoDup. Qed.
Print Assumptions C08_distinct_roots.

(* ... and the list is COMPLETE: every folder of the tree that carries an ascmhl folder -- at any depth, below any number of
   other histories, beside siblings with whatever names -- stands in the list `load` returns, at exactly its path, with
   exactly the generations its own ascmhl folder holds; with distinct entry names exactly once.  (The partition below
   routes every entry to the deepest history of THAT list; this is what makes it the deepest history of the tree.) *)
Theorem C08_every_history_of_the_tree_is_loaded : forall C cdig t hs, load C cdig t = inl hs ->
  forall q hq, get_hist C t q = Some hq ->
  exists lh, In lh hs /\ lh_root lh = q /\ lh_gens lh = loaded_gens C hq /\ lh_folder lh = true.
Proof. exact load_complete. Qed.
Print Assumptions C08_every_history_of_the_tree_is_loaded.
Theorem C08_every_history_of_the_tree_is_loaded_once : forall C cdig t hs, wf_tree C t -> load C cdig t = inl hs ->
  forall q hq, get_hist C t q = Some hq ->
  exists lh, In lh hs /\ (lh_root lh = q /\ lh_gens lh = loaded_gens C hq /\ lh_folder lh = true) /\
             forall lh', In lh' hs -> lh_root lh' = q -> lh' = lh.
Proof. exact load_exactly_one. Qed.
Print Assumptions C08_every_history_of_the_tree_is_loaded_once.

(* hence routing goes to the deepest history OF THE TREE: the history a path is routed to contains the path, and no folder
   on the way down to the path that carries an ascmhl folder lies deeper than its root *)
Theorem C08_routed_to_the_deepest_history_of_the_tree : forall C cdig t hs p, load C cdig t = inl hs ->
  is_prefix (lh_root (route_to hs p)) p = true /\
  forall q hq, get_hist C t q = Some hq -> is_prefix q p = true -> length q <= length (lh_root (route_to hs p)).
Proof. exact routed_to_deepest_of_tree. Qed.
Print Assumptions C08_routed_to_the_deepest_history_of_the_tree.

(* non-vacuity: two sealed folders whose names are `R` and `R1` (one the beginning of the other) side by side, a third one
   inside the second: all three are loaded, each at its path, before the root *)
Definition c08_cdig (c : N) : text := [c].
Definition c08_ser (g : gen) : N := (g_no g + 10)%N.
Definition c08_Hb (f : fmt) (b : bytes) : bytes := match f with Md5 => b | _ => 0%N :: b end.
Definition c08_m (spec : list text) (s : text) : bool := false.
Definition c08_seal (t : node N) : node N := fst (create_folder c08_Hb c08_m N c08_cdig c08_ser t [Md5] false false [] []).
Definition c08_s7 : node N := Eval vm_compute in c08_seal (Dir None [([102%N], @File N [7%N])]).
Definition c08_s9 : node N := Eval vm_compute in c08_seal (Dir None [([102%N], @File N [9%N])]).
Definition c08_s8 : node N := Eval vm_compute in c08_seal (Dir None [([102%N], @File N [8%N]); ([83%N], c08_s9)]).
Definition c08_t : node N := Dir None [([82%N], c08_s7); ([82%N; 49%N], c08_s8); ([103%N], @File N [5%N])].
Example C08_all_histories_loaded_nonvacuous :
  match load N c08_cdig c08_t with
  | inl hs => map (fun h => (lh_root h, length (lh_gens h))) hs = [([[82%N]], 1); ([[82%N; 49%N]; [83%N]], 2); ([[82%N; 49%N]], 1); ([], 0)]
              /\ get_hist N c08_t [[82%N; 49%N]; [83%N]] <> None
  | inr _ => False
  end.
Proof. vm_compute. split; [reflexivity|discriminate]. Qed.

(* THE PARTITION, for any list of loaded histories and any nesting: after the traversal the session holds, for every
   history root k, records at exactly (a) the k-relative paths of the entries whose target history is k -- `target p` is
   the root of the history p is routed to (the deepest one containing it, C08_deepest_history) and p's path relative to
   it -- and (b) for a folder that is itself the root of a history whose parent history is k, that folder's path relative
   to k (the nested root appears in its parent as a directory entry); and nothing else. *)
Theorem C08_session_partition : forall Hb matches C hs fmts no_dh spec t, fmts <> [] -> forall evs s f k q,
  In q (rp (fst (fold_left (process_event Hb matches C hs fmts no_dh spec t) evs (s, f))) k) <->
  In q (rp s k) \/ exists e, In e evs /\ ev_adds hs e k q.
Proof. exact session_partition. Qed.
Print Assumptions C08_session_partition.

(* non-vacuity: routing between "A" and "AB" *)
Definition hA := mkLhist [[65%N]] (Some []) [] [] true.
Definition hAB := mkLhist [[65%N; 66%N]] (Some []) [] [] true.
Definition hR := mkLhist [] None [] [] true.
Example C08_prefix_named_siblings :
  lh_root (route [hA; hAB] hR [[65%N; 66%N]; [120%N]]) = [[65%N; 66%N]] /\ lh_root (route [hA; hAB] hR [[65%N]; [120%N]]) = [[65%N]].
Proof. split; reflexivity. Qed.

(* END TO END, any nesting (folder mode): every loaded history whose own folder the traversal reaches -- i.e. which no
   ignore pattern cuts off -- gets a new generation in the run (its folder event puts the folder's hashes into the root
   record of that history's new list, and a history with a new list commits).  Together with C08_commit_set (a history
   writes exactly when it has a new list or a child wrote) and C02_nested_generations_record_exactly_their_share this fixes
   which histories a run touches and what each of them receives. *)
Theorem C08_reached_histories_get_a_generation : forall Hb matches C cdig ser h0 kids hs req no_dh ip ifl t' o h,
  wf_tree C (Dir h0 kids) -> load C cdig (Dir h0 kids) = inl hs ->
  create_folder Hb matches C cdig ser (Dir h0 kids) req no_dh false ip ifl = (t', o) ->
  let spec := set_patterns (latest_patterns (lh_gens (root_hist hs))) ip (pattern_file_lines ifl) in
  In h hs -> In (lh_root h) (dirs_of (events matches C spec [] (Dir h0 kids))) ->
  exists doc, In (lh_root h, doc) (o_written o).
Proof. exact visited_histories_write. Qed.
Print Assumptions C08_reached_histories_get_a_generation.

(* ... and ONLY those: every generation a folder-mode run writes belongs to a loaded history whose folder the traversal
   reaches (a history gets a new list only from entries at or below its folder, or from the root folder of a child
   history -- and the traversal reaches a path only through folders it reaches: `ev_ancestors_dirs`).  With the theorem
   above: the histories in scope of a run are EXACTLY the loaded histories whose folders are not cut off by an ignore
   pattern. *)
Theorem C08_only_reached_histories_get_a_generation : forall Hb matches C cdig ser h0 kids hs req no_dh ip ifl,
  wf_tree C (Dir h0 kids) -> load C cdig (Dir h0 kids) = inl hs ->
  let spec := set_patterns (latest_patterns (lh_gens (root_hist hs))) ip (pattern_file_lines ifl) in
  let evs := events matches C spec [] (Dir h0 kids) in
  forall k doc, In (k, doc) (o_written (snd (create_folder Hb matches C cdig ser (Dir h0 kids) req no_dh false ip ifl))) ->
    (exists h, In h hs /\ lh_root h = k) /\ In k (dirs_of evs).
Proof. exact written_histories_are_reached. Qed.
Print Assumptions C08_only_reached_histories_get_a_generation.
