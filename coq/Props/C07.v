(* C07 -- directory hashes follow the compositional definition.  Statements only.
   dirhash = what create records (<directoryhash>/<roothash>) and verify -dh recomputes; vhash = the compositional
   definition on a tree without ignored entries; prune removes the ignored entries.
   Proved: definition-over-exactly-the-non-ignored-entries, independence from the enumeration order, the empty
   directory, name-independence of the content hash at any depth, and content SENSITIVITY as a reduction: changing the
   content of one file at any depth changes the content hash of every enclosing folder or exhibits an explicit
   collision of the primitive (collision freedom is never assumed).  PARTIAL: that the structure hash binds names
   (rename => structure hash changes) is exercised by the metamorphic correspondence runs only. *)
From Coq Require Import Permutation.
From MHL Require Import Model.Commands Proofs.BaseFacts Proofs.CodecFacts Proofs.DirHashFacts Proofs.SensFacts Proofs.StructFacts.

Theorem C07_is_definition_over_visible_entries : forall Hb matches C spec f t p,
  dirhash Hb matches C spec f p t = vhash Hb f (prune matches C spec p t).
Proof. exact dirhash_is_definition. Qed.
Print Assumptions C07_is_definition_over_visible_entries.

Theorem C07_sorted_order : forall Hb f ds ds', Permutation ds ds' -> hash_of_hash_list Hb f ds = hash_of_hash_list Hb f ds'.
Proof. exact hash_of_hash_list_perm. Qed.
Print Assumptions C07_sorted_order.

Theorem C07_enumeration_order_irrelevant : forall Hb matches C spec f p h kids kids',
  Permutation kids kids' -> dirhash Hb matches C spec f p (Dir h kids) = dirhash Hb matches C spec f p (Dir h kids').
Proof. exact dirhash_listing_order. Qed.
Print Assumptions C07_enumeration_order_irrelevant.
Theorem C07_definition_order_irrelevant : forall Hb f kids kids',
  Permutation kids kids' -> vhash Hb f (VD kids) = vhash Hb f (VD kids').
Proof. intros Hb f kids kids'. exact (vhash_listing_order Hb (fun _ _ => false) f kids kids'). Qed.

Theorem C07_empty_directory : forall Hb f, vhash Hb f (VD []) = Some (digest_text Hb f [], digest_text Hb f []).
Proof. intros Hb f. reflexivity. Qed.

(* the content hash is unaffected by renaming files and folders at any depth (and by reordering) *)
Theorem C07_content_rename_invariant : forall Hb f t t' c s c' s',
  renamed t t' -> vhash Hb f t = Some (c, s) -> vhash Hb f t' = Some (c', s') -> c = c'.
Proof. intros Hb. exact (content_rename_invariant Hb (fun _ _ => false)). Qed.
Print Assumptions C07_content_rename_invariant.

(* the content hash changes whenever the content of any descendant file changes -- or a collision is exhibited; premise:
   the primitive returns digests of the format's width (satisfiable: toyHb below; hashlib / xxhash: sampled by C01) *)
Theorem C07_content_sensitive : forall Hb, (forall f b, Forall is_byte (Hb f b) /\ length (Hb f b) = width f) ->
  forall f t t' c s c' s', differ1 t t' -> vhash Hb f t = Some (c, s) -> vhash Hb f t' = Some (c', s') -> c = c' -> collision Hb f.
Proof. intros Hb Hw f t t' c s c' s'. exact (vhash_content_sensitive Hb (fun _ _ => false) Hw f t t' c s c' s'). Qed.
Print Assumptions C07_content_sensitive.
Theorem C07_digest_lists_injective : forall Hb, (forall f b, Forall is_byte (Hb f b) /\ length (Hb f b) = width f) ->
  forall f ds ds', Forall (isd Hb f) ds -> Forall (isd Hb f) ds' ->
  hash_of_hash_list Hb f ds = hash_of_hash_list Hb f ds' -> Permutation ds ds' \/ collision Hb f.
Proof. intros Hb Hw. exact (hash_of_hash_list_inj Hb (fun _ _ => false) Hw). Qed.
Print Assumptions C07_digest_lists_injective.

(* non-vacuity: with a toy primitive of the right widths the hashes are defined, renaming keeps the content hash and
   changes the structure hash *)
Definition toyHb (f : fmt) (b : bytes) : bytes := be_of_N (width f) (fold_left N.add b 7%N).
Definition tA : vt := VD [([97%N], VF [1%N; 2%N]); ([98%N], VD [([99%N], VF [3%N])])].
Definition tB : vt := VD [([120%N], VD [([121%N], VF [3%N])]); ([122%N], VF [1%N; 2%N])].
Example C07_width_premise_satisfiable : forall f b, Forall is_byte (toyHb f b) /\ length (toyHb f b) = width f.
Proof. intros f b. unfold toyHb. split; [apply be_of_N_bytes|apply be_of_N_length]. Qed.
Example C07_renamed_example : renamed tA tB.
Proof.
  unfold tA, tB. apply ren_dir. eapply rk_trans; [|apply rk_swap].
  apply rk_cons; [constructor|]. apply rk_cons; [|constructor]. apply ren_dir. apply rk_cons; constructor.
Qed.
Example C07_example_defined :
  exists c s s', vhash toyHb Md5 tA = Some (c, s) /\ vhash toyHb Md5 tB = Some (c, s') /\ s <> s'.
Proof. vm_compute. do 3 eexists. repeat split. discriminate. Qed.

(* THE STRUCTURE HASH BINDS NAMES: renaming one file or folder at any depth (its content, position and everything else
   unchanged; names are texts of code points below 2^21, i.e. any Python str) changes the structure hash of every
   enclosing folder -- or exhibits an explicit collision of the hash primitive.  Uses that the UTF-8 encoder is injective
   (C07_utf8_injective: UTF-8 is a prefix code), that a structure item is the digest of name bytes ++ fixed-width child
   digest, and the injectivity of hash_of_hash_list up to permutation. *)
Theorem C07_utf8_injective : forall t t', Forall valid_cp t -> Forall valid_cp t' -> utf8 t = utf8 t' -> t = t'.
Proof. exact utf8_inj. Qed.
Print Assumptions C07_utf8_injective.
Theorem C07_structure_hash_binds_names : forall Hb, (forall f b, Forall is_byte (Hb f b) /\ length (Hb f b) = width f) ->
  forall f t t', renamed1 t t' -> forall c s c' s',
  vhash Hb f t = Some (c, s) -> vhash Hb f t' = Some (c', s') -> s = s' -> collision Hb f.
Proof. exact struct_sensitive. Qed.
Print Assumptions C07_structure_hash_binds_names.
(* ... and for what create records / verify -dh recomputes over the non-ignored entries *)
Theorem C07_recorded_structure_hash_binds_names : forall Hb matches C, (forall f b, Forall is_byte (Hb f b) /\ length (Hb f b) = width f) ->
  forall spec f p (d d' : node C) c s c' s',
  renamed1 (prune matches C spec p d) (prune matches C spec p d') ->
  dirhash Hb matches C spec f p d = Some (c, s) -> dirhash Hb matches C spec f p d' = Some (c', s') -> s = s' -> collision Hb f.
Proof. exact dirhash_struct_sensitive. Qed.
Print Assumptions C07_recorded_structure_hash_binds_names.
Example C07_renamed1_nonvacuous :
  renamed1 (VD [([97%N], VF [1%N]); ([98%N], VD [([99%N], VF [2%N])])]) (VD [([97%N], VF [1%N]); ([98%N], VD [([120%N; 233%N], VF [2%N])])]).
Proof.
  apply (r_down [([97%N], VF [1%N])] [98%N] (VD [([99%N], VF [2%N])]) (VD [([120%N; 233%N], VF [2%N])]) []).
  - repeat constructor.
  - apply (r_here [] [99%N] [120%N; 233%N] (VF [2%N]) []); [discriminate|repeat constructor|repeat constructor].
Qed.
