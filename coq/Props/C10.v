(* C10 -- manifests and chain files read back exactly what was written.

   Objects: Model/Emit.v (xhashlist, xchain: every attribute of the Python classes).  Writers: emit_hashlist,
   emit_chain (Model/Emit.v).  Readers: read_hashlist, read_chain, the iterparse state machines over the event list of
   a tree (Model/Read.v).  `wf` / `canon`: Model/Read.v, every clause commented there.
   Trusted premise (header of Model/Read.v): serialise + indent + parse delivers `events x` for trees whose text is
   XML Char minus category Cc (plus TAB).  Text is `list N` of code points throughout. *)
From Coq Require Import String.
From MHL Require Import Model.Read Proofs.ReadFacts.
Local Open Scope string_scope.
Local Open Scope list_scope.
Local Open Scope N_scope.

(* Every well-formed hash list comes back from the tool's reader in canonical form: paths (any code points), sizes
   (0 included), every entry with format / digest / action / hash date, directory content + structure hashes, previous
   paths, root hash, ignore patterns, creator info (dates, host, tool + version, authors with email / phone / role,
   location, comment), process type, references. *)
Theorem hashlist_roundtrip : forall o, wf o = true -> read_hashlist (emit_hashlist o) = Some (canon o).
Proof. exact hashlist_roundtrip_proof. Qed.
Print Assumptions hashlist_roundtrip.

(* Chain entries come back in file order, none dropped, none reordered; sequence numbers as the attribute strings *)
Theorem chain_roundtrip : forall c, wf_chain c = true -> read_chain (emit_chain c) = Some (canon_chain c).
Proof. exact chain_roundtrip_proof. Qed.
Print Assumptions chain_roundtrip.

(* write_chain(chain, new_hash_list) appends the entry of the new generation after the existing ones *)
Theorem chain_append_roundtrip : forall c file c4 number,
  wf_chain c = true ->
  read_chain (emit_chain (c ++ [chain_entry_of_hashlist file c4 number]))
  = Some (canon_chain c ++ [canon_chainent (chain_entry_of_hashlist file c4 number)]).
Proof.
  intros c file c4 number H. rewrite chain_roundtrip_proof.
  - unfold canon_chain. now rewrite map_app.
  - unfold wf_chain in *. rewrite forallb_app, H. reflexivity.
Qed.
Print Assumptions chain_append_roundtrip.

(* Distinct canonical objects are written as distinct documents (used by C05 / C06: a manifest determines its
   generation) *)
Corollary emit_injective : forall o1 o2,
  wf o1 = true -> wf o2 = true -> canon o1 = o1 -> canon o2 = o2 -> emit_hashlist o1 = emit_hashlist o2 -> o1 = o2.
Proof. exact emit_injective_proof. Qed.
Print Assumptions emit_injective.
Corollary emit_chain_injective : forall c1 c2,
  wf_chain c1 = true -> wf_chain c2 = true -> canon_chain c1 = c1 -> canon_chain c2 = c2 -> emit_chain c1 = emit_chain c2 -> c1 = c2.
Proof. exact emit_chain_injective_proof. Qed.
Print Assumptions emit_chain_injective.

(* The readers depend on a tree only through what a parser reports of it (empty text = no text) *)
Theorem readers_see_the_infoset : forall x, read_hashlist (infoset x) = read_hashlist x /\ read_chain (infoset x) = read_chain x.
Proof. intros x. split; [apply read_hashlist_infoset|apply read_chain_infoset]. Qed.
Print Assumptions readers_see_the_infoset.

(* The building blocks that carry numbers and dates through text *)
Theorem size_roundtrip : forall n, N_of_dec (dec_of_N n) = Some n.
Proof. exact N_of_dec_of_N. Qed.
Print Assumptions size_roundtrip.
Theorem hashdate_roundtrip : forall d, date_ok d = true -> iso_parse (iso_format true d) = Some d.
Proof. exact iso_parse_format. Qed.
Print Assumptions hashdate_roundtrip.

(* ---- non-vacuity: a rich concrete object ------------------------------------------------------------- *)
Definition ex_date : xdate := mkXDate 2020 1 15 13 0 0 123456 60.
Definition ex_date0 : xdate := mkXDate 1999 12 31 23 59 59 0 (-570).
Definition ex_file : xrecord :=
  mkXRecord (Some [83; 111; 117; 110; 100; 47; 97; 32; 38; 32; 60; 98; 62; 32; 8232; 25991; 20214; 160; 127916; 46; 119; 97; 118])
            (* "Sound/a & <b> " U+2028 U+6587 U+4EF6 U+00A0 U+1F3AC ".wav": XML specials, a line separator, CJK, NBSP, astral *)
            false (Some 0) (Some ex_date0)
            [mkXEntry (t "xxh64") (Some (t "0ea03b369a463d9d")) (Some (t "verified")) (Some ex_date) None;
             mkXEntry (t "md5") (Some (t "9e107d9d372bb6826bd81d3542a419d6")) (Some (t "original")) (Some ex_date0) None;
             mkXEntry (t "c4") (Some (t "c41x")) None None None]
            (Some (t "old name/x.wav")).
Definition ex_dir : xrecord :=
  mkXRecord (Some (t "Sound")) true None (Some ex_date)
            [mkXEntry (t "xxh64") (Some (t "aaaa")) (Some (t "original")) (Some ex_date) (Some (t "bbbb"));
             mkXEntry (t "c4") (Some (t "c42y")) None (Some ex_date0) (Some (t "c43z"))]
            None.
Definition ex_root : xrecord :=
  mkXRecord (Some (t "/abs/root")) true None None
            [mkXEntry (t "xxh64") (Some (t "cccc")) (Some (t "original")) (Some ex_date) (Some (t "dddd"))] None.
Definition ex_hashlist : xhashlist :=
  mkXHashList
    (Some (mkXCreator (Some (t "2020-01-15T13:00:00+01:00")) (Some (t "host.local")) (Some (mkXTool (Some (t "ascmhl")) (Some (t "1.2"))))
                      [mkXAuthor (Some (t "A. <Author> & Co")) (Some (t "a@b.cd")) (Some (t "+1 234")) (Some (t "DIT"));
                       mkXAuthor None None None (Some (t "Loader"))]
                      (Some (t "Set 7")) (Some (t """take"" 3"))))
    (mkXProcInfo (Some (mkXProcess (Some (t "in-place")) None)) (Some ex_root)
                 (Some [Some (t ".DS_Store"); Some (t "ascmhl"); Some (t "ascmhl/"); Some (t "*.tmp")]))
    [ex_file; ex_dir]
    [mkXRef (Some (t "Sound/ascmhl/0001_Sound_2020-01-15_120000Z.mhl")) (Some (t "c44w"))].

Example ex_wf : wf ex_hashlist = true.
Proof. vm_compute. reflexivity. Qed.
(* ... the example is not already canonical (entries unsorted, a modification date): the theorem says something *)
Example ex_not_canonical : canon ex_hashlist <> ex_hashlist.
Proof. vm_compute. discriminate. Qed.
Example ex_roundtrip_computed : read_hashlist (emit_hashlist ex_hashlist) = Some (canon ex_hashlist).
Proof. vm_compute. reflexivity. Qed.
Example ex_canonical_exists : wf (canon ex_hashlist) = true /\ canon (canon ex_hashlist) = canon ex_hashlist.
Proof. vm_compute. split; reflexivity. Qed.
Example ex_entries_sorted :
  map xe_fmt (xr_entries (hd ex_file (xh_records (canon ex_hashlist)))) = [t "c4"; t "md5"; t "xxh64"].
Proof. vm_compute. reflexivity. Qed.

Definition ex_chain : xchain :=
  [mkXChainEnt (SeqStr (t "1")) (Some (t "0001_a_2020-01-15_120000Z.mhl")) (Some (t "c4")) (Some (t "c41a"));
   mkXChainEnt (SeqStr (t "2")) (Some (t "0002_a_2020-01-16_120000Z.mhl")) (Some (t "c4")) (Some (t "c42b"));
   mkXChainEnt (SeqInt 10) (Some (t "0010_a & b_2020-01-17_120000Z.mhl")) (Some (t "c4")) (Some (t "c43c"))].
Example ex_chain_wf : wf_chain ex_chain = true.
Proof. vm_compute. reflexivity. Qed.
Example ex_chain_order : option_map (map ce_no) (read_chain (emit_chain ex_chain)) = Some [SeqStr (t "1"); SeqStr (t "2"); SeqStr (t "10")].
Proof. vm_compute. reflexivity. Qed.

(* ---- why two of the wf clauses are there: the information really is lost ------------------------------ *)
(* an author literally named "-" comes back without a name (the writer takes the name for the reader's sentinel) *)
Definition ex_dash : xhashlist :=
  mkXHashList (Some (mkXCreator (Some (t "d")) (Some (t "h")) (Some (mkXTool (Some (t "n")) (Some (t "v"))))
                                [mkXAuthor (Some (t "-")) None None None] None None))
              (mkXProcInfo (Some (mkXProcess (Some (t "in-place")) None)) None (Some [Some (t "x")])) [] [].
Example author_dash_is_lost :
  wf ex_dash = false /\
  option_map (fun h => option_map (fun c => map xa_name (xc_authors c)) (xh_creator h)) (read_hashlist (emit_hashlist ex_dash))
  = Some (Some [None]).
Proof. vm_compute. split; reflexivity. Qed.
(* a directory record of size 0 comes back without size (`if media_hash.file_size:` in the directory builder only) *)
Definition ex_dir0 : xhashlist :=
  mkXHashList (xh_creator ex_dash) (xh_process ex_dash) [mkXRecord (Some (t "D")) true (Some 0) None [] None] [].
Example directory_size_zero_is_lost :
  wf ex_dir0 = false /\ option_map (fun h => map xr_size (xh_records h)) (read_hashlist (emit_hashlist ex_dir0)) = Some [None].
Proof. vm_compute. split; reflexivity. Qed.
(* ... whereas a file of size 0 keeps it (repaired by 14dc910) *)
Example file_size_zero_is_kept :
  option_map (fun h => map xr_size (xh_records h)) (read_hashlist (emit_hashlist ex_hashlist)) = Some [Some 0; None].
Proof. vm_compute. reflexivity. Qed.
(* the emitted example lies in the domain of the trusted premise *)
Example ex_tree_ok : tree_ok (emit_hashlist ex_hashlist) = true.
Proof. vm_compute. reflexivity. Qed.
