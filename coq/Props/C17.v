(* C17 -- renamed files keep their identity when rename detection is on.  Statements only.
   PARTIAL: proved are the soundness of the matching loop (a recorded path is taken off the missing list only when a
   new path carries the digest it is identified by -- the first entry ever recorded for it -- compared in that entry's
   format, re-hashing the new file in the old format when needed), the effect of a match (previous path stored on the
   new record, path marked found) and that a record with a previous path is indexed under both names.  That each
   renamed file of a tree with pairwise distinct contents IS matched, and the behaviour of the following verify / diff
   / create runs, are carried by the lockstep correspondence and the oracle. *)
From MHL Require Import Model.Commands Proofs.BaseFacts Proofs.RenameFacts Proofs.ReloadFacts Proofs.NestedFacts.

Theorem C17_found_only_on_identity : forall Hb C hs t np st nf x,
  In x (dr_found (dr_step Hb C hs t np st nf)) ->
  In x (dr_found st) \/ (x = nf /\ exists nfe, identity_of hs nf = Some nfe /\ matches_identity Hb C t st np nfe).
Proof. exact dr_step_found. Qed.
Print Assumptions C17_found_only_on_identity.

Theorem C17_detection_sound : forall Hb C hs t sess newp nfp x,
  In x (dr_found (detect_renames Hb C hs t sess newp nfp)) -> In x nfp /\ exists nfe, identity_of hs x = Some nfe.
Proof. exact detect_renames_sound. Qed.
Print Assumptions C17_detection_sound.

Theorem C17_match_records_previous_path : forall Hb C hs t np st nf nfe hr r e,
  dr_abort st = false -> identity_of hs nf = Some nfe -> sess_find (dr_sess st) np = Some (hr, r) -> r_path r <> [] ->
  find (fun e => fmt_eqb (e_fmt e) (e_fmt nfe)) (r_entries r) = Some e -> e_digest e = e_digest nfe ->
  let st' := dr_step Hb C hs t np st nf in
  In nf (dr_found st') /\ dr_abort st' = false /\
  dr_sess st' = sess_set_prev (dr_sess st) hr (r_path r) (strip_prefix (lh_root (route hs (root_hist hs) nf)) nf).
Proof. exact dr_step_records. Qed.
Print Assumptions C17_match_records_previous_path.

Theorem C17_indexed_under_both_names : forall r old,
  rec_keys_match (set_prev r old) old = true /\ rec_keys_match (set_prev r old) (r_path r) = true.
Proof. exact record_found_under_both_names. Qed.
Theorem C17_previous_path_touches_one_record : forall nl rel prev, rel <> [] ->
  nl_records (nl_set_prev nl rel prev) = map (fun r => if path_eqb (r_path r) rel then set_prev r prev else r) (nl_records nl) /\
  nl_root (nl_set_prev nl rel prev) = nl_root nl.
Proof. exact nl_set_prev_records. Qed.
Print Assumptions C17_previous_path_touches_one_record.

(* the rename map that verify / diff / create apply to the recorded paths (as repaired by the fix commit "a file renamed
   again in a later generation is expected under its latest name only"): within one hash list its own renames win;
   a path known so far follows a further rename of its target -- so chains a -> b -> c over several generations resolve
   to the latest name and neither a nor b is reported missing *)
Theorem C17_rename_map_step : forall h m g k,
  lookup_last (rename_step h m g) k =
  match lookup_last (gen_renames h g) k with
  | Some v => Some v
  | None => option_map (fun v => match lookup_last (gen_renames h g) v with Some p => p | None => v end) (lookup_last m k)
  end.
Proof. exact rename_step_lookup. Qed.
Print Assumptions C17_rename_map_step.
Theorem C17_rename_chain_resolved : forall h m g a b c,
  lookup_last m a = Some b -> lookup_last (gen_renames h g) a = None -> lookup_last (gen_renames h g) b = Some c ->
  lookup_last (rename_step h m g) a = Some c /\ lookup_last (rename_step h m g) b = Some c.
Proof. exact rename_chain_resolved. Qed.
Print Assumptions C17_rename_chain_resolved.

(* COMPLETENESS of the matching loop: if the run does not abort, a missing path nf IS taken off the missing list as soon
   as some new path np is a file whose bytes carry nf's identity (the digest first recorded for nf, in that entry's
   format) -- whatever else the session holds and in whatever order the two loops run.  (The entries of np's new
   record are the current digests of its bytes: C04_digest_is_current.)  With pairwise distinct contents this is
   exactly "each renamed file is matched". *)
Theorem C17_detection_complete : forall Hb C hs t sess newp nfp np nf nfe hr r c,
  dr_abort (detect_renames Hb C hs t sess newp nfp) = false -> In np newp -> In nf nfp -> identity_of hs nf = Some nfe ->
  sess_find sess np = Some (hr, r) -> (forall e, In e (r_entries r) -> e_digest e = digest_text Hb (e_fmt e) c) ->
  get C t np = Some (File c) -> digest_text Hb (e_fmt nfe) c = e_digest nfe ->
  In nf (dr_found (detect_renames Hb C hs t sess newp nfp)).
Proof. exact detect_renames_complete. Qed.
Print Assumptions C17_detection_complete.

(* when no recorded path is absent from the tree, rename detection has nothing to compare: `create -dr` is then the same
   function as `create` -- same tree afterwards, same observation (exit code, generations written, reports, writes) --
   for any nesting, formats, options and patterns.  So every theorem about `create` on an unchanged tree (C03, C04, C06,
   C09 for flat and nested histories) holds verbatim with -dr. *)
Theorem C17_dr_with_nothing_missing_is_plain_create : forall Hb matches C cdig ser (t : node C) hs req no_dh ip ifl,
  load C cdig t = inl hs ->
  let spec := set_patterns (latest_patterns (lh_gens (root_hist hs))) ip (pattern_file_lines ifl) in
  diff_paths (expected_paths hs) (visited (events matches C spec [] t)) = [] ->
  create_folder Hb matches C cdig ser t req no_dh true ip ifl = create_folder Hb matches C cdig ser t req no_dh false ip ifl.
Proof. exact create_dr_nothing_missing. Qed.
Print Assumptions C17_dr_with_nothing_missing_is_plain_create.
