(* C11 -- every file the tool writes is valid against the published schemas.
   Sections 1-4: the schema side.  `schema_manifest` / `schema_directory` are regenerated from /repo/xsd/ASCMHL.xsd and
   /repo/xsd/ASCMHLDirectory.xsd on every run (Gen/Generated.v, types in Model/SchemaDef.v); `validate` is the generic
   executable validator of Model/Schema.v -- the same function that is extracted and compared with libxml2
   (lxml.etree.XMLSchema) on the tool's real output and on systematic mutants of it (harness/vh/props/c11.py).
   Statements only; proofs are in Proofs/SchemaFacts.v (sections 1-4: the schema side) and Proofs/EmitValidFacts.v
   (section 5: the property itself, C11_manifest_valid / C11_chain_valid, for the writers' model of Model/Emit.v). *)
From Coq Require Import String.
From MHL Require Import Gen.Generated Model.Codec Model.Schema Proofs.SchemaFacts.

(* ------------------------------------------------------------------------------------------------------------
   1. The validator decides exactly the declarative meaning of the schema (for EVERY schema value of the subset and
      every document: no determinism / unique-particle-attribution assumption, no fuel that could run out).
      `ValidDoc`, `Valid`, `MP` (particle), `MB` (body) are defined in Model/Schema.v without any search:
      occurrence = concatenation of n chunks with min <= n <= max, sequence = consecutive split, choice = one member. *)
Theorem C11_validator_exact : forall s x, validate s x = true <-> ValidDoc s x.
Proof. exact validate_iff. Qed.
Print Assumptions C11_validator_exact.

Theorem C11_type_exact : forall t x, valid_type t x = true <-> Valid t x.
Proof. exact valid_type_iff. Qed.
Print Assumptions C11_type_exact.

Theorem C11_matcher_exact : forall p kids, existsb is_nil (match_particle p kids) = true <-> MP p kids.
Proof. exact match_particle_iff. Qed.
Print Assumptions C11_matcher_exact.

(* `validate` is a total function (Gallina Fixpoint, structural on the schema): it answers on every input *)
Theorem C11_validate_total : forall s x, {validate s x = true} + {validate s x = false}.
Proof. intros s x. destruct (validate s x); auto. Qed.
Print Assumptions C11_validate_total.

(* ------------------------------------------------------------------------------------------------------------
   2. Compositional rules (what the proof about emitted documents is assembled from). *)

(* a sequence: the k-th group of children matches the k-th particle *)
Theorem C11_seq_intro : forall ps groups, Forall2 MP ps groups -> MB (PSeq ps) (concat groups).
Proof. exact MB_seq_intro. Qed.
Print Assumptions C11_seq_intro.

Theorem C11_seq_app : forall ps qs l1 l2, MSeq ps l1 -> MSeq qs l2 -> MSeq (ps ++ qs) (l1 ++ l2).
Proof. exact MSeq_app. Qed.
Print Assumptions C11_seq_app.

(* n elements, each valid against the element particle, min <= n <= max *)
Theorem C11_occurs_repeat : forall mn mx name t xs,
  Forall (fun x => x_tag x = name /\ Valid t x) xs -> (mn <= length xs)%nat -> max_ok mx (length xs) ->
  MP (POccurs mn mx (PElem name t)) xs.
Proof. exact MP_repeat_elems. Qed.
Print Assumptions C11_occurs_repeat.

(* general form: n chunks each matching the body *)
Theorem C11_occurs_intro : forall mn mx b chunks,
  Forall (MB b) chunks -> (mn <= length chunks)%nat -> max_ok mx (length chunks) -> MP (POccurs mn mx b) (concat chunks).
Proof. exact MP_intro. Qed.
Print Assumptions C11_occurs_intro.

Theorem C11_occurs_app : forall mn1 mn2 m1 m2 b l1 l2,
  MP (POccurs mn1 (Some m1) b) l1 -> MP (POccurs mn2 (Some m2) b) l2 ->
  MP (POccurs (mn1 + mn2) (Some (m1 + m2)) b) (l1 ++ l2).
Proof. exact MP_app. Qed.
Print Assumptions C11_occurs_app.

(* optional particles: absent, or present once *)
Theorem C11_optional : forall b (o : option (list xml)),
  (forall l, o = Some l -> MB b l) -> MP (POccurs 0 (Some 1) b) (match o with Some l => l | None => [] end).
Proof. exact MP_option. Qed.
Print Assumptions C11_optional.

Theorem C11_required : forall b l, MB b l -> MP (POccurs 1 (Some 1) b) l.
Proof. exact MP_required. Qed.
Print Assumptions C11_required.

(* choice introduction, and the shape of <hashes>: one or more items, each matching some member of the choice *)
Theorem C11_choice_intro : forall ps p l, In p ps -> MP p l -> MB (PChoice ps) l.
Proof. exact MB_choice_intro. Qed.
Print Assumptions C11_choice_intro.

Theorem C11_choice_repeat : forall mn mx ps items,
  Forall (fun l => exists p, In p ps /\ MP p l) items -> (mn <= length items)%nat -> max_ok mx (length items) ->
  MP (POccurs mn mx (PChoice ps)) (concat items).
Proof. exact MP_choice_repeat. Qed.
Print Assumptions C11_choice_repeat.

(* weaker bounds accept more *)
Theorem C11_bounds_monotone : forall mn mx mn' mx' b l,
  (mn' <= mn)%nat -> (forall n, max_ok mx n -> max_ok mx' n) -> MP (POccurs mn mx b) l -> MP (POccurs mn' mx' b) l.
Proof. exact MP_weaken. Qed.
Print Assumptions C11_bounds_monotone.

(* elements *)
Theorem C11_complex_intro : forall p ds tag attrs c kids,
  attrs_ok ds attrs = true -> blank c = true -> MP p kids -> valid_type (TComplex p ds) (Elem tag attrs c kids) = true.
Proof. exact valid_complex_intro. Qed.
Print Assumptions C11_complex_intro.

Theorem C11_simple_intro : forall s ds tag attrs c,
  attrs_ok ds attrs = true -> stype_ok s (text_of c) = true -> valid_type (TSimple s ds) (Elem tag attrs c []) = true.
Proof. exact valid_simple_intro. Qed.
Print Assumptions C11_simple_intro.

(* ------------------------------------------------------------------------------------------------------------
   3. Simple types. *)

(* the hand-written e-mail predicate is the language of the schema's pattern  [^@]+@[^\.]+\..+  :
   email_lang s := exists a b c, s = a ++ '@' :: b ++ '.' :: c, a b c non-empty, no '@' in a, no '.' in b,
   no LF / CR in c  (XSD regular expressions are anchored, `.` excludes LF and CR) *)
Theorem C11_email_spec : forall s, email_ok s = true <-> email_lang s.
Proof. exact email_ok_spec. Qed.
Print Assumptions C11_email_spec.

(* the tool's date format (utils.datetime_isostring = datetime.isoformat() of an aware datetime; `render_datetime` is
   that format as a function of the civil-time fields, microseconds written when non-zero) is accepted by the
   xs:dateTime check for every date Python can represent (years 1..9999) and every utc offset of whole minutes within
   +-14:00 *)
Theorem C11_datetime_render : forall y mo d h mi s us neg oh om,
  civil_ok y mo d h mi s us oh om -> datetime_ok (render_datetime y mo d h mi s us neg oh om) = true.
Proof. exact datetime_ok_render. Qed.
Print Assumptions C11_datetime_render.

(* str(n) for a non-negative size / sequence number: any non-empty string of at most 24 decimal digits *)
Theorem C11_integer_digits : forall ds,
  ds <> [] -> forallb is_digit ds = true -> (length ds <= 24)%nat -> integer_ok ds = true.
Proof. exact integer_ok_digits. Qed.
Print Assumptions C11_integer_digits.

(* ------------------------------------------------------------------------------------------------------------
   4. Examples: real tool output (ascmhl create -h md5 -h xxh64 --author_name Jo --author_email jo@ex.org
      --location Set on  A/a.txt, b.txt; TZ=UTC) as trees, against the GENERATED schema values. *)
Open Scope string_scope.
Definition attrs_of (l : list (string * string)) : list (text * text) := map (fun kv => (t (fst kv), t (snd kv))) l.
Definition node (tag : string) (attrs : list (string * string)) (kids : list xml) : xml := Elem (t tag) (attrs_of attrs) None kids.
Definition leaf (tag : string) (attrs : list (string * string)) (txt : string) : xml := Elem (t tag) (attrs_of attrs) (Some (t txt)) [].

Definition ex_creatorinfo : xml :=
  node "creatorinfo" [] [
    leaf "creationdate" [] "2026-10-01T20:25:58+00:00";
    leaf "hostname" [] "vm";
    leaf "tool" [("version", "0.1.dev1+g435d5e02a")] "ascmhl";
    leaf "author" [("email", "jo@ex.org")] "Jo";
    leaf "location" [] "Set" ].
Definition ex_roothash : xml :=
  node "roothash" [] [
    node "content" [] [ leaf "md5" [("hashdate", "2026-10-01T20:25:58.533666+00:00")] "cccc5510d560d2ee358a42bd16c74be2";
                        leaf "xxh64" [("hashdate", "2026-10-01T20:25:58.533669+00:00")] "efb625d61fa5bbe1" ];
    node "structure" [] [ leaf "md5" [("hashdate", "2026-10-01T20:25:58.533666+00:00")] "470ee725fec312c1b5cdcfbe0b09f5d8";
                          leaf "xxh64" [("hashdate", "2026-10-01T20:25:58.533669+00:00")] "0fa640a40e53fcd7" ] ].
Definition ex_ignore : xml :=
  node "ignore" [] [ leaf "pattern" [] ".DS_Store"; leaf "pattern" [] "ascmhl"; leaf "pattern" [] "ascmhl/" ].
Definition ex_processinfo : xml := node "processinfo" [] [ leaf "process" [] "in-place"; ex_roothash; ex_ignore ].
Definition ex_path_a : xml := leaf "path" [("size", "3"); ("lastmodificationdate", "2026-10-01T20:25:58+00:00")] "A/a.txt".
Definition ex_md5_a (action : string) : xml :=
  leaf "md5" [("action", action); ("hashdate", "2026-10-01T20:25:58.533296+00:00")] "764efa883dda1e11db47671c4a3bbd9e".
Definition ex_xxh64_a : xml :=
  leaf "xxh64" [("action", "original"); ("hashdate", "2026-10-01T20:25:58.533367+00:00")] "d50463dd92503d34".
Definition ex_hash_a : xml := node "hash" [] [ ex_path_a; ex_md5_a "original"; ex_xxh64_a ].
Definition ex_dirhash : xml :=
  node "directoryhash" [] [
    leaf "path" [("lastmodificationdate", "2026-10-01T20:25:58+00:00")] "A";
    node "content" [] [ leaf "md5" [("hashdate", "2026-10-01T20:25:58.533475+00:00")] "b86583435871b60756e260201377bb9c";
                        leaf "xxh64" [("hashdate", "2026-10-01T20:25:58.533479+00:00")] "d1bec3d648863240" ];
    node "structure" [] [ leaf "md5" [("hashdate", "2026-10-01T20:25:58.533475+00:00")] "88682928086d12e08aafd4630293ecc9";
                          leaf "xxh64" [("hashdate", "2026-10-01T20:25:58.533479+00:00")] "82aeb5572e5090dd" ] ].
Definition ex_hashes : xml := node "hashes" [] [ ex_hash_a; ex_dirhash ].
Definition ex_references : xml :=
  node "references" [] [ node "hashlistreference" [] [
    leaf "path" [] "A/ascmhl/0001_A_2026-10-01_202558Z.mhl";
    leaf "c4" [] "c439oAe3YVCQev7M7SM13UF86QGbDUXvYjdPtjsMjhREQ5yzrEo5tz8uVZgoUbheXTfJ2ajK1QHhLkoQHTkpnouaF3" ] ].
Definition manifest_of (kids : list xml) : xml := node "hashlist" [("version", "2.0")] kids.
Definition ex_manifest : xml := manifest_of [ ex_creatorinfo; ex_processinfo; ex_hashes ].

Example C11_ex_manifest_valid : validate schema_manifest ex_manifest = true.
Proof. vm_compute. reflexivity. Qed.
(* the same through the declarative reading *)
Example C11_ex_manifest_ValidDoc : ValidDoc schema_manifest ex_manifest.
Proof. apply validate_iff. vm_compute. reflexivity. Qed.
(* a generation without records: no <hashes> element at all, only references (what the repaired writer produces) *)
Example C11_ex_no_records_valid : validate schema_manifest (manifest_of [ ex_creatorinfo; ex_processinfo; ex_references ]) = true.
Proof. vm_compute. reflexivity. Qed.

(* mutants are rejected *)
Example C11_ex_missing_creatorinfo : validate schema_manifest (manifest_of [ ex_processinfo; ex_hashes ]) = false.
Proof. vm_compute. reflexivity. Qed.
Example C11_ex_empty_hashes :           (* historical defect 1: <hashes/> for a generation without records *)
  validate schema_manifest (manifest_of [ ex_creatorinfo; ex_processinfo; node "hashes" [] [] ]) = false.
Proof. vm_compute. reflexivity. Qed.
Example C11_ex_duplicated_format :      (* historical defect 2: -sf X -sf X wrote every format element twice *)
  validate schema_manifest (manifest_of [ ex_creatorinfo; ex_processinfo;
    node "hashes" [] [ node "hash" [] [ ex_path_a; ex_md5_a "original"; ex_md5_a "original"; ex_xxh64_a; ex_xxh64_a ] ] ]) = false.
Proof. vm_compute. reflexivity. Qed.
Example C11_ex_unsorted_formats :
  validate schema_manifest (manifest_of [ ex_creatorinfo; ex_processinfo;
    node "hashes" [] [ node "hash" [] [ ex_path_a; ex_xxh64_a; ex_md5_a "original" ] ] ]) = false.
Proof. vm_compute. reflexivity. Qed.
Example C11_ex_wrong_order : validate schema_manifest (manifest_of [ ex_processinfo; ex_creatorinfo; ex_hashes ]) = false.
Proof. vm_compute. reflexivity. Qed.
Example C11_ex_bad_action :
  validate schema_manifest (manifest_of [ ex_creatorinfo; ex_processinfo;
    node "hashes" [] [ node "hash" [] [ ex_path_a; ex_md5_a "changed" ] ] ]) = false.
Proof. vm_compute. reflexivity. Qed.
Example C11_ex_roothash_after_ignore :
  validate schema_manifest (manifest_of [ ex_creatorinfo;
    node "processinfo" [] [ leaf "process" [] "in-place"; ex_ignore; ex_roothash ]; ex_hashes ]) = false.
Proof. vm_compute. reflexivity. Qed.
Example C11_ex_no_pattern :
  validate schema_manifest (manifest_of [ ex_creatorinfo;
    node "processinfo" [] [ leaf "process" [] "in-place"; node "ignore" [] [] ]; ex_hashes ]) = false.
Proof. vm_compute. reflexivity. Qed.
Example C11_ex_missing_version : validate schema_manifest (node "hashlist" [] [ ex_creatorinfo; ex_processinfo; ex_hashes ]) = false.
Proof. vm_compute. reflexivity. Qed.
Example C11_ex_unknown_attribute :
  validate schema_manifest (node "hashlist" [("version", "2.0"); ("generation", "1")] [ ex_creatorinfo; ex_processinfo; ex_hashes ]) = false.
Proof. vm_compute. reflexivity. Qed.
Example C11_ex_previous_path_before_content :
  validate schema_manifest (manifest_of [ ex_creatorinfo; ex_processinfo; node "hashes" [] [
    node "directoryhash" [] [ leaf "path" [] "B"; leaf "previousPath" [] "A"; node "content" [] []; node "structure" [] [] ] ] ]) = false.
Proof. vm_compute. reflexivity. Qed.
Example C11_ex_previous_path_in_place :
  validate schema_manifest (manifest_of [ ex_creatorinfo; ex_processinfo; node "hashes" [] [
    node "directoryhash" [] [ leaf "path" [] "B"; node "content" [] []; node "structure" [] []; leaf "previousPath" [] "A" ] ] ]) = true.
Proof. vm_compute. reflexivity. Qed.

Definition ex_chain_entry (nr file : string) : xml :=
  node "hashlist" [("sequencenr", nr)] [
    leaf "path" [] file;
    leaf "c4" [] "c439oAe3YVCQev7M7SM13UF86QGbDUXvYjdPtjsMjhREQ5yzrEo5tz8uVZgoUbheXTfJ2ajK1QHhLkoQHTkpnouaF3" ].
Definition ex_chain : xml :=
  node "ascmhldirectory" [] [ ex_chain_entry "1" "0001_t_2026-10-01_202558Z.mhl"; ex_chain_entry "2" "0002_t_2026-10-01_202559Z.mhl" ].
Example C11_ex_chain_valid : validate schema_directory ex_chain = true.
Proof. vm_compute. reflexivity. Qed.
Example C11_ex_chain_empty : validate schema_directory (node "ascmhldirectory" [] []) = false.
Proof. vm_compute. reflexivity. Qed.
Example C11_ex_chain_bad_number :
  validate schema_directory (node "ascmhldirectory" [] [ ex_chain_entry "one" "0001_t_2026-10-01_202558Z.mhl" ]) = false.
Proof. vm_compute. reflexivity. Qed.
Example C11_ex_chain_missing_c4 :
  validate schema_directory (node "ascmhldirectory" [] [ node "hashlist" [("sequencenr", "1")] [ leaf "path" [] "x.mhl" ] ]) = false.
Proof. vm_compute. reflexivity. Qed.
Example C11_ex_chain_is_not_a_manifest : validate schema_manifest ex_chain = false.
Proof. vm_compute. reflexivity. Qed.

(* dates: the hypotheses of C11_datetime_render are satisfiable, and its conclusion is not trivially true *)
Example C11_ex_civil : civil_ok 2026 10 1 20 25 58 533666 0 0.
Proof. unfold civil_ok. vm_compute. intuition discriminate. Qed.
Example C11_ex_render : render_datetime 2026 10 1 20 25 58 533666 false 0 0 = t "2026-10-01T20:25:58.533666+00:00".
Proof. vm_compute. reflexivity. Qed.
Example C11_ex_render_kathmandu : render_datetime 1999 12 31 23 59 59 0 false 5 45 = t "1999-12-31T23:59:59+05:45".
Proof. vm_compute. reflexivity. Qed.
Example C11_ex_date_feb30 : datetime_ok (t "2026-02-30T20:25:58+00:00") = false.
Proof. vm_compute. reflexivity. Qed.
(* an offset with seconds (what isoformat() prints for a local-mean-time zone, e.g. TZ=Europe/Amsterdam before 1937)
   is NOT an xs:dateTime: the hypothesis "offset of whole minutes" of C11_datetime_render cannot be dropped *)
Example C11_ex_date_lmt_offset : datetime_ok (t "1901-12-13T21:05:24+00:19:32") = false.
Proof. vm_compute. reflexivity. Qed.
Example C11_ex_email : email_ok (t "jo@ex.org") = true /\ email_ok (t "jo@org") = false /\ email_ok (t "@ex.org") = false.
Proof. vm_compute. auto. Qed.
Close Scope string_scope.

(* ------------------------------------------------------------------------------------------------------------
   5. THE PROPERTY: every document the writers produce is valid.
      Writers: emit_hashlist / emit_chain of Model/Emit.v (hashlist_xml_parser.write_hash_list, chain_xml_parser.write_chain
      as functions from the Python object model to trees; tied to the real writers by C10's correspondence and, here, by
      validating model-emitted and tool-written documents side by side).
      Hypothesis: `reach o = true` / `reach_chain c = true` (Model/Reach.v) -- executable predicates collecting the
      invariants of the objects the create / flatten commands hand to the writers; the harness evaluates the EXTRACTED
      `reach` on every object the real tool writes (hooked at write_hash_list / write_chain) and on every file read back
      by the real reader.  Which clause serves which part of the schema:
        xh_creator = Some c                      <creatorinfo> is required (the real writer raises without it)
        creator_reach: date_text_ok              <creationdate> xs:dateTime   (I7: iso_format of an in-range date)
                       author_reach (email_ok)   author/@email pattern        (property text: "syntactically valid e-mail")
        procinfo_reach: process type in enum     <process> enumeration
                        root_reach               <roothash>: entries as below; no previousPath (the schema has none there)
                        ignore = Some (_ :: _)   <ignore> needs >= 1 <pattern> (I6)
        record_reach: entry_reach (action_ok)    @action enumeration or absent (I5)
                      entry_reach (xdate_ok)     @hashdate xs:dateTime (I7)
                      opt_xdate_ok lastmod       path/@lastmodificationdate (I7)
                      fmts_ok (sorted names)     <hash>: c4? md5? sha1? xxh128? xxh3? xxh64? after the writer's sort (I2, I3)
                      fmts_ok (names)            <content>/<structure> in object order (I4, I3)
                      opt_size_ok / size absent  path/@size xs:integer (I9); no size attribute on a directory path (I10)
        (no clause)                              <hashes> / <references> omitted when empty (I1) is a property of
                                                 emit_hashlist; paths, digests, host, tool, patterns, references: xs:string
        reach_chain: non-empty                   <ascmhldirectory> needs >= 1 <hashlist>
                     c4 entries only             any other entry is written as an empty <hashlist/>
                     seq_ok                      @sequencenr xs:integer (I9)
      The proof (Proofs/EmitValidFacts.v) first shows by computation that the regenerated schema values are the
      spelled-out `expected_manifest` / `expected_directory` (fails when an .xsd changes), then goes element by element
      with the rules of section 2. *)
From MHL Require Import Model.Reach Proofs.EmitValidFacts.

Theorem C11_manifest_valid : forall o, reach o = true -> validate schema_manifest (emit_hashlist o) = true.
Proof. exact manifest_valid. Qed.
Print Assumptions C11_manifest_valid.

Theorem C11_chain_valid : forall c, reach_chain c = true -> validate schema_directory (emit_chain c) = true.
Proof. exact chain_valid. Qed.
Print Assumptions C11_chain_valid.

Definition C11_full_statement : Prop :=
  (forall o, reach o = true -> validate schema_manifest (emit_hashlist o) = true)
  /\ (forall c, reach_chain c = true -> validate schema_directory (emit_chain c) = true).
Theorem C11_full : C11_full_statement.
Proof. exact (conj manifest_valid chain_valid). Qed.
Print Assumptions C11_full.

(* the regenerated schema values are the ones the proof spells out *)
Theorem C11_schema_manifest_shape : schema_manifest = expected_manifest.
Proof. exact schema_manifest_shape. Qed.
Print Assumptions C11_schema_manifest_shape.
Theorem C11_schema_directory_shape : schema_directory = expected_directory.
Proof. exact schema_directory_shape. Qed.
Print Assumptions C11_schema_directory_shape.

(* the formatters: what iso_format prints for an in-range date, what str(n) prints, is accepted *)
Theorem C11_iso_format_valid : forall keep d, xdate_ok d = true -> datetime_ok (iso_format keep d) = true.
Proof. exact datetime_ok_iso_format. Qed.
Print Assumptions C11_iso_format_valid.
Theorem C11_iso_format_is_render : forall keep d, xdate_ok d = true ->
  iso_format keep d = render_datetime (dt_y d) (dt_mo d) (dt_d d) (dt_h d) (dt_mi d) (dt_s d) (if keep then dt_us d else 0%N)
                                      (dt_off d <? 0)%Z (Z.abs_N (dt_off d) / 60)%N (Z.abs_N (dt_off d) mod 60)%N.
Proof. exact iso_format_render. Qed.
Print Assumptions C11_iso_format_is_render.
Theorem C11_dec_valid : forall n, size_ok n = true -> integer_ok (dec_of_N n) = true.
Proof. exact integer_ok_dec_of_N. Qed.
Print Assumptions C11_dec_valid.

(* the slot clause of `reach` in words: strictly increasing by code point (= sorted and free of duplicates) and only names
   the schema lists -- which are exactly the formats the tool supports (regenerated constant) *)
Theorem C11_fmts_ok_meaning : forall l,
  fmts_ok l = true <-> Sorted.StronglySorted text_lt l /\ Forall (fun x => In x schema_format_order) l.
Proof. exact fmts_ok_iff. Qed.
Print Assumptions C11_fmts_ok_meaning.
Theorem C11_schema_formats_are_supported : forall x, In x schema_format_order <-> In x supported_hashformats.
Proof. exact schema_formats_are_supported. Qed.
Print Assumptions C11_schema_formats_are_supported.

(* ---- non-vacuity: rich objects satisfy `reach`; their documents validate; broken objects fail both ---- *)
Open Scope string_scope.
Definition ex_date (us : N) (off : Z) : xdate := mkXDate 2026 10 1 20 25 58 us off.
Definition ex_entry (f a : string) (us : N) : xentry := mkXEntry (t f) (Some (t "0123abcd")) (Some (t a)) (Some (ex_date us 345)) None.
Definition ex_dentry (f : string) : xentry := mkXEntry (t f) (Some (t "c0ffee")) None (Some (ex_date 7 (-150))) (Some (t "beef")).
Definition ex_file (p : string) (es : list xentry) (prev : option text) : xrecord :=
  mkXRecord (Some (t p)) false (Some 0%N) (Some (ex_date 0 345)) es prev.
Definition ex_dir (p : string) (es : list xentry) : xrecord := mkXRecord (Some (t p)) true None (Some (ex_date 0 840)) es (Some (t "Old")).
Definition ex_creator : xcreator :=
  mkXCreator (Some (t "2026-10-01T20:25:58+05:45")) (Some (t "vm")) (Some (mkXTool (Some (t "ascmhl")) (Some (t "1.0"))))
             [mkXAuthor (Some (t "Jo")) (Some (t "jo@ex.org")) (Some (t "+1 555")) (Some (t "DIT")); mkXAuthor None None None None]
             (Some (t "Set")) (Some (t "two words")).
Definition ex_procinfo (pats : list (option text)) : xprocinfo :=
  mkXProcInfo (Some (mkXProcess (Some (t "in-place")) None))
              (Some (mkXRecord (Some (t ".")) true None None [ex_dentry "md5"; ex_dentry "xxh64"] None))
              (Some pats).
Definition ex_object : xhashlist :=
  mkXHashList (Some ex_creator) (ex_procinfo [Some (t ".DS_Store"); Some (t "ascmhl"); Some (t "ascmhl/")])
    [ (* entries in request order: the writer sorts them *)
      ex_file "A/a.txt" [ex_entry "xxh64" "verified" 1; ex_entry "md5" "original" 999999; ex_entry "c4" "original" 0] None;
      ex_dir "A" [ex_dentry "md5"; ex_dentry "xxh64"];
      ex_file "b.txt" [ex_entry "sha1" "failed" 5] (Some (t "old/b.txt")) ]
    [mkXRef (Some (t "A/ascmhl/0001_A_2026-10-01_202558Z.mhl")) (Some (t "c43abc"))].

Example C11_ex_object_reach : reach ex_object = true.
Proof. vm_compute. reflexivity. Qed.
Example C11_ex_object_valid : validate schema_manifest (emit_hashlist ex_object) = true.
Proof. vm_compute. reflexivity. Qed.
(* a generation without records and without references (empty folder) *)
Example C11_ex_empty_generation :
  let o := mkXHashList (Some ex_creator) (ex_procinfo [Some (t "ascmhl")]) [] [] in
  reach o = true /\ validate schema_manifest (emit_hashlist o) = true.
Proof. vm_compute. auto. Qed.
(* objects outside `reach`, and their documents are indeed invalid: the clauses are not stronger than needed here *)
Example C11_ex_obj_no_pattern :                       (* I6 *)
  let o := mkXHashList (Some ex_creator) (ex_procinfo []) [] [] in
  reach o = false /\ validate schema_manifest (emit_hashlist o) = false.
Proof. vm_compute. auto. Qed.
Example C11_ex_obj_duplicate_format :                 (* I2: what -sf X -sf X produced *)
  let o := mkXHashList (Some ex_creator) (ex_procinfo [None])
             [ex_file "x" [ex_entry "md5" "original" 1; ex_entry "md5" "original" 1] None] [] in
  reach o = false /\ validate schema_manifest (emit_hashlist o) = false.
Proof. vm_compute. auto. Qed.
Example C11_ex_xxh32 :                            (* I3: a format the schema does not list *)
  let o := mkXHashList (Some ex_creator) (ex_procinfo [None]) [ex_file "x" [ex_entry "xxh32" "original" 1] None] [] in
  reach o = false /\ validate schema_manifest (emit_hashlist o) = false.
Proof. vm_compute. auto. Qed.
Example C11_ex_unsorted_directory_formats :       (* I4: directory entries are NOT sorted by the writer *)
  let o := mkXHashList (Some ex_creator) (ex_procinfo [None]) [ex_dir "A" [ex_dentry "xxh64"; ex_dentry "md5"]] [] in
  reach o = false /\ validate schema_manifest (emit_hashlist o) = false.
Proof. vm_compute. auto. Qed.
Example C11_ex_action_new :                       (* I5: 'new' is not in the enumeration *)
  let o := mkXHashList (Some ex_creator) (ex_procinfo [None]) [ex_file "x" [ex_entry "md5" "new" 1] None] [] in
  reach o = false /\ validate schema_manifest (emit_hashlist o) = false.
Proof. vm_compute. auto. Qed.
Example C11_ex_directory_size :                   (* I10: a directory path has no size attribute *)
  let o := mkXHashList (Some ex_creator) (ex_procinfo [None])
             [mkXRecord (Some (t "A")) true (Some 5%N) None [ex_dentry "md5"] None] [] in
  reach o = false /\ validate schema_manifest (emit_hashlist o) = false.
Proof. vm_compute. auto. Qed.
Example C11_ex_obj_bad_email :
  let c := mkXCreator (Some (t "2026-10-01T20:25:58+05:45")) (Some (t "vm")) None [mkXAuthor None (Some (t "jo.ex.org")) None None] None None in
  let o := mkXHashList (Some c) (ex_procinfo [None]) [] [] in
  reach o = false /\ validate schema_manifest (emit_hashlist o) = false.
Proof. vm_compute. auto. Qed.
Example C11_ex_feb_30 :                           (* I7 *)
  let o := mkXHashList (Some ex_creator) (ex_procinfo [None])
             [mkXRecord (Some (t "x")) false None (Some (mkXDate 2026 2 30 0 0 0 0 0)) [] None] [] in
  reach o = false /\ validate schema_manifest (emit_hashlist o) = false.
Proof. vm_compute. auto. Qed.

Definition ex_xchain : xchain :=
  [mkXChainEnt (SeqStr (t "1")) (Some (t "0001_t_2026-10-01_202558Z.mhl")) (Some (t "c4")) (Some (t "c43abc"));
   chain_entry_of_hashlist (t "0002_t_2026-10-01_202559Z.mhl") (t "c44def") 2].
Example C11_ex_xchain : reach_chain ex_xchain = true /\ validate schema_directory (emit_chain ex_xchain) = true.
Proof. vm_compute. auto. Qed.
Example C11_ex_xchain_empty : reach_chain [] = false /\ validate schema_directory (emit_chain []) = false.
Proof. vm_compute. auto. Qed.
Example C11_ex_xchain_md5 :
  let c := [mkXChainEnt (SeqInt 1) (Some (t "x.mhl")) (Some (t "md5")) (Some (t "00"))] in
  reach_chain c = false /\ validate schema_directory (emit_chain c) = false.
Proof. vm_compute. auto. Qed.
Example C11_ex_xchain_seq :
  let c := [mkXChainEnt (SeqStr (t "0001.")) (Some (t "x.mhl")) (Some (t "c4")) (Some (t "c4"))] in
  reach_chain c = false /\ validate schema_directory (emit_chain c) = false.
Proof. vm_compute. auto. Qed.
Close Scope string_scope.
