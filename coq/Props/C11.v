(* C11 -- every file the tool writes is valid against the published schemas.
   THIS HALF: the schema side.  `schema_manifest` / `schema_directory` are regenerated from /repo/xsd/ASCMHL.xsd and
   /repo/xsd/ASCMHLDirectory.xsd on every run (Gen/Generated.v, types in Model/SchemaDef.v); `validate` is the generic
   executable validator of Model/Schema.v -- the same function that is extracted and compared with libxml2
   (lxml.etree.XMLSchema) on the tool's real output and on systematic mutants of it (harness/vh/props/c11.py).
   Statements only; proofs are in Proofs/SchemaFacts.v.  The other half (the writers' model `emit_hashlist`,
   `emit_chain` of Model/Emit.v and the theorems `manifest_valid`, `chain_valid`) is marked TODO at the end. *)
From Coq Require Import String.
From MHL Require Import Gen.Generated Model.Codec Model.Schema Proofs.SchemaFacts.

(* ------------------------------------------------------------------------------------------------------------
   1. The validator decides exactly the declarative meaning of the schema (for EVERY schema value of the subset and
      every document: no determinism / unique-particle-attribution assumption, no fuel that could run out).
      `ValidDoc`, `Valid`, `MP` (particle), `MB` (body) are defined in Model/Schema.v without any search:
      occurrence = concatenation of n chunks with min <= n <= max, sequence = consecutive split, choice = one member. *)
Theorem C11_validator_exact : forall s x, validate s x = true <-> ValidDoc s x.
Proof. exact validate_iff. Qed.
Print Assumptions C11_validator_exact.

Theorem C11_type_exact : forall t x, valid_type t x = true <-> Valid t x.
Proof. exact valid_type_iff. Qed.
Print Assumptions C11_type_exact.

Theorem C11_matcher_exact : forall p kids, existsb is_nil (match_particle p kids) = true <-> MP p kids.
Proof. exact match_particle_iff. Qed.
Print Assumptions C11_matcher_exact.

(* `validate` is a total function (Gallina Fixpoint, structural on the schema): it answers on every input *)
Theorem C11_validate_total : forall s x, {validate s x = true} + {validate s x = false}.
Proof. intros s x. destruct (validate s x); auto. Qed.
Print Assumptions C11_validate_total.

(* ------------------------------------------------------------------------------------------------------------
   2. Compositional rules (what the proof about emitted documents is assembled from). *)

(* a sequence: the k-th group of children matches the k-th particle *)
Theorem C11_seq_intro : forall ps groups, Forall2 MP ps groups -> MB (PSeq ps) (concat groups).
Proof. exact MB_seq_intro. Qed.
Print Assumptions C11_seq_intro.

Theorem C11_seq_app : forall ps qs l1 l2, MSeq ps l1 -> MSeq qs l2 -> MSeq (ps ++ qs) (l1 ++ l2).
Proof. exact MSeq_app. Qed.
Print Assumptions C11_seq_app.

(* n elements, each valid against the element particle, min <= n <= max *)
Theorem C11_occurs_repeat : forall mn mx name t xs,
  Forall (fun x => x_tag x = name /\ Valid t x) xs -> (mn <= length xs)%nat -> max_ok mx (length xs) ->
  MP (POccurs mn mx (PElem name t)) xs.
Proof. exact MP_repeat_elems. Qed.
Print Assumptions C11_occurs_repeat.

(* general form: n chunks each matching the body *)
Theorem C11_occurs_intro : forall mn mx b chunks,
  Forall (MB b) chunks -> (mn <= length chunks)%nat -> max_ok mx (length chunks) -> MP (POccurs mn mx b) (concat chunks).
Proof. exact MP_intro. Qed.
Print Assumptions C11_occurs_intro.

Theorem C11_occurs_app : forall mn1 mn2 m1 m2 b l1 l2,
  MP (POccurs mn1 (Some m1) b) l1 -> MP (POccurs mn2 (Some m2) b) l2 ->
  MP (POccurs (mn1 + mn2) (Some (m1 + m2)) b) (l1 ++ l2).
Proof. exact MP_app. Qed.
Print Assumptions C11_occurs_app.

(* optional particles: absent, or present once *)
Theorem C11_optional : forall b (o : option (list xml)),
  (forall l, o = Some l -> MB b l) -> MP (POccurs 0 (Some 1) b) (match o with Some l => l | None => [] end).
Proof. exact MP_option. Qed.
Print Assumptions C11_optional.

Theorem C11_required : forall b l, MB b l -> MP (POccurs 1 (Some 1) b) l.
Proof. exact MP_required. Qed.
Print Assumptions C11_required.

(* choice introduction, and the shape of <hashes>: one or more items, each matching some member of the choice *)
Theorem C11_choice_intro : forall ps p l, In p ps -> MP p l -> MB (PChoice ps) l.
Proof. exact MB_choice_intro. Qed.
Print Assumptions C11_choice_intro.

Theorem C11_choice_repeat : forall mn mx ps items,
  Forall (fun l => exists p, In p ps /\ MP p l) items -> (mn <= length items)%nat -> max_ok mx (length items) ->
  MP (POccurs mn mx (PChoice ps)) (concat items).
Proof. exact MP_choice_repeat. Qed.
Print Assumptions C11_choice_repeat.

(* weaker bounds accept more *)
Theorem C11_bounds_monotone : forall mn mx mn' mx' b l,
  (mn' <= mn)%nat -> (forall n, max_ok mx n -> max_ok mx' n) -> MP (POccurs mn mx b) l -> MP (POccurs mn' mx' b) l.
Proof. exact MP_weaken. Qed.
Print Assumptions C11_bounds_monotone.

(* elements *)
Theorem C11_complex_intro : forall p ds tag attrs c kids,
  attrs_ok ds attrs = true -> blank c = true -> MP p kids -> valid_type (TComplex p ds) (Elem tag attrs c kids) = true.
Proof. exact valid_complex_intro. Qed.
Print Assumptions C11_complex_intro.

Theorem C11_simple_intro : forall s ds tag attrs c,
  attrs_ok ds attrs = true -> stype_ok s (text_of c) = true -> valid_type (TSimple s ds) (Elem tag attrs c []) = true.
Proof. exact valid_simple_intro. Qed.
Print Assumptions C11_simple_intro.

(* ------------------------------------------------------------------------------------------------------------
   3. Simple types. *)

(* the hand-written e-mail predicate is the language of the schema's pattern  [^@]+@[^\.]+\..+  :
   email_lang s := exists a b c, s = a ++ '@' :: b ++ '.' :: c, a b c non-empty, no '@' in a, no '.' in b,
   no LF / CR in c  (XSD regular expressions are anchored, `.` excludes LF and CR) *)
Theorem C11_email_spec : forall s, email_ok s = true <-> email_lang s.
Proof. exact email_ok_spec. Qed.
Print Assumptions C11_email_spec.

(* the tool's date format (utils.datetime_isostring = datetime.isoformat() of an aware datetime; `render_datetime` is
   that format as a function of the civil-time fields, microseconds written when non-zero) is accepted by the
   xs:dateTime check for every date Python can represent (years 1..9999) and every utc offset of whole minutes within
   +-14:00 *)
Theorem C11_datetime_render : forall y mo d h mi s us neg oh om,
  civil_ok y mo d h mi s us oh om -> datetime_ok (render_datetime y mo d h mi s us neg oh om) = true.
Proof. exact datetime_ok_render. Qed.
Print Assumptions C11_datetime_render.

(* str(n) for a non-negative size / sequence number: any non-empty string of at most 24 decimal digits *)
Theorem C11_integer_digits : forall ds,
  ds <> [] -> forallb is_digit ds = true -> (length ds <= 24)%nat -> integer_ok ds = true.
Proof. exact integer_ok_digits. Qed.
Print Assumptions C11_integer_digits.

(* ------------------------------------------------------------------------------------------------------------
   4. Examples: real tool output (ascmhl create -h md5 -h xxh64 --author_name Jo --author_email jo@ex.org
      --location Set on  A/a.txt, b.txt; TZ=UTC) as trees, against the GENERATED schema values. *)
Open Scope string_scope.
Definition attrs_of (l : list (string * string)) : list (text * text) := map (fun kv => (t (fst kv), t (snd kv))) l.
Definition node (tag : string) (attrs : list (string * string)) (kids : list xml) : xml := Elem (t tag) (attrs_of attrs) None kids.
Definition leaf (tag : string) (attrs : list (string * string)) (txt : string) : xml := Elem (t tag) (attrs_of attrs) (Some (t txt)) [].

Definition ex_creatorinfo : xml :=
  node "creatorinfo" [] [
    leaf "creationdate" [] "2026-10-01T20:25:58+00:00";
    leaf "hostname" [] "vm";
    leaf "tool" [("version", "0.1.dev1+g435d5e02a")] "ascmhl";
    leaf "author" [("email", "jo@ex.org")] "Jo";
    leaf "location" [] "Set" ].
Definition ex_roothash : xml :=
  node "roothash" [] [
    node "content" [] [ leaf "md5" [("hashdate", "2026-10-01T20:25:58.533666+00:00")] "cccc5510d560d2ee358a42bd16c74be2";
                        leaf "xxh64" [("hashdate", "2026-10-01T20:25:58.533669+00:00")] "efb625d61fa5bbe1" ];
    node "structure" [] [ leaf "md5" [("hashdate", "2026-10-01T20:25:58.533666+00:00")] "470ee725fec312c1b5cdcfbe0b09f5d8";
                          leaf "xxh64" [("hashdate", "2026-10-01T20:25:58.533669+00:00")] "0fa640a40e53fcd7" ] ].
Definition ex_ignore : xml :=
  node "ignore" [] [ leaf "pattern" [] ".DS_Store"; leaf "pattern" [] "ascmhl"; leaf "pattern" [] "ascmhl/" ].
Definition ex_processinfo : xml := node "processinfo" [] [ leaf "process" [] "in-place"; ex_roothash; ex_ignore ].
Definition ex_path_a : xml := leaf "path" [("size", "3"); ("lastmodificationdate", "2026-10-01T20:25:58+00:00")] "A/a.txt".
Definition ex_md5_a (action : string) : xml :=
  leaf "md5" [("action", action); ("hashdate", "2026-10-01T20:25:58.533296+00:00")] "764efa883dda1e11db47671c4a3bbd9e".
Definition ex_xxh64_a : xml :=
  leaf "xxh64" [("action", "original"); ("hashdate", "2026-10-01T20:25:58.533367+00:00")] "d50463dd92503d34".
Definition ex_hash_a : xml := node "hash" [] [ ex_path_a; ex_md5_a "original"; ex_xxh64_a ].
Definition ex_dirhash : xml :=
  node "directoryhash" [] [
    leaf "path" [("lastmodificationdate", "2026-10-01T20:25:58+00:00")] "A";
    node "content" [] [ leaf "md5" [("hashdate", "2026-10-01T20:25:58.533475+00:00")] "b86583435871b60756e260201377bb9c";
                        leaf "xxh64" [("hashdate", "2026-10-01T20:25:58.533479+00:00")] "d1bec3d648863240" ];
    node "structure" [] [ leaf "md5" [("hashdate", "2026-10-01T20:25:58.533475+00:00")] "88682928086d12e08aafd4630293ecc9";
                          leaf "xxh64" [("hashdate", "2026-10-01T20:25:58.533479+00:00")] "82aeb5572e5090dd" ] ].
Definition ex_hashes : xml := node "hashes" [] [ ex_hash_a; ex_dirhash ].
Definition ex_references : xml :=
  node "references" [] [ node "hashlistreference" [] [
    leaf "path" [] "A/ascmhl/0001_A_2026-10-01_202558Z.mhl";
    leaf "c4" [] "c439oAe3YVCQev7M7SM13UF86QGbDUXvYjdPtjsMjhREQ5yzrEo5tz8uVZgoUbheXTfJ2ajK1QHhLkoQHTkpnouaF3" ] ].
Definition manifest_of (kids : list xml) : xml := node "hashlist" [("version", "2.0")] kids.
Definition ex_manifest : xml := manifest_of [ ex_creatorinfo; ex_processinfo; ex_hashes ].

Example C11_ex_manifest_valid : validate schema_manifest ex_manifest = true.
Proof. vm_compute. reflexivity. Qed.
(* the same through the declarative reading *)
Example C11_ex_manifest_ValidDoc : ValidDoc schema_manifest ex_manifest.
Proof. apply validate_iff. vm_compute. reflexivity. Qed.
(* a generation without records: no <hashes> element at all, only references (what the repaired writer produces) *)
Example C11_ex_no_records_valid : validate schema_manifest (manifest_of [ ex_creatorinfo; ex_processinfo; ex_references ]) = true.
Proof. vm_compute. reflexivity. Qed.

(* mutants are rejected *)
Example C11_ex_missing_creatorinfo : validate schema_manifest (manifest_of [ ex_processinfo; ex_hashes ]) = false.
Proof. vm_compute. reflexivity. Qed.
Example C11_ex_empty_hashes :           (* historical defect 1: <hashes/> for a generation without records *)
  validate schema_manifest (manifest_of [ ex_creatorinfo; ex_processinfo; node "hashes" [] [] ]) = false.
Proof. vm_compute. reflexivity. Qed.
Example C11_ex_duplicated_format :      (* historical defect 2: -sf X -sf X wrote every format element twice *)
  validate schema_manifest (manifest_of [ ex_creatorinfo; ex_processinfo;
    node "hashes" [] [ node "hash" [] [ ex_path_a; ex_md5_a "original"; ex_md5_a "original"; ex_xxh64_a; ex_xxh64_a ] ] ]) = false.
Proof. vm_compute. reflexivity. Qed.
Example C11_ex_unsorted_formats :
  validate schema_manifest (manifest_of [ ex_creatorinfo; ex_processinfo;
    node "hashes" [] [ node "hash" [] [ ex_path_a; ex_xxh64_a; ex_md5_a "original" ] ] ]) = false.
Proof. vm_compute. reflexivity. Qed.
Example C11_ex_wrong_order : validate schema_manifest (manifest_of [ ex_processinfo; ex_creatorinfo; ex_hashes ]) = false.
Proof. vm_compute. reflexivity. Qed.
Example C11_ex_bad_action :
  validate schema_manifest (manifest_of [ ex_creatorinfo; ex_processinfo;
    node "hashes" [] [ node "hash" [] [ ex_path_a; ex_md5_a "changed" ] ] ]) = false.
Proof. vm_compute. reflexivity. Qed.
Example C11_ex_roothash_after_ignore :
  validate schema_manifest (manifest_of [ ex_creatorinfo;
    node "processinfo" [] [ leaf "process" [] "in-place"; ex_ignore; ex_roothash ]; ex_hashes ]) = false.
Proof. vm_compute. reflexivity. Qed.
Example C11_ex_no_pattern :
  validate schema_manifest (manifest_of [ ex_creatorinfo;
    node "processinfo" [] [ leaf "process" [] "in-place"; node "ignore" [] [] ]; ex_hashes ]) = false.
Proof. vm_compute. reflexivity. Qed.
Example C11_ex_missing_version : validate schema_manifest (node "hashlist" [] [ ex_creatorinfo; ex_processinfo; ex_hashes ]) = false.
Proof. vm_compute. reflexivity. Qed.
Example C11_ex_unknown_attribute :
  validate schema_manifest (node "hashlist" [("version", "2.0"); ("generation", "1")] [ ex_creatorinfo; ex_processinfo; ex_hashes ]) = false.
Proof. vm_compute. reflexivity. Qed.
Example C11_ex_previous_path_before_content :
  validate schema_manifest (manifest_of [ ex_creatorinfo; ex_processinfo; node "hashes" [] [
    node "directoryhash" [] [ leaf "path" [] "B"; leaf "previousPath" [] "A"; node "content" [] []; node "structure" [] [] ] ] ]) = false.
Proof. vm_compute. reflexivity. Qed.
Example C11_ex_previous_path_in_place :
  validate schema_manifest (manifest_of [ ex_creatorinfo; ex_processinfo; node "hashes" [] [
    node "directoryhash" [] [ leaf "path" [] "B"; node "content" [] []; node "structure" [] []; leaf "previousPath" [] "A" ] ] ]) = true.
Proof. vm_compute. reflexivity. Qed.

Definition ex_chain_entry (nr file : string) : xml :=
  node "hashlist" [("sequencenr", nr)] [
    leaf "path" [] file;
    leaf "c4" [] "c439oAe3YVCQev7M7SM13UF86QGbDUXvYjdPtjsMjhREQ5yzrEo5tz8uVZgoUbheXTfJ2ajK1QHhLkoQHTkpnouaF3" ].
Definition ex_chain : xml :=
  node "ascmhldirectory" [] [ ex_chain_entry "1" "0001_t_2026-10-01_202558Z.mhl"; ex_chain_entry "2" "0002_t_2026-10-01_202559Z.mhl" ].
Example C11_ex_chain_valid : validate schema_directory ex_chain = true.
Proof. vm_compute. reflexivity. Qed.
Example C11_ex_chain_empty : validate schema_directory (node "ascmhldirectory" [] []) = false.
Proof. vm_compute. reflexivity. Qed.
Example C11_ex_chain_bad_number :
  validate schema_directory (node "ascmhldirectory" [] [ ex_chain_entry "one" "0001_t_2026-10-01_202558Z.mhl" ]) = false.
Proof. vm_compute. reflexivity. Qed.
Example C11_ex_chain_missing_c4 :
  validate schema_directory (node "ascmhldirectory" [] [ node "hashlist" [("sequencenr", "1")] [ leaf "path" [] "x.mhl" ] ]) = false.
Proof. vm_compute. reflexivity. Qed.
Example C11_ex_chain_is_not_a_manifest : validate schema_manifest ex_chain = false.
Proof. vm_compute. reflexivity. Qed.

(* dates: the hypotheses of C11_datetime_render are satisfiable, and its conclusion is not trivially true *)
Example C11_ex_civil : civil_ok 2026 10 1 20 25 58 533666 0 0.
Proof. unfold civil_ok. vm_compute. intuition discriminate. Qed.
Example C11_ex_render : render_datetime 2026 10 1 20 25 58 533666 false 0 0 = t "2026-10-01T20:25:58.533666+00:00".
Proof. vm_compute. reflexivity. Qed.
Example C11_ex_render_kathmandu : render_datetime 1999 12 31 23 59 59 0 false 5 45 = t "1999-12-31T23:59:59+05:45".
Proof. vm_compute. reflexivity. Qed.
Example C11_ex_date_feb30 : datetime_ok (t "2026-02-30T20:25:58+00:00") = false.
Proof. vm_compute. reflexivity. Qed.
(* an offset with seconds (what isoformat() prints for a local-mean-time zone, e.g. TZ=Europe/Amsterdam before 1937)
   is NOT an xs:dateTime: the hypothesis "offset of whole minutes" of C11_datetime_render cannot be dropped *)
Example C11_ex_date_lmt_offset : datetime_ok (t "1901-12-13T21:05:24+00:19:32") = false.
Proof. vm_compute. reflexivity. Qed.
Example C11_ex_email : email_ok (t "jo@ex.org") = true /\ email_ok (t "jo@org") = false /\ email_ok (t "@ex.org") = false.
Proof. vm_compute. auto. Qed.
Close Scope string_scope.

(* ------------------------------------------------------------------------------------------------------------
   TODO (second half, needs coq/Model/Emit.v : emit_hashlist, emit_chain -- the model of hashlist_xml_parser.write_hash_list
   and chain_xml_parser.write_chain as functions into Model/Xml.v trees):

     Theorem manifest_valid : forall o, Reach o -> validate schema_manifest (emit_hashlist o) = true.
     Theorem chain_valid    : forall c, ReachChain c -> validate schema_directory (emit_chain c) = true.

   where `Reach` is the inductive set of hash lists the create / flatten models hand to the writer (any tree, history,
   nesting, option combination, exit code).  Plan: rewrite the goal with C11_validator_exact, unfold the GENERATED
   schema value one level at a time and discharge each level with the rules of section 2:
     hashlist      C11_seq_intro on [creatorinfo][processinfo][hashes?][][references?], C11_required / C11_optional
     hashes        C11_choice_repeat (needs: the writer omits <hashes> when there is no record -- invariant I1)
     hash          C11_seq_intro; the inner sequence of six optional format elements needs the entries sorted by
                   format name and pairwise distinct (I2: sorted(...) in _media_hash_xml_element + at most one entry per
                   format in a media hash), every format name one of the six of the schema (I3)
     content /     same six-slot argument for directory hashes: needs the REQUEST list sorted and duplicate free (I4,
     structure     commands.py sorts the formats; -h repeated is de-duplicated)
     action        C11_simple_intro with SEnum: actions in {original, verified, failed} after promotion (I5)
     ignore        C11_occurs_repeat with mn = 1: at least one pattern (I6: the default patterns are always present)
     dates         C11_datetime_render: every date string is render_datetime of in-range fields with a whole-minute
                   offset within +-14:00 (I7; FALSE for local-mean-time zones, see C11_ex_date_lmt_offset), or the text
                   carried over verbatim from a parsed (hence already valid?) manifest when flattening (I8)
     size,         C11_integer_digits: str(int) of a non-negative number below 10^24 (I9)
     sequencenr
     e-mail        C11_email_spec: accepted iff the caller's --author_email is in email_lang (hypothesis of the theorem,
                   the property text says "syntactically valid e-mail")
     attributes    attrs_ok by computation on the concrete attribute lists (only declared names are ever written: I10)
   Definition C11_full_statement : Prop := (forall o, Reach o -> validate schema_manifest (emit_hashlist o) = true)
                                        /\ (forall c, ReachChain c -> validate schema_directory (emit_chain c) = true).  *)
