(* C04 -- digests are always judged against the first recorded value.
   Statements only; the proofs are in Proofs/SealFacts.v.  `seal gens p dg req` is the per-file decision of a create
   run (commands.seal_file_path + generator.append_file_hash) for the path p, against the generations `gens` of the
   history the path is routed to; dg f is the file's current digest text in format f; `validate_record` is
   history._validate_new_hash_list.  The same `seal` / `validate_records` are what Model/Create.v calls for every
   file and what the extracted model executes against the real tool. *)
From MHL Require Import Model.Seal Model.Commands Proofs.BaseFacts Proofs.SealFacts Proofs.TreeFacts Proofs.VerifyFacts Proofs.FlatFacts Proofs.InfoFacts Proofs.PackFacts Proofs.ShapeFacts Proofs.ReloadFacts Proofs.NestedFacts Gen.GeneratedFns Proofs.SourceLookupFacts.

(* THE TIE OF THE LOOKUPS TO THE SOURCE.  `find_original` and `find_first` -- which every statement below (and every statement
   about sealing and verifying elsewhere) is made with -- are not only transcribed by hand: translator/gen.py translates
   MHLHistory.find_original_hash_entry_for_path, MHLHistory.find_first_hash_entry_for_path and
   MHLHistory.find_existing_hash_formats_for_path from the current source on
   every run (Gen/GeneratedFns.v: the loop over the generations, the skipped generations, the loop over the entries and
   its conditions), and these obligations say that the result is the model's function.  A change of either method's
   conditions, of what it skips, or of what it returns breaks them (or the translation, which is fail-closed). *)
Theorem C04_source_find_original_is_the_models : forall gens p, src_find_original gens p = find_original gens p.
Proof. exact src_find_original_is_model. Qed.
Print Assumptions C04_source_find_original_is_the_models.
Theorem C04_source_find_first_is_the_models : forall gens p f, src_find_first gens p (Some f) = find_first gens p f.
Proof. exact src_find_first_is_model. Qed.
Print Assumptions C04_source_find_first_is_the_models.
Theorem C04_source_find_first_without_format_is_the_models : forall gens p, src_find_first gens p None = find_first_any gens p.
Proof. exact src_find_first_any_is_model. Qed.
Print Assumptions C04_source_find_first_without_format_is_the_models.
(* ... and MHLHistory.find_existing_hash_formats_for_path (append a format when it is not yet in the list, over all entries of
   all generations that mention the path) is `existing_formats` -- the list whose ORDER decides which recorded format is
   re-checked when none of the requested ones was recorded (to_generate) *)
Theorem C04_source_existing_formats_is_the_models : forall gens p, src_existing_formats gens p = existing_formats gens p.
Proof. exact src_existing_formats_is_model. Qed.
Print Assumptions C04_source_existing_formats_is_the_models.
(* ... and the statements of commands.seal_file_path that build the list of formats to hash (recorded formats that are
   requested first; when none of them is, the FIRST recorded format; then the requested ones not yet in the list) are
   `to_generate`, for every duplicate-free list of recorded formats -- which the list of the previous theorem is *)
Theorem C04_source_formats_to_hash_is_the_models : forall ex req, NoDup ex -> src_to_generate ex req = to_generate ex req.
Proof. exact src_to_generate_is_model. Qed.
Print Assumptions C04_source_formats_to_hash_is_the_models.
Theorem C04_source_formats_to_hash_hypothesis_holds : forall gens p, NoDup (existing_formats gens p).
Proof. exact existing_formats_NoDup. Qed.

(* closed form of the record written for a file: the re-checked entries of recorded formats, then -- only if none of
   them failed -- the entries of the formats that are new for the path *)
Theorem C04_record_shape : forall gens p dg req,
  fst (seal gens p dg req) =
  map (mk_entry gens p dg) (carried gens p req)
  ++ (if all_verified gens p dg req then map (mk_entry gens p dg) (fresh gens p req) else []).
Proof. exact seal_entries. Qed.
Print Assumptions C04_record_shape.

(* every digest written is the file's current digest in the entry's own format *)
Theorem C04_digest_is_current : forall gens p dg req e, In e (fst (seal gens p dg req)) -> e_digest e = dg (e_fmt e).
Proof. exact seal_digest. Qed.
Print Assumptions C04_digest_is_current.

(* 'original' exactly when no earlier generation holds an original entry for the path ... *)
Theorem C04_original_iff_first : forall gens p dg req e,
  In e (fst (seal gens p dg req)) -> (e_action e = Some Original <-> find_original gens p = None).
Proof. exact seal_original_iff. Qed.
Print Assumptions C04_original_iff_first.

(* ... hence at most once along any history: after a generation with an original entry, whatever generations follow *)
Theorem C04_original_once : forall gens p dg req e more,
  find_original gens p <> None -> In e (fst (seal (gens ++ more) p dg req)) -> e_action e <> Some Original.
Proof. exact original_once. Qed.
Print Assumptions C04_original_once.

(* 'verified' exactly when equal to the EARLIEST recorded digest of the same format, 'failed' otherwise *)
Theorem C04_judged_by_first : forall gens p dg req e e0,
  In e (fst (seal gens p dg req)) -> find_original gens p <> None -> find_first gens p (e_fmt e) = Some e0 ->
  e_action e = Some (if text_eqb (e_digest e0) (dg (e_fmt e)) then Verified else Failed).
Proof. exact seal_judged_by_first. Qed.
Print Assumptions C04_judged_by_first.

(* a later generation -- failed or not -- never becomes the reference: the look-ups are stable under appending *)
Theorem C04_reference_stable : forall gens more p f e,
  find_first gens p f = Some e -> find_first (gens ++ more) p f = Some e.
Proof. exact find_first_stable. Qed.
Theorem C04_original_stable : forall gens more p e,
  find_original gens p = Some e -> find_original (gens ++ more) p = Some e.
Proof. exact find_original_stable. Qed.
Print Assumptions C04_reference_stable.

(* a failed check is itself recorded, and then no new-format digest is *)
Theorem C04_failed_blocks_new : forall gens p dg req e e',
  In e (fst (seal gens p dg req)) -> e_action e = Some Failed -> In e' (fst (seal gens p dg req)) -> e_action e' <> Some New.
Proof. exact seal_failed_blocks_new. Qed.
Print Assumptions C04_failed_blocks_new.

(* a new-format digest is recorded only in a run in which an already recorded format verified ... *)
Theorem C04_new_needs_verified : forall gens p dg req e,
  In e (fst (seal gens p dg req)) -> e_action e = Some New ->
  exists e1, In e1 (fst (seal gens p dg req)) /\ e_action e1 = Some Verified.
Proof. exact seal_new_needs_verified. Qed.
Print Assumptions C04_new_needs_verified.

(* ... and what is written after validation never says `new`: it was promoted to `verified`, or the run aborted *)
Theorem C04_validated_has_no_new : forall r r', validate_record r = Some r' -> has_action New (r_entries r') = false.
Proof. exact validate_record_no_new. Qed.
Print Assumptions C04_validated_has_no_new.

(* On an unaltered file no format is reported failed and the record passes validation ... *)
Theorem C04_unaltered_no_failure : forall gens p dg req, consistent gens p dg ->
  (forall e, In e (fst (seal gens p dg req)) -> e_action e <> Some Failed) /\
  (forall x, In x (snd (seal gens p dg req)) -> snd x = true).
Proof. exact unaltered_no_failure. Qed.
Print Assumptions C04_unaltered_no_failure.

(* ... so EVERY sequence of format choices goes through (no abort), for every prior history of the file *)
Theorem C04_unaltered_sequences : forall reqs gens p dg,
  consistent gens p dg -> exists gens', seal_runs gens p dg reqs = Some gens' /\ consistent gens' p dg.
Proof. exact unaltered_sequences. Qed.
Print Assumptions C04_unaltered_sequences.

(* non-vacuity: the sequence on which the pinned tree aborted (xxh64; md5; md5+sha1) now runs to three generations
   in the model, and the empty history is consistent *)
Definition dg0 (f : fmt) : text := fmt_name f.
Example C04_sequence_runs :
  exists g, seal_runs [] [[97%N]] dg0 [[Xxh64]; [Md5]; [Md5; Sha1]] = Some g /\ length g = 3.
Proof. eexists. split; vm_compute; reflexivity. Qed.
Example C04_consistent_nonvacuous : consistent [] [[97%N]] dg0.
Proof. intros e [g [r [[] _]]]. Qed.

(* the last sentence at the level of the whole tool (flat tree: one history at the root): seal a tree without history
   with any formats, then run create any number of times with ANY choice of formats per run (and -n or not) on the
   unaltered tree: every run exits 0 and the result verifies.  Proofs/FlatFacts.v; it composes the per-file theorems
   above with the traversal, the session, validation, commit and reload. *)
Theorem C04_unaltered_tree_every_format_sequence_exits_0 : forall Hb matches C cdig ser kids h0 req0 nd0 ip ifl rs,
  wf_tree C (Dir None kids) -> load C cdig (Dir None kids) = inl [h0] -> req0 <> [] -> Forall (fun x => fst x <> []) rs ->
  let r0 := create_folder Hb matches C cdig ser (Dir None kids) req0 nd0 false ip ifl in
  let r := run_creates Hb matches C cdig ser (fst r0) rs in
  o_outcome (snd r0) = Exit 0 /\ Forall (fun o => o = Exit 0) (snd r) /\
  verify_result Hb matches C cdig false (fst r) [] [] = Some (mkVR 0 [] [] []) /\
  verify_result Hb matches C cdig true (fst r) [] [] = Some (mkVR 0 [] [] []).
Proof. exact seal_then_sequences. Qed.
Print Assumptions C04_unaltered_tree_every_format_sequence_exits_0.

(* ... and what those generations look like, as a whole history: after the seal and any number of runs, in the history
   the next command loads, for EVERY path the first digest ever recorded that did not fail is marked `original`
   (`scan` = generations in order, their file records, their digests), and folder records never carry a file digest.
   This is the history-level form of `original only in the first generation that records the path`; it is an
   invariant of the create cycle (Proofs/ShapeFacts.v), not a property of one record. *)
Theorem C04_first_recorded_digest_is_original_end_to_end : forall Hb matches C cdig ser kids h0 req0 nd0 ip ifl rs,
  wf_tree C (Dir None kids) -> load C cdig (Dir None kids) = inl [h0] -> req0 <> [] -> Forall (fun x => fst x <> []) rs ->
  let r0 := create_folder Hb matches C cdig ser (Dir None kids) req0 nd0 false ip ifl in
  let r := run_creates Hb matches C cdig ser (fst r0) rs in
  exists old', fst r = Dir (Some old') kids /\
    (forall p x, find (PackFacts.at_path p) (scan (loaded_gens C old')) = Some x -> is_original (snd x) = true) /\
    (forall g rec e, In g (loaded_gens C old') -> In rec (g_records g) -> r_dir rec = true -> In e (r_entries rec) -> e_action e = None).
Proof. exact seal_creates_shape. Qed.
Print Assumptions C04_first_recorded_digest_is_original_end_to_end.

(* the last sentence for ANY nesting of histories: from a state in which every recorded digest is current (`nstate`, see
   Props/C03.v), every sequence of format choices (and -n or not) on the unaltered tree runs through with exit 0, whatever
   the number and depth of nested histories and whichever formats each of them has recorded so far *)
Theorem C04_nested_unaltered_tree_every_format_sequence_exits_0 : forall Hb matches C cdig ser rs h0 kids hs,
  wf_tree C (Dir h0 kids) -> load C cdig (Dir h0 kids) = inl hs -> nstate Hb matches C hs (Dir h0 kids) -> Forall (fun x => fst x <> []) rs ->
  let r := run_creates Hb matches C cdig ser (Dir h0 kids) rs in
  Forall (fun o => o = Exit 0) (snd r) /\
  exists hs', load C cdig (fst r) = inl hs' /\ Forall2 (ext C cdig ser) hs hs' /\
    (rs <> [] -> verify_result Hb matches C cdig false (fst r) [] [] = Some (mkVR 0 [] [] []) /\
                 verify_result Hb matches C cdig true (fst r) [] [] = Some (mkVR 0 [] [] [])).
Proof. exact nested_sequences. Qed.
Print Assumptions C04_nested_unaltered_tree_every_format_sequence_exits_0.
