(* C13 -- results do not depend on where the tree is mounted or how the OS lists it.  Statements only.
   Location: in the model a command computes its result from the sub-tree at its root alone -- ignore patterns are
   matched on paths relative to that root, so no ancestor name can take part.  This is close to "by construction"; the
   weight for this half is on the metamorphic runs of the real tool (same tree sealed at /.../plain, /.../ascmhl/x,
   /.../<pattern>/x, with trailing slash, relative invocation; byte comparison of all ascmhl folders under a frozen
   clock; verify of relocated copies).
   Listing order: theorems -- the traversal, the directory hashes, the discovery of nested histories (hence the order
   of references) and the order of loaded generations are all independent of the enumeration order. *)
From Coq Require Import Permutation.
From MHL Require Import Model.World Proofs.BaseFacts Proofs.TreeFacts Proofs.DirHashFacts Proofs.LoadFacts Proofs.WorldFacts.

Theorem C13_location_independent : forall C (f : node C -> node C * obs) t1 r1 t2 r2 sub,
  get C t1 r1 = Some sub -> get C t2 r2 = Some sub ->
  exists sub' o, at_root C r1 f t1 = (alter C r1 (fun _ => Some sub') t1, relocate r1 o) /\
                 at_root C r2 f t2 = (alter C r2 (fun _ => Some sub') t2, relocate r2 o).
Proof. exact location_independent. Qed.
Print Assumptions C13_location_independent.

Theorem C13_traversal_order : forall matches C spec p h kids kids',
  NoDup (map fst kids) -> Permutation kids kids' ->
  events matches C spec p (Dir h kids) = events matches C spec p (Dir h kids').
Proof. exact events_listing_order. Qed.
Print Assumptions C13_traversal_order.

Theorem C13_directory_hash_order : forall Hb matches C spec f p h kids kids',
  Permutation kids kids' -> dirhash Hb matches C spec f p (Dir h kids) = dirhash Hb matches C spec f p (Dir h kids').
Proof. exact dirhash_listing_order. Qed.
Print Assumptions C13_directory_hash_order.

(* nested histories are discovered in sorted order, whatever the listing: so is the order of <hashlistreference>s *)
Theorem C13_history_discovery_order : forall C cdig h kids kids',
  NoDup (map fst kids) -> Permutation kids kids' -> load C cdig (Dir h kids) = load C cdig (Dir h kids').
Proof. exact load_listing_order. Qed.
Theorem C13_nested_discovery_order : forall C cdig p parent h kids kids',
  NoDup (map fst kids) -> Permutation kids kids' ->
  discover C cdig p parent (Dir h kids) = discover C cdig p parent (Dir h kids').
Proof. exact discover_listing_order. Qed.
Print Assumptions C13_history_discovery_order.

Theorem C13_manifest_order : forall C files files' chain,
  NoDup (map (mf_no C) files) -> Permutation files files' ->
  loaded_gens C (mkHist C files chain) = loaded_gens C (mkHist C files' chain).
Proof. exact loaded_gens_listing_order. Qed.
Print Assumptions C13_manifest_order.
