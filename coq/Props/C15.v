(* C15 -- an interrupted create never damages what was already recorded.  Statements only.  PARTIAL by nature: the
   theorems are about the model of the write sequence (temporary file + os.replace per manifest and per chain file);
   real kills at every point of the real command are the correspondence's part.
   The full statement is FALSE of the faithful model in two windows, which are recorded as known findings:
     W1  a history that is being created: after `mkdir ascmhl` and before its first chain file is in place the folder
         exists without chain -- every later command answers exit 32 (C15_w1_refuted);
     W2  an existing history: after the new manifest is in place and before the chain file is replaced the loader
         adopts a manifest the chain does not list -- the interrupted generation is neither wholly present nor
         wholly absent (C15_w2_refuted).
   Outside these windows the statement holds (theorems C15_partial_...). *)
From MHL Require Import Model.Crash Gen.Generated Proofs.BaseFacts Proofs.LoadFacts Proofs.HistFacts Proofs.CrashFacts.

(* existing history: every crash point -- any prefix of the sequence, any number of write() calls -- leaves one of
   three shapes ... *)
Theorem C15_crash_shapes : forall C h new_m new_chain kw kc k,
  shape C h new_m new_chain (crash_state C new_m new_chain (Some h) (commit_mops false kw kc) k).
Proof. exact crash_shapes. Qed.
Print Assumptions C15_crash_shapes.

(* ... and in every one of them: (1) all previously committed manifests are there, unchanged and in order; (2) the
   chain is readable and lists every previously committed generation with its digest; (3) the history loads *)
Theorem C15_partial_recorded_history_intact : forall C cdig ser n (h : hist C) doc s,
  wellformed C cdig n h -> g_no doc = (latest_generation_number (loaded_gens C h) + 1)%N ->
  shape C h (mkMfile C (g_no doc) (ser doc) doc)
        (match h_chain C h with Some c => c | None => [] end ++ [mkCentry (g_no doc) (g_no doc) (cdig (ser doc))]) s ->
  exists hs', s = Some hs' /\
    (exists more, h_files C hs' = h_files C h ++ more) /\
    (exists ces ces', h_chain C h = Some ces /\ h_chain C hs' = Some (ces ++ ces')) /\
    check_chain C cdig hs' = None.
Proof. exact shapes_are_safe. Qed.
Print Assumptions C15_partial_recorded_history_intact.

(* the interrupted generation is wholly present or wholly absent -- except in window W2 *)
Theorem C15_partial_whole_or_w2 : forall C h new_m new_chain s,
  shape C h new_m new_chain s -> wholly C h new_m new_chain s \/ s = Some (mkHist C (h_files C h ++ [new_m]) (h_chain C h)).
Proof. exact only_window_w2. Qed.
Theorem C15_w2_refuted : forall C h new_m new_chain kw kc,
  crash_state C new_m new_chain (Some h) (commit_mops false kw kc) (kw + 3) = Some (mkHist C (h_files C h ++ [new_m]) (h_chain C h)).
Proof. exact w2_reachable. Qed.
Print Assumptions C15_w2_refuted.

(* a history that is being created *)
Theorem C15_crash_shapes_fresh : forall C new_m new_chain kw kc k,
  fresh_shape C new_m new_chain (crash_state C new_m new_chain None (commit_mops true kw kc) k).
Proof. exact crash_shapes_fresh. Qed.
Theorem C15_partial_fresh : forall C cdig new_m new_chain s, fresh_shape C new_m new_chain s ->
  s = None \/ (exists h, s = Some h /\ h_chain C h = None /\ check_chain C cdig h = Some ErrNoChain) \/
  s = Some (mkHist C [new_m] (Some new_chain)).
Proof. exact fresh_shapes_load. Qed.
Theorem C15_w1_refuted : forall C cdig new_m new_chain kw kc,
  crash_state C new_m new_chain None (commit_mops true kw kc) 1 = Some (mkHist C [] None) /\
  check_chain C cdig (mkHist C [] None) = Some ErrNoChain.
Proof. exact w1_reachable. Qed.
Print Assumptions C15_w1_refuted.

(* the full statement, kept visible: for every crash point the history loads and the interrupted generation is
   wholly present or absent.  It is refuted by W1 and W2 above. *)
Definition C15_full_statement : Prop :=
  forall C (cdig : C -> text) (s0 : hstate C) new_m new_chain fresh kw kc k,
    match crash_state C new_m new_chain s0 (commit_mops fresh kw kc) k with
    | Some h => check_chain C cdig h = None /\
                (Some h = s0 \/ (h_chain C h = Some new_chain /\ exists old, h_files C h = old ++ [new_m]))
    | None => s0 = None
    end.
Theorem C15_full_statement_refuted : ~ C15_full_statement.
Proof.
  intros H. specialize (H N (fun c => [c]) None (mkMfile N 1 0%N (mkGen 1 [] None [] [] InPlace)) [] true 0 0 1).
  cbn in H. destruct H as [H _]. discriminate H.
Qed.
Print Assumptions C15_full_statement_refuted.
