(* C12 -- ignore patterns exclude consistently and only ever accumulate.  Statements only. *)
From Coq Require Import Permutation.
From MHL Require Import Model.Commands Gen.Generated Proofs.BaseFacts Proofs.IgnoreFacts Proofs.CommitFacts Proofs.TreeFacts Proofs.FreshFacts Proofs.ReloadFacts Proofs.NestedFacts Gen.GeneratedFns Proofs.SourceLookupFacts.

(* ---- accumulation (ignore.py set_patterns) ---- *)
(* THE TIE OF set_patterns TO THE SOURCE.  translator/gen.py requires the bodies of MHLIgnoreSpec.__init__, set_patterns,
   _append_patterns_list, _append_patterns_from_file, get_pattern_list and get_path_spec to be exactly the recorded texts
   (shape-locked) and emits, statement by statement, src_set_patterns / src_append_patterns_list (Gen/GeneratedFns.v;
   list.extend over the generator expression becomes a fold that tests each line against the list as grown so far; the
   pattern file is its lines, [] being a line that is only a line feed).  They are the model's functions: *)
Theorem C12_source_set_patterns_is_the_models : forall existing new file,
  src_set_patterns existing new file = set_patterns existing new (match file with Some lines => pattern_file_lines lines | None => [] end).
Proof. exact src_set_patterns_is_model. Qed.
Print Assumptions C12_source_set_patterns_is_the_models.
Theorem C12_source_append_patterns_is_the_models : forall acc ps, src_append_patterns_list acc ps = append_patterns acc ps.
Proof. exact src_append_patterns_list_is_model. Qed.
Print Assumptions C12_source_append_patterns_is_the_models.

Theorem C12_previous_patterns_first : forall existing cli file,
  NoDup existing -> exists s, set_patterns existing cli file = base_of existing ++ s.
Proof. exact set_patterns_prefix. Qed.
Print Assumptions C12_previous_patterns_first.

Theorem C12_patterns_exact : forall existing cli file x,
  In x (set_patterns existing cli file) <-> In x (base_of existing) \/ In x cli \/ In x file.
Proof. exact set_patterns_In. Qed.
Print Assumptions C12_patterns_exact.

Theorem C12_no_duplicates : forall existing cli file, NoDup (set_patterns existing cli file).
Proof. exact set_patterns_NoDup. Qed.
Print Assumptions C12_no_duplicates.

Theorem C12_defaults_never_lost : forall existing cli file,
  (existing <> [] -> incl default_ignore existing) -> incl default_ignore (set_patterns existing cli file).
Proof. exact set_patterns_defaults. Qed.
Print Assumptions C12_defaults_never_lost.

(* the defaults named by the property: .DS_Store, ascmhl, ascmhl/ -- an obligation on the regenerated constant *)
Theorem C12_defaults_are : default_ignore =
  [ [46; 68; 83; 95; 83; 116; 111; 114; 101]; [97; 115; 99; 109; 104; 108]; [97; 115; 99; 109; 104; 108; 47] ]%N.
Proof. exact default_ignore_is. Qed.

Theorem C12_pattern_file_lines : forall lines x, In x (pattern_file_lines lines) <-> In x lines /\ x <> [].
Proof. exact pattern_file_lines_In. Qed.

(* over any number of generations, with any patterns given per run: each list is a prefix of the next *)
Theorem C12_only_accumulate : forall runs g, NoDup g -> g <> [] -> chain_prefix (pattern_history g runs).
Proof. exact patterns_only_accumulate. Qed.
Print Assumptions C12_only_accumulate.

(* ---- what a run writes: every history that writes (root or nested) gets
        set_patterns (its own latest list) (the session's effective list) -- so nested histories also receive the
        parent's patterns, after their own *)
Theorem C12_written_patterns : forall C cdig ser proc sess sp cs h,
  commit_case C cdig ser proc sess sp cs h (commit_one C cdig ser proc sess sp cs h).
Proof. exact commit_one_cases. Qed.
Theorem C12_new_generation_patterns : forall proc nl recs sp refs h,
  g_patterns (new_doc proc nl recs sp refs h) = set_patterns (latest_patterns (lh_gens h)) sp [].
Proof. exact new_doc_patterns. Qed.
Print Assumptions C12_new_generation_patterns.

(* ---- exclusion: the traversal hands the commands exactly the entries that no pattern excludes, each once; an
        ignored entry and everything below an ignored folder is never handed over (so never hashed, recorded,
        or reported as new), for every tree, every pattern list and every matcher *)
Theorem C12_traversal_exact : forall matches C spec t p,
  Permutation (reported (events matches C spec p t)) (entries matches C spec p t).
Proof. exact traversal_exact. Qed.
Print Assumptions C12_traversal_exact.
Theorem C12_ignored_never_reported : forall matches C spec t p q d,
  In (q, d) (reported (events matches C spec p t)) -> visible matches spec p q.
Proof. exact reported_visible. Qed.
Print Assumptions C12_ignored_never_reported.
(* ... and is not reported as missing either (commands.test_for_missing_files) *)
Theorem C12_ignored_never_missing : forall matches spec nf p, In p (missing matches spec nf) -> ignored matches spec p = false.
Proof. intros matches spec nf p H. unfold missing in H. apply filter_In in H. destruct H as [_ H]. apply Bool.negb_true_iff. exact H. Qed.

(* END TO END (flat history, any prior generations): nothing the effective patterns exclude -- neither an ignored entry nor
   anything below an ignored folder -- gets a record in the generation create writes *)
Theorem C12_ignored_never_recorded : forall Hb matches C cdig ser (t : node C) h0 req no_dh ip ifl,
  load C cdig t = inl [h0] -> is_dir C t = true -> req <> [] ->
  let spec := set_patterns (latest_patterns (lh_gens h0)) ip (pattern_file_lines ifl) in
  let o := snd (create_folder Hb matches C cdig ser t req no_dh false ip ifl) in
  o_outcome o <> Abort ->
  forall h doc r, In (h, doc) (o_written o) -> In r (g_records doc) -> visible matches spec [] (r_path r).
Proof. exact create_flat_records_visible. Qed.
Print Assumptions C12_ignored_never_recorded.
(* the written pattern list is stable: read back as the previous list it yields itself again *)
Theorem C12_written_list_is_stable : forall cli file,
  let l := set_patterns [] cli file in set_patterns [] l [] = l /\ set_patterns l [] [] = l.
Proof. exact set_patterns_stable. Qed.
Print Assumptions C12_written_list_is_stable.

(* non-vacuity: a list as the tool writes it meets the premises; accumulation on a concrete run *)
Example C12_defaults_nodup : NoDup default_ignore /\ default_ignore <> [].
Proof. split; [repeat constructor; cbn; intros H; repeat destruct H as [H|H]; try discriminate H; auto|discriminate]. Qed.
Example C12_accumulate_example :
  set_patterns default_ignore [[42; 46; 116]; [97; 115; 99; 109; 104; 108]]%N [[42; 46; 116]]%N = default_ignore ++ [[42; 46; 116]]%N.
Proof. reflexivity. Qed.

(* ANY NESTING (folder mode): nothing the effective patterns exclude -- neither an ignored entry nor anything below an
   ignored folder -- gets a record in ANY of the generations a run writes, in whichever history (the record's full path,
   history root ++ relative path, is a visible entry of the command's folder) *)
Theorem C12_nested_ignored_never_recorded : forall Hb matches C cdig ser h0 kids hs req no_dh ip ifl,
  wf_tree C (Dir h0 kids) -> load C cdig (Dir h0 kids) = inl hs -> req <> [] ->
  let spec := set_patterns (latest_patterns (lh_gens (root_hist hs))) ip (pattern_file_lines ifl) in
  forall k doc r, In (k, doc) (o_written (snd (create_folder Hb matches C cdig ser (Dir h0 kids) req no_dh false ip ifl))) ->
    In r (g_records doc) -> visible matches spec [] (k ++ r_path r).
Proof. exact nested_records_visible. Qed.
Print Assumptions C12_nested_ignored_never_recorded.
