(* C16 -- recorded size and timestamps describe the real file in any time zone.
   Statements only; proofs in Proofs/TimeFacts.v, Proofs/CalendarFacts.v, Proofs/IsoTextFacts.v.

   Model/Time.v transcribes utils.datetime_isostring / datetime_now_isostring / datetime_now_filename_string, the callers
   (datetime.fromtimestamp(os.path.getmtime(p)), datetime.now()), the size attribute writer / reader, and the parts of
   CPython's datetime they run: fromtimestamp with PEP 495 fold detection, astimezone() of a naive value
   (local_to_seconds with the fold, the gap rule, tm_gmtoff of the instant found), the offset text, the calendar.

   A time zone is an arbitrary function  off : Z -> Z  (seconds east of UTC at a UTC instant).  Instants: t_us, now_us
   in microseconds.  `denotes s` is the instant an ISO value with offset names.  Nothing is assumed about the relative
   position of the file time, "now" and the switches of the zone: `now` does not even occur in lastmod_value.

   What has to be assumed about the zone is exactly what CPython itself needs for fromtimestamp / astimezone to be
   inverse to each other: `regular_at off t` -- within two days around t the zone has at most one transition, its
   offsets are strictly inside +-24 h and the shift is at most 24 h.  UTC, fixed offsets, and every zone given by a
   transition table with more than 4 days between transitions (all IANA and POSIX-rule zones the harness runs,
   checked there with the same `table_ok`) satisfy it at every t. *)
From Coq Require Import Lia.
From MHL Require Import Gen.Generated Model.Base Model.Time Proofs.TimeFacts Proofs.CalendarFacts Proofs.IsoTextFacts.
Open Scope Z_scope.

(* ---------------------------------------------------------------------------------------------------- size *)
(* every size, 0 included, is written and read back as itself *)
Theorem C16_size_exact : forall n, 0 <= n -> recorded_size n = Some (Some n).
Proof. intros n _. exact (size_roundtrip n). Qed.
Print Assumptions C16_size_exact.

(* ... and the attribute is present, holding the decimal text of n *)
Theorem C16_size_written : forall n, 0 <= n ->
  exists s, emit_size (Some n) = Some s /\ s <> [] /\ int_of_text s = Some n.
Proof. intros n _. exists (str_int n). split; [reflexivity|]. split; [apply str_int_nonempty|apply int_of_text_str]. Qed.
Print Assumptions C16_size_written.

(* --------------------------------------------------------------------------------------------------- dates *)
(* lastmodificationdate: denotes the file's mtime (whole second, as the code truncates) and carries the offset in force
   AT THAT INSTANT *)
Theorem C16_mtime_instant : forall gr off t_us, regular_at off (t_us / 1000000) ->
  denotes (lastmod_value gr off t_us) = t_us / 1000000 * 1000000 /\
  s_off (lastmod_value gr off t_us) = off (t_us / 1000000).
Proof. intros gr off t_us R. apply lastmod_instant, regular_resolves, R. Qed.
Print Assumptions C16_mtime_instant.

(* hashdate (microseconds kept) and <creationdate> (whole second): the same for "now" *)
Theorem C16_hashdate_instant : forall gr off now_us, regular_at off (now_us / 1000000) ->
  denotes (hashdate_value gr off now_us) = now_us /\ s_off (hashdate_value gr off now_us) = off (now_us / 1000000).
Proof. intros gr off now_us R. apply hashdate_instant, regular_resolves, R. Qed.
Print Assumptions C16_hashdate_instant.

Theorem C16_creationdate_instant : forall gr off now_us, regular_at off (now_us / 1000000) ->
  denotes (creationdate_value gr off now_us) = now_us / 1000000 * 1000000 /\
  s_off (creationdate_value gr off now_us) = off (now_us / 1000000).
Proof. intros gr off now_us R. apply creationdate_instant, regular_resolves, R. Qed.
Print Assumptions C16_creationdate_instant.

(* the same three facts for ANY offset function whatsoever, given only that the platform's local-time resolution
   finds the instant back (`resolves`: datetime.fromtimestamp followed by astimezone() is the identity at t) *)
Theorem C16_any_zone : forall gr off t_us now_us, resolves gr off (t_us / 1000000) -> resolves gr off (now_us / 1000000) ->
  (denotes (lastmod_value gr off t_us) = t_us / 1000000 * 1000000 /\ s_off (lastmod_value gr off t_us) = off (t_us / 1000000)) /\
  (denotes (hashdate_value gr off now_us) = now_us /\ s_off (hashdate_value gr off now_us) = off (now_us / 1000000)) /\
  (denotes (creationdate_value gr off now_us) = now_us / 1000000 * 1000000 /\ s_off (creationdate_value gr off now_us) = off (now_us / 1000000)).
Proof.
  intros gr off t_us now_us Rt Rn. split; [|split].
  - apply lastmod_instant, Rt.
  - apply hashdate_instant, Rn.
  - apply creationdate_instant, Rn.
Qed.
Print Assumptions C16_any_zone.

(* the statement WITHOUT any hypothesis on the zone is not a theorem -- not because of the code under verification but
   because CPython's own fromtimestamp / astimezone pair is exact only on zones whose transitions are isolated: *)
Definition C16_full_statement : Prop := forall gr off t_us,
  denotes (lastmod_value gr off t_us) = t_us / 1000000 * 1000000 /\ s_off (lastmod_value gr off t_us) = off (t_us / 1000000).
Theorem C16_full_statement_needs_regular_zones : ~ C16_full_statement.
Proof.
  intros H. specialize (H false (off_table 0 [(1000000, 3600); (1001800, 0)]) 1000000000000).
  destruct H as [H _]. vm_compute in H. discriminate H.
Qed.
Print Assumptions C16_full_statement_needs_regular_zones.

(* CPython's resolution is exact at t whenever the zone is regular around t (this is where the fold bit, the repeated
   hour and the skipped hour are dealt with) *)
Theorem C16_pep495_exact : forall gr off t, regular_at off t -> resolves gr off t.
Proof. exact regular_resolves. Qed.
Print Assumptions C16_pep495_exact.

(* either side of a daylight-saving switch: a zone that changes from o1 to o2 at T (any direction, up to 24 h), file
   time and "now" anywhere -- each value carries the offset of ITS OWN instant *)
Definition switch_zone (T o1 o2 : Z) : zone := fun u => if u <? T then o1 else o2.
Theorem C16_either_side_of_a_switch : forall gr T o1 o2 t_us now_us,
  - day < o1 < day -> - day < o2 < day -> - day <= o1 - o2 <= day ->
  let off := switch_zone T o1 o2 in
  s_off (lastmod_value gr off t_us) = (if t_us / 1000000 <? T then o1 else o2) /\
  denotes (lastmod_value gr off t_us) = t_us / 1000000 * 1000000 /\
  s_off (hashdate_value gr off now_us) = (if now_us / 1000000 <? T then o1 else o2) /\
  denotes (hashdate_value gr off now_us) = now_us /\
  s_off (creationdate_value gr off now_us) = (if now_us / 1000000 <? T then o1 else o2).
Proof.
  intros gr T o1 o2 t_us now_us H1 H2 H12 off.
  assert (R : forall t, regular_at off t) by (intro t; exists T, o1, o2; unfold window; repeat split; try lia; reflexivity).
  destruct (C16_mtime_instant gr off t_us (R _)) as [A B]. destruct (C16_hashdate_instant gr off now_us (R _)) as [C E].
  destruct (C16_creationdate_instant gr off now_us (R _)) as [_ F].
  split; [exact B|]. split; [exact A|]. split; [exact E|]. split; [exact C|exact F].
Qed.
Print Assumptions C16_either_side_of_a_switch.

(* UTC and fixed offsets; zones given by a transition table *)
Theorem C16_fixed_zone_regular : forall o t, - day < o < day -> regular_at (fun _ => o) t.
Proof. exact const_regular. Qed.
Theorem C16_table_zone_regular : forall base tr, table_ok base None tr = true -> forall t, regular_at (off_table base tr) t.
Proof. intros base tr H. exact (table_regular tr base None H). Qed.
Print Assumptions C16_table_zone_regular.

(* ---------------------------------------------------------------------------------------------------- text *)
(* the offset text is (+|-)hh:mm[:ss], read back to the same offset, for every offset strictly inside +-24 h; it is
   the xs:dateTime form (+|-)hh:mm exactly when the offset is a whole number of minutes *)
Theorem C16_offset_wellformed : forall o, - day < o < day -> parse_offset (fmt_offset o) = Some o.
Proof. exact parse_fmt_offset. Qed.
Print Assumptions C16_offset_wellformed.
Theorem C16_offset_shape : forall o, - day < o < day -> length (fmt_offset o) = if o mod 60 =? 0 then 6%nat else 9%nat.
Proof. exact fmt_offset_length. Qed.
Print Assumptions C16_offset_shape.

(* the calendar rendering (CPython ord_to_ymd) is exact on every day number (year part by arithmetic, month / day split
   of the 366 days of a year by computation) *)
Theorem C16_calendar_exact : forall n,
  let '(y, m, d) := ord2ymd n in 1 <= m <= 12 /\ 1 <= d <= days_in_month y m /\ ymd2ord y m d = n.
Proof. exact ord2ymd_correct. Qed.
Print Assumptions C16_calendar_exact.

(* whatever isoformat() prints (years 1..9999) is a well-formed YYYY-MM-DDThh:mm:ss[.ffffff](+|-)hh:mm[:ss] and is read
   back, by an independent reader, to the value written *)
Theorem C16_iso_text_wellformed : forall s txt, iso_text s = Some txt -> 0 <= s_usec s < 1000000 -> parse_iso txt = Some s.
Proof. exact parse_iso_text. Qed.
Print Assumptions C16_iso_text_wellformed.

(* all together, on the text level: the attribute text of a file's lastmodificationdate is well-formed, names the file's
   instant and shows the offset of that instant *)
Theorem C16_mtime_text : forall gr off t_us txt, regular_at off (t_us / 1000000) ->
  iso_text (lastmod_value gr off t_us) = Some txt ->
  exists s, parse_iso txt = Some s /\ denotes s = t_us / 1000000 * 1000000 /\ s_off s = off (t_us / 1000000).
Proof.
  intros gr off t_us txt R E. exists (lastmod_value gr off t_us). split.
  - apply parse_iso_text; [exact E|]. cbn. lia.
  - apply C16_mtime_instant, R.
Qed.
Print Assumptions C16_mtime_text.

Theorem C16_hashdate_text : forall gr off now_us txt, regular_at off (now_us / 1000000) ->
  iso_text (hashdate_value gr off now_us) = Some txt ->
  exists s, parse_iso txt = Some s /\ denotes s = now_us /\ s_off s = off (now_us / 1000000).
Proof.
  intros gr off now_us txt R E. exists (hashdate_value gr off now_us). split.
  - apply parse_iso_text; [exact E|]. cbn. apply Z.mod_pos_bound. lia.
  - apply C16_hashdate_instant, R.
Qed.
Print Assumptions C16_hashdate_text.

(* -------------------------------------------------------------------------------------------- file-name stamp *)
(* the stamp in a manifest's file name does not depend on the zone and names the UTC second *)
Theorem C16_filename_utc : forall off off' now_us, filename_stamp off now_us = filename_stamp off' now_us.
Proof. intros. unfold filename_stamp, now_in_utc. reflexivity. Qed.
Print Assumptions C16_filename_utc.
Theorem C16_filename_names_utc_second : forall off now_us, year_ok (now_us / 1000000) = true ->
  parse_filename_stamp (filename_stamp off now_us) = Some (now_us / 1000000).
Proof. exact filename_stamp_utc. Qed.
Print Assumptions C16_filename_names_utc_second.

(* ------------------------------------------------------------------------------------------------ non-vacuity *)
(* Europe/Berlin around 2026: +1 h, +2 h from 2026-03-29T01:00Z, +1 h from 2026-10-25T01:00Z *)
Definition berlin : zone := off_table 3600 [(1774746000, 7200); (1792890000, 3600)].
Example berlin_regular : forall t, regular_at berlin t.
Proof. apply C16_table_zone_regular. vm_compute. reflexivity. Qed.
(* January file, read in summer or winter: +01:00; the repeated hour 02:xx on 2026-10-25 is written twice, with
   different offsets, and each text names its own instant *)
Example berlin_january : forall gr, iso_text (lastmod_value gr berlin 1768478400000000) =
  Some [50;48;50;54;45;48;49;45;49;53;84;49;51;58;48;48;58;48;48;43;48;49;58;48;48]%N.   (* 2026-01-15T13:00:00+01:00 *)
Proof. intros []; vm_compute; reflexivity. Qed.
Example berlin_repeated_hour : forall gr,
  s_wall (lastmod_value gr berlin 1792888200000000) = s_wall (lastmod_value gr berlin 1792891800000000) /\
  s_off (lastmod_value gr berlin 1792888200000000) = 7200 /\ s_off (lastmod_value gr berlin 1792891800000000) = 3600.
Proof. intros []; vm_compute; repeat split; reflexivity. Qed.
Example kathmandu_offset : fmt_offset 20700 = [43;48;53;58;52;53]%N /\ fmt_offset (-12600) = [45;48;51;58;51;48]%N /\
  fmt_offset 0 = [43;48;48;58;48;48]%N /\ fmt_offset (-2205) = [45;48;48;58;51;54;58;52;53]%N.
Proof. vm_compute. repeat split; reflexivity. Qed.
Example size_zero : emit_size (Some 0) = Some [48%N] /\ recorded_size 0 = Some (Some 0).
Proof. vm_compute. split; reflexivity. Qed.
(* the hypothesis of C16_pep495_exact is not idle: in a zone that goes one hour forward and, half an hour later, back
   again, CPython's own resolution misses the instant *)
Example irregular_zone_not_resolved :
  let off := off_table 0 [(1000000, 3600); (1001800, 0)] in
  forall gr, resolve gr off {| wall := local off 1000000; usec := 0; fold := detect_fold off 1000000 |} = 1003600.
Proof. intros off []; vm_compute; reflexivity. Qed.
