(* C19 -- info reports the recorded history truthfully.  Statements only.  The model's info observation is the list
   of printed items (history headers, generation lines, per-digest lines); their textual layout and the creation dates
   are checked on the implementation by the oracle. *)
From MHL Require Import Model.Commands Gen.Generated Proofs.BaseFacts Proofs.InfoFacts Proofs.TreeFacts Proofs.InfoTreeFacts.

(* info: the history's lines start with exactly its generations in load order (ascending 1..n by C06) *)
Theorem C19_generations_listed : forall k hs h,
  firstn (length (lh_gens h)) (info_lines (S k) hs h) = map (fun g => IGen (g_no g)) (lh_gens h).
Proof. exact info_lines_generations. Qed.
Theorem C19_info_root : forall C cdig t hs, load C cdig t = inl hs -> lh_gens (root_hist hs) <> [] ->
  exists rest, o_info (snd (info C cdig t)) = IHist [] :: map (fun g => IGen (g_no g)) (lh_gens (root_hist hs)) ++ rest.
Proof. exact info_root_listing. Qed.
Print Assumptions C19_info_root.
Theorem C19_info_exit : forall C cdig t hs, load C cdig t = inl hs ->
  o_outcome (snd (info C cdig t)) = Exit (match lh_gens (root_hist hs) with [] => exit_no_history | _ => 0%Z end).
Proof. exact info_exit. Qed.
Theorem C19_no_history_code : exit_no_history = 30%Z.
Proof. exact no_history_code. Qed.

(* info -sf: exactly one line per digest recorded for the file, with generation, format, digest and action as in
   the manifests; nothing else; 30 without history *)
Theorem C19_info_sf_lines : forall C cdig t hs file, load C cdig t = inl hs -> lh_gens (root_hist hs) <> [] ->
  o_info (snd (info_sf C cdig t file)) = IHist [] :: IFile file :: entry_lines (lh_gens (root_hist hs)) file /\
  o_outcome (snd (info_sf C cdig t file)) = Exit 0.
Proof. exact info_sf_lines. Qed.
Print Assumptions C19_info_sf_lines.
Theorem C19_line_iff_recorded : forall gens file n f d a,
  In (IEntry n f d a) (entry_lines gens file) <->
  exists g r e, In g gens /\ g_no g = n /\ find_media_hash g file = Some r /\ In e (r_entries r) /\
                e_fmt e = f /\ e_digest e = d /\ e_action e = a.
Proof. exact entry_lines_spec. Qed.
Print Assumptions C19_line_iff_recorded.
Theorem C19_one_line_per_digest : forall gens file,
  length (entry_lines gens file) =
  list_sum (map (fun g => match find_media_hash g file with Some r => length (r_entries r) | None => 0 end) gens).
Proof. exact entry_lines_count. Qed.
Theorem C19_info_sf_no_history : forall C cdig t hs file, load C cdig t = inl hs -> lh_gens (root_hist hs) = [] ->
  o_outcome (snd (info_sf C cdig t file)) = Exit exit_no_history.
Proof. exact info_sf_no_history. Qed.

(* EVERY NESTED HISTORY EXACTLY ONCE: the lines `info` prints for a folder (C19_info_root: IHist [] followed by
   info_lines (S (length hs)) hs (root_hist hs)) name every history below the folder exactly once -- no history twice, none
   left out, however deep the nesting; the recursion's fuel always suffices.  (ihists = the history lines of a listing.)
   Uses: distinct roots of loaded histories, children before parents, every nested history has a parent, the ancestors
   of a history form a chain. *)
Theorem C19_every_nested_history_once : forall C cdig t hs, wf_tree C t -> load C cdig t = inl hs ->
  let rooth := root_hist hs in
  NoDup (ihists (info_lines (S (length hs)) hs rooth)) /\
  (forall r, In r (ihists (info_lines (S (length hs)) hs rooth)) <-> exists d, In d hs /\ d <> rooth /\ lh_root d = r).
Proof. exact info_lists_every_history_once. Qed.
Print Assumptions C19_every_nested_history_once.
