(* C05 -- any change to a chained manifest is detected before anything else happens.  Statements only.
   C is the type of manifest file contents (bytes), cdig its reference digest (c4 of the bytes) -- both abstract: the
   theorems hold for every content type and digest function, so "every byte position and kind of edit" is covered by
   quantifying over all contents; an edit that keeps the digest is a collision of the reference hash. *)
From MHL Require Import Model.Commands Gen.Generated Proofs.BaseFacts Proofs.LoadFacts Gen.GeneratedFns Proofs.SourceExitFacts.

(* the chain check passes exactly when every chain entry names an existing manifest whose content has the recorded digest *)
Theorem C05_chain_check_exact : forall C cdig files ces,
  check_entries C cdig files ces = None <->
  forall ce, In ce ces -> exists m, find (fun m => N.eqb (mf_no C m) (ce_file ce)) files = Some m /\
                                    cdig (mf_content C m) = ce_digest ce.
Proof. exact check_entries_ok. Qed.
Print Assumptions C05_chain_check_exact.

(* a manifest whose content no longer has the recorded digest / that is missing / a missing chain file *)
Theorem C05_modified_detected : forall C cdig files ces ce m,
  In ce ces -> find (fun m => N.eqb (mf_no C m) (ce_file ce)) files = Some m -> cdig (mf_content C m) <> ce_digest ce ->
  check_entries C cdig files ces = Some ErrModified \/ check_entries C cdig files ces = Some ErrMissingManifest.
Proof. exact check_entries_modified. Qed.
Theorem C05_missing_detected : forall C cdig files ces ce,
  In ce ces -> find (fun m => N.eqb (mf_no C m) (ce_file ce)) files = None ->
  check_entries C cdig files ces = Some ErrModified \/ check_entries C cdig files ces = Some ErrMissingManifest.
Proof. exact check_entries_missing. Qed.
Theorem C05_missing_chain_detected : forall C cdig h, h_chain C h = None -> check_chain C cdig h = Some ErrNoChain.
Proof. exact check_chain_missing. Qed.
Print Assumptions C05_modified_detected.

(* the dedicated exit codes 31 / 33 / 32: obligations on the constants regenerated from errors.py *)
Theorem C05_exit_codes :
  load_err_code ErrModified = 31%Z /\ load_err_code ErrMissingManifest = 33%Z /\ load_err_code ErrNoChain = 32%Z.
Proof. exact load_err_codes. Qed.

(* THE CHECK IS THE SOURCE'S.  translator/gen.py translates, on every run, the part of MHLHistory.load_from_path that looks
   at the chain (the missing-chain test; `for generation in history.chain.generations`: the file must exist, its hash is
   compared with the recorded one; which exception is raised where -- the classes mapped to the regenerated exit codes)
   into src_check_chain (Gen/GeneratedFns.v; `os.path.exists` / `hasher.hash_file` of the expected file are mapped to the
   manifest with the entry's number and the digest of its content).  It is the model's check_chain, code for code. *)
Theorem C05_source_chain_check_is_the_models : forall C cdig (h : hist C),
  src_check_chain C cdig h = option_map load_err_code (check_chain C cdig h).
Proof. exact src_check_chain_is_model. Qed.
Print Assumptions C05_source_chain_check_is_the_models.

(* in the root history and in every nested history, at any depth: loading succeeds only if EVERY history of the tree
   passes the chain check *)
Theorem C05_every_history_checked : forall C cdig t hs,
  load C cdig t = inl hs -> forall q h, get_hist C t q = Some h -> check_chain C cdig h = None.
Proof. exact load_checks_every_history. Qed.
Print Assumptions C05_every_history_checked.

(* every history-reading command returns the loader's code, the unchanged tree, no written generation, no write *)
Theorem C05_commands_refuse : forall Hb matches C cdig ser t e, load C cdig t = inr e ->
  (forall req no_dh dr ip ifl, refused C t e (create_folder Hb matches C cdig ser t req no_dh dr ip ifl)) /\
  (forall req sf ip ifl, refused C t e (create_sf Hb matches C cdig ser t req sf ip ifl)) /\
  (forall d only ip ifl, refused C t e (verify_like Hb matches C cdig d t only ip ifl)) /\
  (forall f co ro ip ifl, refused C t e (verify_dh Hb matches C cdig t f co ro ip ifl)) /\
  refused C t e (info C cdig t) /\
  (forall file, refused C t e (info_sf C cdig t file)) /\
  (forall ip ifl, refused C t e (flatten C cdig t ip ifl)).
Proof. exact commands_refuse. Qed.
Print Assumptions C05_commands_refuse.
Theorem C05_refusal_writes_nothing : forall e, o_written (obs_exit (load_err_code e)) = [] /\ o_ops (obs_exit (load_err_code e)) = [].
Proof. exact refusal_writes_nothing. Qed.

(* non-vacuity: a nested history two levels down whose manifest was altered makes load fail with 31 *)
Definition g1 : gen := mkGen 1 [] None [] [] InPlace.
Definition hgood : hist N := mkHist N [mkMfile N 1 0%N g1] (Some [mkCentry 1 1 [0%N]]).
Definition hbad : hist N := mkHist N [mkMfile N 1 5%N g1] (Some [mkCentry 1 1 [0%N]]).
Definition tbad : node N := Dir (Some hgood) [([97%N], Dir None [([98%N], Dir (Some hbad) [])])].
Example C05_nested_tamper_refused : load N (fun c => [c]) tbad = inr ErrModified.
Proof. reflexivity. Qed.
