(* C02 -- a sealed generation records exactly the tree that is on disk.  Statements only.
   Proved end to end for a tree whose only history is the root's (any number of prior generations, any patterns,
   formats, -n): (0) create in folder mode writes one generation whose records are exactly the entries no ignore
   pattern excludes -- every one, each once, nothing else.  Proved as separate steps for the general (nested) case:
   (1) the traversal hands over exactly the non-ignored entries, each once, whatever the listing order; (2) each entry
   is routed to the deepest history containing it and recorded under the path relative to that history's root; (3) a
   new generation's record list never holds a path twice; (4) every digest written is the digest of the file's bytes
   in the entry's own format.  PARTIAL: the composition of (1)-(4) for NESTED histories and for -sf mode is carried by
   the lockstep correspondence, not by a theorem. *)
From Coq Require Import Permutation.
From MHL Require Import Model.Commands Proofs.BaseFacts Proofs.TreeFacts Proofs.RouteFacts Proofs.SealFacts Proofs.CreateFacts Proofs.SfFacts Proofs.PartitionFacts Proofs.NestedRecFacts Proofs.SfNestedFacts.

(* (0) the composed command, flat history: the new generation records exactly the tree *)
Theorem C02_create_records_exactly_the_tree : forall Hb matches C cdig ser (t : node C) h0 req no_dh ip ifl,
  load C cdig t = inl [h0] -> is_dir C t = true -> req <> [] ->
  let spec := set_patterns (latest_patterns (lh_gens h0)) ip (pattern_file_lines ifl) in
  let o := snd (create_folder Hb matches C cdig ser t req no_dh false ip ifl) in
  o_outcome o <> Abort ->
  exists doc, o_written o = [([], doc)] /\ NoDup (map r_path (g_records doc)) /\
              forall q, In q (map r_path (g_records doc)) <-> In q (map fst (entries matches C spec [] t)).
Proof. exact create_flat_records_exact. Qed.
Print Assumptions C02_create_records_exactly_the_tree.

(* (1) exactly the visible entries, each exactly once: for every tree, pattern list and matcher *)
Theorem C02_traversal_exact : forall matches C spec t p,
  Permutation (reported (events matches C spec p t)) (entries matches C spec p t).
Proof. exact traversal_exact. Qed.
Print Assumptions C02_traversal_exact.
(* in a well-formed tree (names within a folder distinct) the specification lists every entry once, so "permutation of
   entries" means: each non-ignored entry is reported exactly once *)
Theorem C02_each_entry_once : forall matches C spec t p, wf_tree C t -> NoDup (map fst (entries matches C spec p t)).
Proof. exact entries_NoDup. Qed.
Print Assumptions C02_each_entry_once.
Theorem C02_nothing_ignored : forall matches C spec t p q d,
  In (q, d) (reported (events matches C spec p t)) -> visible matches spec p q.
Proof. exact reported_visible. Qed.
Print Assumptions C02_nothing_ignored.
Theorem C02_listing_order_irrelevant : forall matches C spec p h kids kids',
  NoDup (map fst kids) -> Permutation kids kids' ->
  events matches C spec p (Dir h kids) = events matches C spec p (Dir h kids').
Proof. exact events_listing_order. Qed.
Print Assumptions C02_listing_order_irrelevant.

(* (2) routing and relative paths *)
Theorem C02_routed_to_deepest : forall hs root_h p, good p root_h ->
  good p (route hs root_h p) /\ (route hs root_h p = root_h \/ In (route hs root_h p) hs) /\
  (forall h, In h hs -> good p h -> length (lh_root h) <= length (lh_root (route hs root_h p))).
Proof. exact route_deepest. Qed.
Print Assumptions C02_routed_to_deepest.
Theorem C02_record_path_relative : forall root p, is_prefix root p = true -> root ++ strip_prefix root p = p.
Proof. exact strip_prefix_rejoin. Qed.
Theorem C02_record_path_components : forall root p c, is_prefix root p = true -> In c (strip_prefix root p) -> In c p.
Proof. exact strip_prefix_components. Qed.
Print Assumptions C02_record_path_components.

(* (3) one record per path in a new generation *)
Theorem C02_one_record_per_path : forall rs p d s es,
  NoDup (map r_path rs) -> NoDup (map r_path (add_entries rs p d s es)) /\ In p (map r_path (add_entries rs p d s es)).
Proof. intros rs p d s es H. split; [apply add_entries_NoDup; exact H|apply add_entries_has]. Qed.
Print Assumptions C02_one_record_per_path.

(* (4) correct digests in every format written *)
Theorem C02_digests_of_the_bytes : forall Hb hs fmts p content e,
  let h := route_to hs p in
  In e (fst (seal (lh_gens h) (strip_prefix (lh_root h) p) (fun f => digest_text Hb f content) fmts)) ->
  e_digest e = digest_text Hb (e_fmt e) content.
Proof. exact seal_file_digests. Qed.
Print Assumptions C02_digests_of_the_bytes.

(* non-vacuity: a two-level tree with an ignored entry, evaluated *)
Definition m0 (spec : list text) (s : text) : bool := existsb (text_eqb s) spec.
Definition t0 : node unit := Dir None [([98%N], File [1%N]); ([97%N], Dir None [([99%N], File [])]); ([120%N], File [])].
Example C02_example : map fst (reported (events m0 unit [[120%N]] [] t0)) = [[[97%N]; [99%N]]; [[97%N]]; [[98%N]]].
Proof. reflexivity. Qed.

(* -sf MODE, flat history (one history, at the root, any number of prior generations): the run writes one generation
   whose records are EXACTLY the named files -- a named file itself, every visible file beneath a named folder, each
   once even when named several times -- all of them file records whose entries are the current digests of the file's
   bytes; with nothing to record nothing is written.  (For nested histories the composition is the correspondence's.) *)
Theorem C02_sf_records_exactly_the_named_files : forall Hb matches C cdig ser h0, lh_root h0 = [] ->
  forall t req sf ip ifl, load C cdig t = inl [h0] -> is_dir C t = true -> req <> [] ->
  let spec := set_patterns (latest_patterns (lh_gens h0)) ip (pattern_file_lines ifl) in
  let files := flat_map (sf_files matches C spec t) sf in
  let o := snd (create_sf Hb matches C cdig ser t req sf ip ifl) in
  o_outcome o <> Abort ->
  (files = [] -> o_written o = []) /\
  (files <> [] -> exists doc, o_written o = [([], doc)] /\ NoDup (map r_path (g_records doc)) /\
     (forall q, In q (map r_path (g_records doc)) <-> In q (map fst files)) /\
     (forall r, In r (g_records doc) -> r_dir r = false /\ exists c, In (r_path r, c) files /\
        forall e, In e (r_entries r) -> e_digest e = digest_text Hb (e_fmt e) c)).
Proof. exact create_sf_flat_exact. Qed.
Print Assumptions C02_sf_records_exactly_the_named_files.

(* ANY NESTING, end to end (folder mode, any formats / -n / patterns; no rename detection): whatever the run ends with,
   every generation it writes belongs to a loaded history k, and its records sit at exactly the k-relative paths of (a) the
   entries the traversal handed over whose deepest enclosing history is k and (b) the folders that are the roots of k's
   child histories -- each path the partition assigns to k, and nothing else.  (`ev_adds hs e k q`: event e puts a record
   at path q into history k; the events are the traversal of the command's folder under the effective patterns, which is
   exactly the non-ignored entries by C02_traversal_exact.)  Composes the session partition, the commit and the read-back. *)
Theorem C02_nested_generations_record_exactly_their_share : forall Hb matches C cdig ser h0 kids hs req no_dh ip ifl t' o,
  load C cdig (Dir h0 kids) = inl hs -> req <> [] ->
  create_folder Hb matches C cdig ser (Dir h0 kids) req no_dh false ip ifl = (t', o) ->
  let spec := set_patterns (latest_patterns (lh_gens (root_hist hs))) ip (pattern_file_lines ifl) in
  forall k doc, In (k, doc) (o_written o) ->
    (exists h, In h hs /\ lh_root h = k) /\
    forall q, In q (map r_path (g_records doc)) <-> exists e, In e (events matches C spec [] (Dir h0 kids)) /\ ev_adds hs e k q.
Proof. exact create_folder_records. Qed.
Print Assumptions C02_nested_generations_record_exactly_their_share.

(* -sf over ANY nesting, end to end: every generation the run writes belongs to a loaded history k and holds records at
   exactly the k-relative paths of the named files (a named folder stands for the visible files beneath it) whose deepest
   enclosing history is k -- every such file, and nothing else *)
Theorem C02_nested_sf_records_exactly_the_named_files : forall Hb matches C cdig ser h0 kids hs req sf ip ifl t' o,
  wf_tree C (Dir h0 kids) -> load C cdig (Dir h0 kids) = inl hs -> req <> [] ->
  create_sf Hb matches C cdig ser (Dir h0 kids) req sf ip ifl = (t', o) ->
  let spec := set_patterns (latest_patterns (lh_gens (root_hist hs))) ip (pattern_file_lines ifl) in
  let files := flat_map (sf_files matches C spec (Dir h0 kids)) sf in
  forall k doc, In (k, doc) (o_written o) ->
    (exists h, In h hs /\ lh_root h = k) /\
    forall q, In q (map r_path (g_records doc)) <->
              exists p c, In (p, c) files /\ lh_root (route_to hs p) = k /\ strip_prefix k p = q.
Proof. exact create_sf_nested_records. Qed.
Print Assumptions C02_nested_sf_records_exactly_the_named_files.
