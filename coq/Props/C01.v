(* C01 -- file digests are the standard algorithms over the exact file bytes.
   Statements only; every proof is `exact <lemma of Proofs/>`.  Hb is the primitive (raw digest); the repo's
   own work around it -- read loops, multi-format pass, text codecs, format table -- is what is proved. *)
From Coq Require Import String.
From MHL Require Import Model.Stream Gen.Generated Proofs.StreamFacts Proofs.CodecFacts.

(* T1: the read loop of Hasher.hash_file equals one-shot hashing: every content, every length, every positive
   chunk size (fuel S (length rem) always suffices, so the out-of-fuel value None is never produced) *)
Theorem C01_loop_chunking_irrelevant :
  forall (B st : Type) (upd : st -> list B -> st),
    (forall s a b, upd s (a ++ b) = upd (upd s a) b) -> (forall s, upd s [] = s) ->
    forall size s rem, 0 < size -> hash_file_loop B st upd (S (length rem)) size s rem = Some (upd s rem).
Proof. intros B st upd H1 H2 size s rem Hs. apply hash_file_loop_ok; auto. Qed.
Print Assumptions C01_loop_chunking_irrelevant.

(* T1b: with arbitrary short reads the bytes fed are exactly a prefix of the file, in order, once *)
Theorem C01_short_reads :
  forall (B st : Type) (upd : st -> list B -> st),
    (forall s a b, upd s (a ++ b) = upd (upd s a) b) -> (forall s, upd s [] = s) ->
    forall plan size s rem, exists pre,
      rem = pre ++ snd (hash_file_plan B st upd plan size s rem) /\
      fst (hash_file_plan B st upd plan size s rem) = upd s pre.
Proof. exact hash_file_plan_ok. Qed.
Print Assumptions C01_short_reads.

(* T1c: any chunking at all *)
Theorem C01_any_chunking :
  forall (B st : Type) (upd : st -> list B -> st),
    (forall s a b, upd s (a ++ b) = upd (upd s a) b) -> (forall s, upd s [] = s) ->
    forall chunks s, fold_left upd chunks s = upd s (concat chunks).
Proof. exact chunks_concat. Qed.
Print Assumptions C01_any_chunking.

(* T2: the read-once multi-format pass is pointwise the single-format result *)
Theorem C01_aggregate_pointwise :
  forall (B st K : Type) (updk : K -> st -> list B -> st),
    (forall k s a b, updk k s (a ++ b) = updk k (updk k s a) b) -> (forall k s, updk k s [] = s) ->
    forall size hs rem, 0 < size ->
      agg_loop B st K updk (S (length rem)) size hs rem = Some (map (fun p => (fst p, updk (fst p) (snd p) rem)) hs).
Proof. intros B st K updk H1 H2 size hs rem Hs. apply agg_loop_ok; auto. Qed.
Print Assumptions C01_aggregate_pointwise.

(* T3: all library entry points reduce to enc f (Hb f content), with the chunk sizes found in the source *)
Theorem C01_hash_file_is_digest : forall Hb f content, hash_file Hb f content = Some (digest_text Hb f content).
Proof. exact hash_file_digest. Qed.
Print Assumptions C01_hash_file_is_digest.

Theorem C01_hash_data_is_digest : forall Hb f b, hash_data Hb f b = digest_text Hb f b.
Proof. reflexivity. Qed.

Theorem C01_multi_is_pointwise : forall Hb fmts content,
  multi_hash_file Hb fmts content = Some (map (fun f => (f, digest_text Hb f content)) (dedup_fmts fmts)).
Proof. exact multi_hash_file_pointwise. Qed.
Print Assumptions C01_multi_is_pointwise.

(* T4: the C4 text form, for every 512-bit value *)
Theorem C01_c4_length : forall fuel v, (v < 2 ^ 512)%N -> length (c4_enc_value fuel v) = 90.
Proof. intros fuel v Hv. apply c4_length. eapply N.lt_le_trans; [exact Hv|exact pow_2_512_le]. Qed.
Theorem C01_c4_prefix : forall fuel v, firstn 2 (c4_enc_value fuel v) = t "c4"%string.
Proof. exact c4_has_prefix. Qed.
Theorem C01_c4_alphabet : forall fuel v, Forall (fun c => In c c4_charset) (skipn 2 (c4_enc_value fuel v)).
Proof. exact c4_alphabet. Qed.
Theorem C01_c4_left_padded_with_1 : forall fuel v k, k <= 88 -> (v < 58 ^ N.of_nat k)%N ->
  firstn (88 - k) (skipn 2 (c4_enc_value fuel v)) = repeat_n 49%N (88 - k).
Proof. exact c4_padding. Qed.
Theorem C01_c4_roundtrip : forall digest, Forall is_byte digest -> length digest = 64 ->
  c4_bytes_from_string (c4_string_digest digest) = Some digest /\ length (c4_string_digest digest) = 90.
Proof. intros d H1 H2. split; [apply c4_dec_enc|apply c4_string_digest_length]; assumption. Qed.
Print Assumptions C01_c4_roundtrip.
Print Assumptions C01_c4_left_padded_with_1.

(* T5: hex *)
Theorem C01_hex : forall b, Forall is_byte b ->
  hex_dec (hex_enc b) = Some b /\ length (hex_enc b) = 2 * length b /\ Forall lower_hex_char (hex_enc b).
Proof. intros b H. repeat split; [apply hex_dec_enc|apply hex_enc_length|apply hex_enc_lower]; assumption. Qed.
Print Assumptions C01_hex.

(* every format's text form determines the digest (no two digests share a rendering) *)
Theorem C01_text_form_injective : forall f a b, Forall is_byte a -> Forall is_byte b ->
  length a = width f -> length b = width f -> enc f a = enc f b -> a = b.
Proof. exact enc_inj. Qed.
Print Assumptions C01_text_form_injective.

(* T6: the format table found in the source *)
Theorem C01_table :
  hash_table = [ (t "md5"%string, (t "hex"%string, t "hashlib.md5"%string)); (t "sha1"%string, (t "hex"%string, t "hashlib.sha1"%string));
                 (t "xxh32"%string, (t "hex"%string, t "xxhash.xxh32"%string)); (t "xxh64"%string, (t "hex"%string, t "xxhash.xxh64"%string));
                 (t "xxh3"%string, (t "hex"%string, t "xxhash.xxh3_64"%string)); (t "xxh128"%string, (t "hex"%string, t "xxhash.xxh3_128"%string));
                 (t "c4"%string, (t "c4"%string, t "hashlib.sha512"%string)) ]
  /\ supported_hashformats = map fmt_name [Md5; Sha1; Xxh128; Xxh3; Xxh64; C4].
Proof. split; [exact table_ok|exact (proj1 cli_formats_ok)]. Qed.
Print Assumptions C01_table.

(* non-vacuity: the premises are met by a concrete streaming hasher (state = bytes fed, update = append), and
   a concrete small value exercises the padding branch *)
Example C01_premises_satisfiable :
  (forall (s a b : bytes), (s ++ a) ++ b = s ++ a ++ b) /\
  hash_file_loop N bytes (@app N) 4 2 [] [1; 2; 3]%N = Some [1; 2; 3]%N /\
  c4_enc_value 128 57 = t "c4"%string ++ repeat_n 49%N 87 ++ t "z"%string.
Proof. split; [intros; symmetry; apply app_assoc|split; vm_compute; reflexivity]. Qed.
