(* C06 -- histories are append-only and generations are numbered without gaps.  Statements only.
   `wellformed n h`: manifests numbered 1..n, the chain lists exactly them in order, every entry carries the digest
   of its manifest's content.  `after_commit h doc` is the history value commit_one writes (first two theorems tie it to
   the commit of Model/Create.v).  The manifest *file name* (NNNN_<folder>_<UTC>Z.mhl) is not modelled: it is checked on
   the implementation by the oracle. *)
From Coq Require Import Sorting.Sorted.
From MHL Require Import Model.Commands Gen.Generated Proofs.BaseFacts Proofs.CommitFacts Proofs.HistFacts Proofs.FreshFacts Model.Naming Proofs.NamingFacts Proofs.TreeFacts Proofs.ReloadFacts Proofs.SfNestedFacts Gen.GeneratedFns Proofs.SourceLookupFacts.

Theorem C06_commit_writes_after_commit : forall C cdig ser (old : hist C) doc p par,
  mkHist C (h_files C old ++ [mkMfile C (g_no doc) (ser doc) doc])
         (Some (lh_chain (lhist_of C p par (Some old)) ++ [mkCentry (g_no doc) (g_no doc) (cdig (ser doc))]))
  = after_commit C cdig ser old doc.
Proof. exact commit_hist_is_after_commit. Qed.
Theorem C06_new_number_is_latest_plus_one : forall C (old : hist C) proc nl recs sp refs p par,
  g_no (new_doc proc nl recs sp refs (lhist_of C p par (Some old))) = (latest_generation_number (loaded_gens C old) + 1)%N.
Proof. exact new_doc_number_is. Qed.
Theorem C06_increment_is_one : generation_increment = 1%N.
Proof. reflexivity. Qed.
(* `latest_generation_number` is not only transcribed: MHLHistory.latest_generation_number is translated from the current source
   on every run (Gen/GeneratedFns.v: the loop, the truthiness test of the number, the assignment) and this is the model's *)
Theorem C06_source_latest_generation_number_is_the_models : forall gens, src_latest_generation_number gens = latest_generation_number gens.
Proof. exact src_latest_generation_number_is_model. Qed.
Print Assumptions C06_source_latest_generation_number_is_the_models.

(* a commit keeps every existing manifest, adds exactly one numbered n+1, keeps all earlier chain entries unchanged and
   in order and appends exactly one entry matching the new manifest; well-formedness is preserved *)
Theorem C06_commit_appends : forall C cdig ser n (h : hist C) doc,
  wellformed C cdig n h -> g_no doc = (latest_generation_number (loaded_gens C h) + 1)%N ->
  g_no doc = N.of_nat (S n) /\
  (exists new, h_files C (after_commit C cdig ser h doc) = h_files C h ++ [new] /\ mf_no C new = N.of_nat (S n) /\ mf_content C new = ser doc) /\
  (exists ces, h_chain C h = Some ces /\
               h_chain C (after_commit C cdig ser h doc) = Some (ces ++ [mkCentry (N.of_nat (S n)) (N.of_nat (S n)) (cdig (ser doc))])) /\
  wellformed C cdig (S n) (after_commit C cdig ser h doc).
Proof. exact commit_appends. Qed.
Print Assumptions C06_commit_appends.

(* by induction over ANY sequence of commits starting from an empty history: numbered 1..n without gaps *)
Theorem C06_any_sequence : forall C cdig ser docs n (h : hist C), (forall mk no, In mk docs -> g_no (mk no) = no) ->
  wellformed C cdig n h -> wellformed C cdig (n + length docs) (commits C cdig ser h docs).
Proof. exact commits_wellformed. Qed.
Print Assumptions C06_any_sequence.
Theorem C06_empty_history_wellformed : forall C cdig, wellformed C cdig 0 (mkHist C [] (Some [])).
Proof. exact wellformed_empty. Qed.

(* reloading yields generations 1..n ascending; and ascending whatever the order of the files in the folder *)
Theorem C06_reload_ascending : forall C cdig n (h : hist C),
  wellformed C cdig n h -> map g_no (loaded_gens C h) = nums n /\ Sorted (le gen_leb) (loaded_gens C h).
Proof. exact reload_ascending. Qed.
Theorem C06_reload_sorted_any_listing : forall C (h : hist C), Sorted (le gen_leb) (loaded_gens C h).
Proof. exact reload_sorted_any_order. Qed.
Print Assumptions C06_reload_ascending.

(* END TO END for a tree whose only history is the root's (any number n of prior generations): the create command leaves
   all n manifests in place, adds exactly one numbered n+1, extends the chain by exactly one matching entry, and the
   history is well-formed again *)
Theorem C06_create_appends_one_generation : forall Hb matches C cdig ser old kids h0 n req no_dh ip ifl,
  load C cdig (Dir (Some old) kids) = inl [h0] -> wellformed C cdig n old -> req <> [] ->
  let run := create_folder Hb matches C cdig ser (Dir (Some old) kids) req no_dh false ip ifl in
  o_outcome (snd run) <> Abort ->
  exists doc, o_written (snd run) = [([], doc)] /\ g_no doc = N.of_nat (S n) /\
    fst run = Dir (Some (after_commit C cdig ser old doc)) kids /\
    wellformed C cdig (S n) (after_commit C cdig ser old doc) /\
    (exists new, h_files C (after_commit C cdig ser old doc) = h_files C old ++ [new]).
Proof. exact create_flat_appends. Qed.
Print Assumptions C06_create_appends_one_generation.

(* ANY NESTING OF HISTORIES, as the next command sees it.  `load` is what every command does first: find the history of
   the folder and of every folder below it, check each chain, read each generation (children before parents, siblings by
   name).  After a create run that was not aborted -- folder mode or -sf, any tree, any number of nested histories, any
   session -- loading the tree the run leaves succeeds and yields the same histories in the same order:
     - a history the run did not write into reads back exactly as before (same generations, same chain);
     - a history the run wrote into reads back with the generations it had, in their order, followed by exactly the
       document written (`grown`: gens ++ [doc], chain ++ [one entry: number, file and digest of that document]);
     - every document written carries the number latest+1 of the history it went into.
   So no existing generation is renumbered, replaced or dropped in any history, and each run adds at most one
   generation per history.  (`fin w x` looks x's root up in the written list w: `grown x doc` when found, x otherwise.) *)
Theorem C06_next_command_reads_one_more_generation : forall Hb matches C cdig ser h0 kids hs req no_dh dr ip ifl t' o,
  wf_tree C (Dir h0 kids) -> load C cdig (Dir h0 kids) = inl hs ->
  create_folder Hb matches C cdig ser (Dir h0 kids) req no_dh dr ip ifl = (t', o) -> o_outcome o <> Abort ->
  exists hs', load C cdig t' = inl hs' /\ one_more C cdig ser hs (o_written o) hs' /\ wf_tree C t' /\ exists h' kids', t' = Dir h' kids'.
Proof. exact create_folder_then_reload. Qed.
Print Assumptions C06_next_command_reads_one_more_generation.
Theorem C06_next_command_reads_one_more_generation_sf : forall Hb matches C cdig ser h0 kids hs req sf ip ifl t' o,
  wf_tree C (Dir h0 kids) -> load C cdig (Dir h0 kids) = inl hs ->
  create_sf Hb matches C cdig ser (Dir h0 kids) req sf ip ifl = (t', o) -> o_outcome o <> Abort ->
  exists hs', load C cdig t' = inl hs' /\ one_more C cdig ser hs (o_written o) hs' /\ wf_tree C t' /\ exists h' kids', t' = Dir h' kids'.
Proof. exact create_sf_then_reload. Qed.
Print Assumptions C06_next_command_reads_one_more_generation_sf.
(* ... AND OVER ANY NUMBER OF RUNS: any sequence of create runs (folder mode and -sf in any mix, any formats, options,
   patterns, any nesting), none of them aborted.  Every later load succeeds and shows, for each history that existed at
   the start (`ext x y`: y is x after zero or more added generations): the same root and parent, the old generations as a
   prefix in their order, the old chain entries as a prefix in their order, and after them one chain entry per added
   generation carrying its number and the digest of its document, the added generations numbered consecutively from
   latest+1.  Nothing that was there is ever renumbered, replaced, reordered or dropped. *)
Theorem C06_runs_only_append : forall Hb matches C cdig ser rs h0 kids hs,
  wf_tree C (Dir h0 kids) -> load C cdig (Dir h0 kids) = inl hs ->
  Forall (fun o => o_outcome o <> Abort) (snd (runs Hb matches C cdig ser (Dir h0 kids) rs)) ->
  exists hs', load C cdig (fst (runs Hb matches C cdig ser (Dir h0 kids) rs)) = inl hs' /\ Forall2 (ext C cdig ser) hs hs'.
Proof. exact runs_only_append. Qed.
Print Assumptions C06_runs_only_append.
(* ... UNCONDITIONALLY for runs without rename detection: the hypothesis `no run is aborted` of C06_runs_only_append is a
   theorem for folder mode without -dr and for -sf (C03_nested_create_never_aborts, C03_nested_sf_never_aborts).  So: ANY
   sequence of such runs, on ANY well-formed tree whose histories load, whatever the runs find (altered, missing or new
   files; exit 0, 10 or 11): none is aborted, every later load succeeds, every history only grew. *)
Theorem C06_any_runs_only_append : forall Hb matches C cdig ser rs h0 kids hs, Forall no_dr rs ->
  wf_tree C (Dir h0 kids) -> load C cdig (Dir h0 kids) = inl hs ->
  Forall (fun o => o_outcome o <> Abort) (snd (runs Hb matches C cdig ser (Dir h0 kids) rs)) /\
  exists hs', load C cdig (fst (runs Hb matches C cdig ser (Dir h0 kids) rs)) = inl hs' /\ Forall2 (ext C cdig ser) hs hs'.
Proof. exact runs_append_unconditional. Qed.
Print Assumptions C06_any_runs_only_append.
Theorem C06_ext_means : forall C cdig ser x y, ext C cdig ser x y ->
  lh_root y = lh_root x /\ lh_parent y = lh_parent x /\
  exists more morec, lh_gens y = lh_gens x ++ more /\ lh_chain y = lh_chain x ++ morec /\
    map Tree.ce_file morec = map g_no more /\ map Tree.ce_digest morec = map (fun d => cdig (ser d)) more /\
    map g_no more = map (fun i => (latest_generation_number (lh_gens x) + 1 + N.of_nat i)%N) (seq 0 (length more)).
Proof. exact ext_prefix. Qed.
Print Assumptions C06_ext_means.
Theorem C06_one_more_means : forall C cdig ser hs w hs', one_more C cdig ser hs w hs' <->
  hs' = map (fun x => match find (fun e => path_eqb (fst e) (lh_root x)) w with
                      | Some e => mkLhist (lh_root x) (lh_parent x) (lh_gens x ++ [snd e])
                                          (lh_chain x ++ [mkCentry (g_no (snd e)) (g_no (snd e)) (cdig (ser (snd e)))]) true
                      | None => x
                      end) hs /\
  forall r doc, In (r, doc) w -> exists x, In x hs /\ lh_root x = r /\ g_no doc = (latest_generation_number (lh_gens x) + 1)%N.
Proof. intros. reflexivity. Qed.
(* replacing one history value in a tree changes exactly that history in the loaded list *)
Theorem C06_reload_after_one_history_changed : forall C cdig h kids k newh l,
  wf_tree C (Dir h kids) -> load C cdig (Dir h kids) = inl l -> get_hist C (Dir h kids) k <> None ->
  check_chain C cdig newh = None ->
  load C cdig (set_hist C k newh (Dir h kids)) = inl (map (updl C k newh) l).
Proof. exact reload_set_hist. Qed.
Print Assumptions C06_reload_after_one_history_changed.

(* non-vacuity of the nested statement: a root history and two nested ones (one generation each), one file; the run
   writes into all three and the next load shows generations 1, 2 in each *)
Definition c06_g1 : gen := mkGen 1 [] None [] [] InPlace.
Definition c06_h : hist N := mkHist N [mkMfile N 1 1%N c06_g1] (Some [mkCentry 1 1 [1%N]]).
Definition c06_t : node N := Dir (Some c06_h) [([97%N], Dir (Some c06_h) [([102%N], @File N [7%N])]); ([98%N], Dir (Some c06_h) [])].
Example C06_nested_example :
  let r := create_folder (fun _ b => b) (fun _ _ => false) N (fun c => [c]) (fun g => (g_no g + 10)%N) c06_t [Md5] false false [] [] in
  wf_tree N c06_t /\ o_outcome (snd r) = Exit 0 /\ map fst (o_written (snd r)) = [[[97%N]]; [[98%N]]; []] /\
  match load N (fun c => [c]) c06_t, load N (fun c => [c]) (fst r) with
  | inl l, inl l' => map (fun x => (lh_root x, map g_no (lh_gens x))) l = [([[97%N]], [1%N]); ([[98%N]], [1%N]); ([], [1%N])] /\
                     map (fun x => (lh_root x, map g_no (lh_gens x))) l' = [([[97%N]], [1%N; 2%N]); ([[98%N]], [1%N; 2%N]); ([], [1%N; 2%N])]
  | _, _ => False
  end.
Proof.
  cbn zeta. split.
  { unfold c06_t. constructor; [cbn; repeat constructor; cbn; intuition discriminate|].
    repeat constructor; cbn; intuition. }
  vm_compute. repeat split.
Qed.

(* non-vacuity *)
Example C06_three_commits :
  let mk := fun no => mkGen no [] None [] [] InPlace in
  map (mf_no N) (h_files N (commits N (fun c => [c]) (fun g => g_no g) (mkHist N [] (Some [])) [mk; mk; mk])) = [1; 2; 3]%N.
Proof. reflexivity. Qed.

(* THE FILE NAME: a generation is written as NNNN_<folder>_<stamp>.mhl (number zero-padded to at least four digits) and a
   file of the ascmhl folder counts as a manifest when its stem matches ^(\d{4,})(?:_(.+))?$ (used with re.DOTALL), its
   number being int() of the digits.  The loader recognises EVERY name the tool itself writes and recovers the number --
   whatever the folder is called (digits, underscores, dots, blanks, line feeds ...) and whatever the stamp.  The regex,
   the width, the separator and the flag are obligations on the regenerated constants. *)
Theorem C06_own_names_are_recognised : forall n folder stamp, recognise (manifest_stem n folder stamp) = Some n.
Proof. exact recognise_own_names. Qed.
Print Assumptions C06_own_names_are_recognised.
Theorem C06_naming_constants :
  history_file_name_regex = [94; 40; 92; 100; 123; 52; 44; 125; 41; 40; 63; 58; 95; 40; 46; 43; 41; 41; 63; 36]%N /\
  generation_number_width = 4%nat /\ generation_name_sep = [95%N] /\
  history_file_name_flags = [114; 101; 46; 68; 79; 84; 65; 76; 76]%N.
Proof. exact naming_constants. Qed.
Example C06_name_examples :
  manifest_stem 7 [97%N; 10%N; 98%N] [50%N] = [48; 48; 48; 55; 95; 97; 10; 98; 95; 50]%N /\
  recognise [48; 48; 48; 55; 95; 97; 10; 98; 95; 50]%N = Some 7%N /\ recognise [48; 48; 55; 95; 97]%N = None /\
  recognise [48; 48; 48; 55; 120]%N = None /\ manifest_stem 12345 [] [] = [49; 50; 51; 52; 53; 95; 95]%N.
Proof. vm_compute. repeat split. Qed.
