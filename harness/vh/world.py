"""Scenario engine for the tree / history properties: a scenario is an initial media tree plus a list of steps
(commands, tree edits, history faults).  `run_impl` executes it on a real directory with the real tool and returns
one canonical observation per step; `run_model` sends the same scenario to the extracted model.  Both sides
are compared observation by observation (vh.props.*)."""
import json
import os
import re
import shutil
import stat

from . import core, impl

# ---------------------------------------------------------------------------------------- scenario shape
# tree: {"name": {"f": "<hex bytes>", "m": mtime} | {"d": {...children...}, "m": mtime}}
# steps: dicts with "op" in
#   create  root fmts n dr sf i ii [creator]   verify root sf i    verifydh root fmt co ro i
#   verifypl root pl                            diff root i         flatten root      info root   infosf file [root]
#   set path data | add path data | mkdir path | delete path | rename path to | touch path mtime
#   tamper hist gen kind pos | rmmanifest hist gen | rmchain hist


def materialise(tree, base):
    for name, node in tree.items():
        p = os.path.join(base, name)
        if "d" in node:
            os.mkdir(p)
            materialise(node["d"], p)
        else:
            with open(p, "wb") as fh:
                fh.write(bytes.fromhex(node["f"]))
    # mtimes bottom-up so that creating children does not disturb the directory's own stamp
    for name, node in tree.items():
        p = os.path.join(base, name)
        if node.get("m") is not None:
            os.utime(p, (node["m"], node["m"]))


def histories_below(root):
    out = []
    for d, dirs, _ in os.walk(root):
        if "ascmhl" in dirs:
            out.append(d)
    return sorted(out)


def rel(root, p):
    r = os.path.relpath(p, root)
    if r.startswith(".." + os.sep) or r == "..":
        # the same folder spelled through another route (a symbolic link above the root: the tool prints what the
        # operating system reports as the working directory): compare the real locations
        r = os.path.relpath(os.path.realpath(p), os.path.realpath(root))
    return "" if r == "." else r


def canon_gen(root, hroot, fname):
    man = impl.read_manifest(os.path.join(hroot, "ascmhl", fname))
    m = impl.MANIFEST_NAME.match(fname)
    recs = []
    for r in man["records"]:
        recs.append({
            "path": r["path"], "dir": r["is_dir"], "size": r["size"],
            "entries": [[f, d, a, s] for (f, d, a, _, s) in r["entries"]],
            "prev": "" if r["previous"] == "." else r["previous"],      # the folder of the history itself: "." in the file, the empty path in the model
        })
    refs = []
    for (p, c4) in man["refs"]:
        # <child>/ascmhl/<file>
        parts = p.split("/")
        mm = impl.MANIFEST_NAME.match(parts[-1])
        refs.append(["/".join(parts[:-2]), int(mm.group(1)) if mm else -1])
    return {
        "hist": rel(root, hroot), "no": int(m.group(1)) if m else -1, "records": recs,
        "root": [[f, c, s] for (f, c, s) in man["root"]] if man["root"] is not None else None,
        "patterns": man["patterns"], "refs": refs, "process": man["process"],
        "has_hashes": man["has_hashes_element"],
    }, man


MISSING_HDR = re.compile(r"ERROR: (\d+) missing file\(s\):")


def parse_output(out):
    missing, mismatch, new = [], [], []
    lines = out.split("\n")
    i = 0
    while i < len(lines):
        ln = lines[i]
        m = MISSING_HDR.search(ln)
        if m:
            k = int(m.group(1))
            for j in range(1, k + 1):
                if i + j < len(lines):
                    missing.append(lines[i + j][2:] if lines[i + j].startswith("  ") else lines[i + j].strip())
            i += k
        elif "hash mismatch" in ln:
            mm = (re.match(r"ERROR: hash mismatch        for (.*?) old (?:md5|sha1|xxh128|xxh3|xxh64|c4): ", ln, re.S)
                  or re.match(r"ERROR: hash mismatch for        (.*?)  (?:md5|sha1|xxh128|xxh3|xxh64|c4) \(old\): ", ln, re.S))
            mismatch.append(mm.group(1) if mm else ln)
        elif ln.startswith("found new file "):
            new.append(ln[len("found new file "):])
        i += 1
    return sorted(set(missing)), sorted(set(mismatch)), sorted(set(new))


INFO_LINE = re.compile(r"^  Generation (\d+) \((.*?)\)(?: (\S+): (\S+) \((.*?)\))?\s*$")


def parse_info(out, root):
    """-> list of ['H', relpath] | ['G', n] | ['F', relpath] | ['E', n, fmt, digest, action]"""
    res = []
    for ln in out.split("\n"):
        if ln.startswith("Info with history at path: "):
            res.append(["H", rel(root, ln[len("Info with history at path: "):])])
        elif ln.startswith("Child History at "):
            res.append(["H", rel(root, ln[len("Child History at "):].rstrip(":"))])
        else:
            m = INFO_LINE.match(ln)
            if m:
                if m.group(3):
                    res.append(["E", int(m.group(1)), m.group(3), m.group(4), None if m.group(5) == "None" else m.group(5)])
                else:
                    res.append(["G", int(m.group(1))])
            elif ln.endswith(":") and ln.strip():
                res.append(["F", ln[:-1]])
    return res


DH_ROOT = re.compile(r"^  calculated root hash  (\S+): (\S+) \(content\), (\S+) \(structure\)$")
DH_DIR = re.compile(r"^  calculated directory hash for (.*)  (\S+): (\S+) \(content\), (\S+) \(structure\)$", re.S)


def parse_dh(out):
    res = []
    for ln in out.split("\n"):
        m = DH_ROOT.match(ln)
        if m:
            res.append(["", m.group(1), m.group(2), m.group(3)])
            continue
        m = DH_DIR.match(ln)
        if m:
            res.append([m.group(1), m.group(2), m.group(3), m.group(4)])
    return res


def _nearest(root, file):
    d = os.path.dirname(os.path.join(root, file))
    while True:
        if os.path.exists(os.path.join(d, "ascmhl")):
            return d
        if os.path.dirname(d) == d:
            return root
        d = os.path.dirname(d)


def apply_edit(root, st):
    op = st["op"]
    p = os.path.join(root, st["path"]) if "path" in st else None
    if op in ("set", "add"):
        keep = None
        if op == "set" and st.get("keep_mtime") and os.path.exists(p):
            keep = os.stat(p).st_mtime_ns
        with open(p, "wb") as fh:
            fh.write(bytes.fromhex(st["data"]))
        if keep is not None:
            os.utime(p, ns=(keep, keep))
    elif op == "mkdir":
        os.makedirs(p, exist_ok=True)
    elif op == "delete":
        if os.path.isdir(p):
            shutil.rmtree(p)
        else:
            os.remove(p)
    elif op == "rename":
        q = os.path.join(root, st["to"])
        os.makedirs(os.path.dirname(q), exist_ok=True)
        os.rename(p, q)
    elif op == "touch":
        os.utime(p, (st["mtime"], st["mtime"]))
    elif op == "tamper":
        h = os.path.join(root, st["hist"])
        gens = dict(impl.list_manifests(h))
        f = os.path.join(h, "ascmhl", gens[st["gen"]])
        data = bytearray(open(f, "rb").read())
        pos = st["pos"] % max(1, len(data))
        k = st["kind"]
        if k == "flip":
            data[pos] ^= 1 << (st.get("bit", 0) % 8)
        elif k == "insert":
            data[pos:pos] = b" "
        elif k == "delete":
            del data[pos]
        elif k == "truncate":
            del data[pos:]
        elif k == "append":
            data += b"\n"
        elif k == "empty":
            del data[:]                # the manifest is still there, with no bytes in it: modified (31), not missing
        st0 = os.stat(f)
        with open(f, "wb") as fh:
            fh.write(bytes(data))
        if st.get("keep_mtime"):            # bit rot, cp -p, rsync -t: the bytes change, the time stamps do not
            os.utime(f, ns=(st0.st_atime_ns, st0.st_mtime_ns))
    elif op == "leftover":
        # what an interrupted run leaves in an ascmhl folder: temporary files of the writers (no reader may touch them)
        d = os.path.join(root, st["hist"], "ascmhl")
        if os.path.isdir(d):
            with open(os.path.join(d, "0099_left_2020-01-01_000000Z.mhl.tmp"), "wb") as fh:
                fh.write(b"<?xml version='1.0'?><hashlist")
            with open(os.path.join(d, "ascmhl_chain.xml.tmp"), "wb") as fh:
                fh.write(b"<?xml version='1.0'?><ascmhldirectory")
            # ... and what a file manager of another operating system leaves beside the manifests (the loader skips these
            # names; nobody may remove or change them)
            with open(os.path.join(d, "._0001_left_2020-01-01_000000Z.mhl"), "wb") as fh:
                fh.write(b"\x00\x05\x16\x07 resource fork")
            with open(os.path.join(d, "._ascmhl_chain.xml"), "wb") as fh:
                fh.write(b"\x00\x05\x16\x07")
    elif op == "rmmanifest":
        h = os.path.join(root, st["hist"])
        gens = dict(impl.list_manifests(h))
        os.remove(os.path.join(h, "ascmhl", gens[st["gen"]]))
    elif op == "rmchain":
        os.remove(os.path.join(root, st["hist"], "ascmhl", "ascmhl_chain.xml"))
    else:
        raise ValueError(op)


def cli_args(root, st, aux):
    """-> (command name, argv).  aux: directory for pattern files / flatten destination"""
    return _cli_args(root, st, aux)


def cli_cwd(root, st, aux):
    """the working directory of a command step (None: wherever the harness runs)"""
    if st.get("rel_dest"):
        return aux
    if st.get("op") == "verifypl" and st.get("pl_rel") and st.get("pl_path"):
        return os.path.dirname(st["pl_path"])
    if st.get("op") == "infosf" and st.get("sf_rel"):
        return os.path.dirname(os.path.join(root, st["file"]))       # the file is named relative to the working directory
    if st.get("spell") in ("rel", "dotrel"):
        return os.path.dirname(root)
    if st.get("spell") == "dot":
        return os.path.join(root, st.get("root", "")) if st.get("root") else root
    return None


def spell_path(root, s, mode):
    """the same file or folder below root, typed in a non-normalised way"""
    if mode == "dot":
        return root + os.sep + "." + os.sep + s
    if mode == "dup":
        return root + os.sep + os.sep + s
    if mode == "updown" and "/" in s:
        return root + os.sep + s.split("/")[0] + os.sep + ".." + os.sep + s
    if mode == "updown":
        return root + os.sep + "." + os.sep + s
    return os.path.join(root, s)


def _cli_args(root, st, aux):
    op = st["op"]
    r = os.path.join(root, st.get("root", "")) if st.get("root") else root
    if st.get("spell") == "slash":          # the same folder, typed with a trailing separator
        r = r + os.sep
    elif st.get("spell") == "rel" and not st.get("rel_dest"):
        r = os.path.relpath(r, os.path.dirname(root))          # relative to the working directory (= the parent of the root folder)
    elif st.get("spell") == "dotrel" and not st.get("rel_dest"):
        r = "." + os.sep + os.path.relpath(r, os.path.dirname(root))
    elif st.get("spell") == "dot" and not st.get("rel_dest"):
        r = "."                                                 # the working directory is the folder itself
    elif st.get("spell") == "updown":
        r = r + os.sep + ".." + os.sep + os.path.basename(r)    # absolute but not normalised
    elif st.get("spell") == "dup":
        r = os.path.dirname(r) + os.sep + os.sep + os.path.basename(r)
    if st.get("verbose") and op in ("create", "verify", "verifydh", "verifypl", "diff", "flatten", "info", "infosf"):
        cmd, a = _cli_args(root, {k: v for k, v in st.items() if k != "verbose"}, aux)
        return cmd, a + ["-v"]
    if op == "create":
        a = [r]
        for f in st.get("fmts") or []:
            a += ["-h", f]
        if st.get("n"):
            a.append("-n")
        if st.get("dr"):
            a.append("-dr")
        for k, s in enumerate(st.get("sf") or []):
            a += ["-sf", spell_path(root, s, (st.get("sf_spell") or [None] * (k + 1))[k % max(1, len(st.get("sf_spell") or [None]))])]
        for i in st.get("i") or []:
            a += ["-i", i]
        if st.get("ii") is not None:
            pf = os.path.join(aux, f"patterns{len(os.listdir(aux))}.txt")
            with open(pf, "w") as fh:
                fh.write("".join(p + "\n" for p in st["ii"]))
            a += ["-ii", pf]
        for k, v in (st.get("creator") or {}).items():
            a += [f"--{k}", v]
        return "create", a
    if op == "verify":
        a = [r]
        if st.get("sf") is not None:
            a += ["-sf", spell_path(root, st["sf"], (st.get("sf_spell") or [None])[0])]
        for i in st.get("i") or []:
            a += ["-i", i]
        return "verify", a
    if op == "verifydh":
        a = [r, "-dh"]
        if st.get("fmt"):
            a += ["-h", st["fmt"]]
        if st.get("co"):
            a.append("-co")
        if st.get("ro"):
            a.append("-ro")
        for i in st.get("i") or []:
            a += ["-i", i]
        return "verify", a
    if op == "verifypl":
        # pl_rel: the packing list named relative to the working directory (which is the folder the packing list lies in)
        return "verify", [r, "-pl", os.path.basename(st["pl_path"]) if st.get("pl_rel") and st.get("pl_path") else st["pl_path"]]
    if op == "diff":
        a = [r]
        for i in st.get("i") or []:
            a += ["-i", i]
        return "diff", a
    if op == "flatten":
        a = [r, os.path.basename(st["dest_path"]) if st.get("rel_dest") else st["dest_path"]]
        for k, v in (st.get("creator") or {}).items():
            a += [f"--{k}", v]
        return "flatten", a
    if op == "info":
        return "info", [r]
    if op == "hash":
        return "hash", [os.path.join(root, st["file"]), "-h", st.get("fmt", "md5")]
    if op == "xsdcheck":
        hr = os.path.join(root, st.get("hist", "") or "")
        gens = impl.list_manifests(hr)
        return "xsd_schema_check", ([os.path.join(hr, "ascmhl", gens[-1][1])] if gens else [os.path.join(hr, "nothing.mhl")]) + ["-xsd", os.path.join(core.REPO, "xsd", "ASCMHL.xsd")]
    if op == "infosf":
        a = ["-sf", os.path.basename(st["file"]) if st.get("sf_rel") else os.path.join(root, st["file"])]
        if st.get("root") is not None:
            a.append(r)
        return "info", a
    raise ValueError(op)


COMMANDS = {"create", "verify", "verifydh", "verifypl", "diff", "flatten", "info", "infosf", "hash", "xsdcheck"}


def manifest_listing(root):
    return {h: set(f for _, f in impl.list_manifests(h)) for h in histories_below(root)}


def hist_state(root):
    """{history (relative): {'files': {manifest name: c4 of its bytes}, 'chain': [(sequencenr, file name, c4)] | None | 'unparsable'}}"""
    out = {}
    for h in histories_below(root):
        d = os.path.join(h, "ascmhl")
        files = {}
        for f in sorted(os.listdir(d)):
            if f.endswith(".mhl"):
                with open(os.path.join(d, f), "rb") as fh:
                    files[f] = impl.digest_text("c4", fh.read())
        cp = os.path.join(d, "ascmhl_chain.xml")
        chain = None
        if os.path.exists(cp):
            try:
                chain = [list(x) for x in impl.read_chain(cp)]
            except Exception:  # noqa
                chain = "unparsable"
        out[rel(root, h)] = {"files": files, "chain": chain, "other": sorted(f for f in os.listdir(d) if not f.endswith(".mhl") and f != "ascmhl_chain.xml")}
    return out


def run_impl(scn, scratch, keep=False, snap=False):
    """-> (list of observations, root path).  One observation per step (edits give {'edit': op}).
    scn["tz"]: the whole scenario runs under this TZ value (restored afterwards)"""
    if scn.get("tz") or any(st.get("op") == "tz" for st in scn["steps"]):
        import time as _time

        old_tz = os.environ.get("TZ")
        os.environ["TZ"] = scn.get("tz") or old_tz or "UTC"
        _time.tzset()
        try:
            return _run_impl(scn, scratch, keep, snap)
        finally:
            if old_tz is None:
                os.environ.pop("TZ", None)
            else:
                os.environ["TZ"] = old_tz
            _time.tzset()
    return _run_impl(scn, scratch, keep, snap)


def _run_impl(scn, scratch, keep=False, snap=False):
    base = scratch.new("s")
    if scn.get("link_parent"):
        # the folder is reached through a symbolic link somewhere above it (a mounted volume, a linked project folder):
        # every path handed to the tool contains the link, the real location is elsewhere
        os.mkdir(os.path.join(base, "real location"))
        os.symlink("real location", os.path.join(base, "link"))
        base = os.path.join(base, "link")
    root = os.path.join(base, scn.get("root_name", "r"))
    os.mkdir(root)
    aux = os.path.join(base, "aux")
    os.mkdir(aux)
    materialise(scn["tree"], root)
    if scn.get("root_mtime") is not None:
        os.utime(root, (scn["root_mtime"], scn["root_mtime"]))
    obs = []
    clock = None
    for st in scn["steps"]:
        if st["op"] == "clock":
            clock = st["t"]
            obs.append({"edit": "clock"})
            continue
        if st["op"] == "tz":
            # the machine's time zone changes between two runs (a history continued elsewhere, a daylight-saving switch)
            import time as _time

            os.environ["TZ"] = st["tz"]
            _time.tzset()
            obs.append({"edit": "tz"})
            continue
        if st["op"] not in COMMANDS:
            apply_edit(root, st)
            obs.append({"edit": st["op"]})
            continue
        st = dict(st)
        if st["op"] == "flatten":
            st["dest_path"] = os.path.join(aux, f"flat{len(os.listdir(aux))}")
            if st.get("deep_dest"):
                # a destination whose parent folders do not exist: whatever the command does about that, it creates nothing
                # outside the destination folder itself
                st["dest_path"] = os.path.join(aux, f"nowhere{len(os.listdir(aux))}", "sub", "flat")
        if st["op"] == "verifypl":
            st["pl_path"] = st.get("pl_path") or _latest_packing_list(aux)
        before = manifest_listing(root)
        cmd, argv = cli_args(root, st, aux)
        snap0 = (impl.snapshot(root), impl.snapshot(aux)) if snap else None
        hs0 = hist_state(root) if snap else None
        if snap:
            impl.audit_start(base)
        if clock is not None:
            from freezegun import freeze_time

            with freeze_time(clock):
                outcome, out = impl.run_cli(cmd, argv, cwd=cli_cwd(root, st, aux))
        else:
            outcome, out = impl.run_cli(cmd, argv, cwd=cli_cwd(root, st, aux))
        audit = impl.audit_stop() if snap else None
        after = manifest_listing(root)
        fs_changed = None
        if snap:
            snap1 = (impl.snapshot(root), impl.snapshot(aux))
            fs_changed = sorted(k for k in set(snap0[0]) | set(snap1[0]) if snap0[0].get(k) != snap1[0].get(k))
            aux_changed = sorted(k for k in set(snap0[1]) | set(snap1[1]) if snap0[1].get(k) != snap1[1].get(k))
        written, raw = [], []
        for h in sorted(after):
            for f in sorted(after[h] - before.get(h, set())):
                try:
                    g, man = canon_gen(root, h, f)
                except Exception as e:  # unparsable manifest: report as such
                    g, man = {"hist": rel(root, h), "file": f, "unparsable": type(e).__name__}, None
                written.append(g)
                raw.append((h, f, man))
        missing, mismatch, new = parse_output(out)
        o = {"op": st["op"], "outcome": list(outcome), "written": written, "missing": missing, "mismatch": mismatch, "new": new, "output": out, "_raw": raw, "_argv": argv}
        if snap:
            o["_fs_changed"], o["_aux_changed"] = fs_changed, aux_changed
            o["_hist_before"], o["_hist_after"] = hs0, hist_state(root)
            o["_audit"] = audit
            o["_root_name"] = os.path.basename(root)
        if st["op"] in ("info", "infosf"):
            o["info"] = parse_info(impl.LAST_STDOUT if isinstance(getattr(impl, "LAST_STDOUT", None), str) and outcome[0] == "exit" else out, os.path.join(root, st.get("root") or "") if st["op"] == "info" or st.get("root") is not None else _nearest(root, st["file"]))
        if st["op"] == "verifydh":
            o["dh"] = parse_dh(out)
        if st["op"] == "flatten":
            o["flat"] = _read_flat(st["dest_path"])
        obs.append(o)
    return obs, root


def _latest_packing_list(aux):
    best = None
    for d, _, files in os.walk(aux):
        for f in files:
            if f.startswith("packinglist_") and f.endswith(".mhl"):
                p = os.path.join(d, f)
                if best is None or os.path.getmtime(p) >= os.path.getmtime(best):
                    best = p
    return best


def _read_flat(dest):
    res = []
    for d, _, files in os.walk(dest):
        for f in sorted(files):
            if f.endswith(".mhl"):
                man = impl.read_manifest(os.path.join(d, f))
                res.append({
                    "file": f, "process": man["process"], "patterns": man["patterns"],
                    "records": [{"path": r["path"], "dir": r["is_dir"], "entries": [[x[0], x[1], x[2]] for x in r["entries"]]} for r in man["records"]],
                })
    return res


def public(o):
    """the comparable part of an observation"""
    return {k: v for k, v in o.items() if not k.startswith("_") and k != "output"}


# --------------------------------------------------------------------------------- tree helpers (pure)


def tree_apply(tree, st):
    """applies an edit step to the scenario's abstract tree (used by generators and oracles)"""
    import copy

    t = copy.deepcopy(tree)

    def walk(parts, create=False):
        cur = t
        for p in parts:
            if p not in cur:
                if not create:
                    raise KeyError(p)
                cur[p] = {"d": {}}
            cur = cur[p]["d"]
        return cur

    op = st["op"]
    if op in ("set", "add"):
        parts = st["path"].split("/")
        walk(parts[:-1], create=True)[parts[-1]] = {"f": st["data"]}
    elif op == "mkdir":
        walk(st["path"].split("/"), create=True)
    elif op == "delete":
        parts = st["path"].split("/")
        del walk(parts[:-1])[parts[-1]]
    elif op == "rename":
        parts = st["path"].split("/")
        node = walk(parts[:-1]).pop(parts[-1])
        q = st["to"].split("/")
        walk(q[:-1], create=True)[q[-1]] = node
    return t


def tree_entries(tree, prefix=""):
    """-> [(relpath, is_dir, data|None)] pre-order"""
    out = []
    for name in sorted(tree):
        node = tree[name]
        p = prefix + name
        if "d" in node:
            out.append((p, True, None))
            out += tree_entries(node["d"], p + "/")
        else:
            out.append((p, False, bytes.fromhex(node["f"])))
    return out


# ------------------------------------------------------------------------------------------ model side


def ptok(p):
    """relative path string -> path token"""
    return "." if p in ("", ".") else "/".join(core.tok(c) for c in p.split("/"))


def unptok(t):
    return "" if t == "." else "/".join(core.untok(c) for c in t.split("/"))


def tree_tokens(tree):
    out = ["D", str(len(tree))]
    for name in tree:
        node = tree[name]
        out.append(core.tok(name))
        if "d" in node:
            out += tree_tokens(node["d"])
        else:
            out += ["F", node["f"] or "-"]
    return out


def lst(items, f=lambda x: x):
    return [str(len(items))] + [f(x) for x in items]


def step_line(st):
    op = st["op"]
    root = ptok(st.get("root", "") or "")
    if op == "create":
        ii = st.get("ii")
        return " ".join(["create", root] + lst(st.get("fmts") or ["xxh128"]) + ["1" if st.get("n") else "0", "1" if st.get("dr") else "0"]
                        + lst(st.get("sf") or [], ptok) + lst(st.get("i") or [], core.tok)
                        + (["1"] + lst([l for l in ii], core.tok) if ii is not None else ["0"]))
    if op == "verify":
        return " ".join(["verify", root] + (["1", ptok(st["sf"])] if st.get("sf") is not None else ["0"]) + lst(st.get("i") or [], core.tok))
    if op == "diff":
        return " ".join(["diff", root] + lst(st.get("i") or [], core.tok))
    if op == "verifydh":
        return " ".join(["verifydh", root] + (["1", st["fmt"]] if st.get("fmt") else ["0"]) + ["1" if st.get("co") else "0", "1" if st.get("ro") else "0"]
                        + lst(st.get("i") or [], core.tok))
    if op == "info":
        return f"info {root}"
    if op == "infosf":
        return f"infosf {ptok(st['file'])} " + (f"1 {root}" if st.get("root") is not None else "0")
    if op == "flatten":
        if st.get("deep_dest"):
            return None          # the model has no destination folder: observed by the snapshot oracle only
        return f"flatten {root}"
    if op == "verifypl":
        # the packing list is what the latest flatten wrote; the model recomputes it from the (unchanged) history at _pl_src
        if st.get("_pl_src") is None:
            return None
        return " ".join(["verifypl", root, ptok(st["_pl_src"])] + lst(st.get("i") or [], core.tok))
    if op in ("set", "add"):
        return f"set {ptok(st['path'])} {st['data'] or '-'}"
    if op == "mkdir":
        return f"mkdir {ptok(st['path'])}"
    if op == "delete":
        return f"delete {ptok(st['path'])}"
    if op == "rename":
        return f"rename {ptok(st['path'])} {ptok(st['to'])}"
    if op == "touch":
        return f"touch {ptok(st['path'])}"
    if op == "tamper":
        return f"tamper {ptok(st['hist'])} {st['gen']}"
    if op == "rmmanifest":
        return f"rmmanifest {ptok(st['hist'])} {st['gen']}"
    if op == "rmchain":
        return f"rmchain {ptok(st['hist'])}"
    return None


_SPECS = {}


def match_oracle(args):
    """Q M <n> <pattern>*n <path>  ->  1 / 0, answered by pathspec itself"""
    import pathspec

    n = int(args[0])
    pats = tuple(core.untok(a) for a in args[1 : 1 + n])
    path = core.untok(args[1 + n])
    spec = _SPECS.get(pats)
    if spec is None:
        spec = _SPECS[pats] = pathspec.PathSpec.from_lines("gitwildmatch", iter(pats))
    return "1" if spec.match_file(path) else "0"


def new_model():
    return core.Model({"H": core.hash_oracle, "M": match_oracle})


def _decode_gen(g):
    return {
        "hist": unptok(g["hist"]), "no": g["no"],
        "records": [{"path": unptok(r["path"]), "dir": r["dir"], "size": r["size"],
                     "entries": [[e[0], core.untok(e[1]), e[2], core.untok(e[3]) if e[3] is not None else None] for e in r["entries"]],
                     "prev": unptok(r["prev"]) if r["prev"] is not None else None} for r in g["records"]],
        "root": [[e[0], core.untok(e[1]), core.untok(e[2]) if e[2] is not None else None] for e in g["root"]] if g["root"] is not None else None,
        "patterns": [core.untok(p) for p in g["patterns"]],
        "refs": [[unptok(r[0]), r[1]] for r in g["refs"]],
        "process": g["process"],
    }


def decode_obs(js):
    o = json.loads(js)
    return {
        "outcome": o["outcome"],
        "written": [_decode_gen(g) for g in o["written"]],
        "missing": [unptok(p) for p in o["missing"]],
        "mismatch": [unptok(p) for p in o["mismatch"]],
        "new": [unptok(p) for p in o["new"]],
        "ops": [[k, unptok(p)] for k, p in o["ops"]],
        "dh": [[unptok(x[0]), x[1], core.untok(x[2]), core.untok(x[3])] for x in o.get("dh", [])],
        "info": [[x[0]] + [unptok(x[1]) if x[0] in ("H", "F") else x[1]] + ([x[2], core.untok(x[3]), x[4]] if x[0] == "E" else []) for x in o["info"]],
    }


def run_model(scn, model):
    """-> list of observations (None for steps the model does not cover)"""
    r = model.call("init " + " ".join(tree_tokens(scn["tree"])))
    if r != "ok":
        raise RuntimeError("model init failed: " + r)
    out = []
    pl_src = None                 # root of the latest flatten, as long as no later command can have changed a history
    for st in scn["steps"]:
        if st["op"] == "flatten" and not st.get("deep_dest"):
            pl_src = st.get("root", "") or ""
        elif st["op"] in ("create", "tamper", "rmmanifest", "rmchain") or (st["op"] in ("rename", "delete") and pl_src is not None):
            pl_src = None
        if st["op"] == "verifypl":
            st = dict(st, _pl_src=pl_src)
        line = step_line(st)
        if line is None:
            out.append(None)
            continue
        r = model.call(line)
        if r.startswith("UNKNOWN") or r.startswith("EXC"):
            out.append({"unsupported": r})
            continue
        o = decode_obs(r)
        if st["op"] not in COMMANDS:
            o = {"edit": st["op"]}
        out.append(o)
    return out


def comparable(o, op, st=None):
    st = st or {}
    """projects an implementation / model observation of a command onto what both sides state"""
    if "edit" in o:
        return {"edit": o["edit"]}
    c = {"outcome": o["outcome"] if o["outcome"][0] == "exit" else ["abort"],
         "written": sorted(({k: v for k, v in g.items() if k != "has_hashes"} for g in o["written"]), key=lambda g: g["hist"]),
         "missing": sorted(o["missing"])}
    if op in ("verify", "diff", "verifypl"):
        c["mismatch"] = sorted(o["mismatch"])
        c["new"] = sorted(o["new"])
    if op in ("info", "infosf"):
        # a refused info has already printed its header line when the loader raises; the model's refusal carries no lines
        c["info"] = None if o["outcome"] in (["exit", 31], ["exit", 32], ["exit", 33]) else o.get("info")
    if op == "verifydh" and st.get("co"):
        c["dh"] = sorted(x for x in o.get("dh", []) if not st.get("ro") or x[0] == "")
    if op == "flatten":
        c.pop("written")
        c.pop("missing")
        if "flat" in o:
            c["flat"] = [{"process": f["process"], "records": f["records"], "patterns": f.get("patterns")} for f in o["flat"]]
        else:
            c["flat"] = [{"process": g["process"], "patterns": g["patterns"],
                          "records": [{"path": r["path"], "dir": r["dir"], "entries": [e[:3] for e in r["entries"]]} for r in g["records"]]}
                         for g in o["written"]]
    return c


def first_difference(scn, impl_obs, model_obs):
    """-> None or (step index, impl projection, model projection)"""
    for i, (st, a, b) in enumerate(zip(scn["steps"], impl_obs, model_obs)):
        if b is None or "unsupported" in b:
            continue
        ca, cb = comparable(a, st["op"], st), comparable(b, st["op"], st)
        if ca != cb:
            return i, ca, cb
    return None
