"""Common machinery of the checks: environment, Coq build + Print Assumptions parsing, the extracted-model
driver, verdict / evidence / known-findings handling.  See DESIGN.md section 2.5 for the verdict rules."""
import fcntl
import hashlib
import json
import os
import random
import re
import resource
import shutil
import subprocess
import sys
import tempfile
import time

VERIF = os.environ.get("VERIF_ROOT", "/verif")
REPO = os.environ.get("VERIF_REPO", "/repo")
COQ = os.path.join(VERIF, "coq")
DRIVER = os.path.join(VERIF, "ocaml", "driver")
PY = "/venv/bin/python"

ALLOWED_ASSUMPTIONS = {"Closed under the global context"}
FORBIDDEN = re.compile(
    r"\b(Admitted|admit|Axiom|Axioms|Parameter|Parameters|Conjecture|Conjectures|Abort All|"
    r"Unset Guard Checking|Unset Positivity Checking|Unset Universe Checking|bypass_check|native_compute|"
    r"Admit Obligations|type-in-type|impredicative-set)\b"
)


def setup_env():
    os.environ["PYTHONHASHSEED"] = "0"
    os.environ["PYTHONPATH"] = REPO + os.pathsep + os.path.join(VERIF, "harness")
    os.environ.setdefault("TZ", "UTC")
    time.tzset()
    os.environ["LC_ALL"] = "C.UTF-8"
    os.environ["CARGO_NET_OFFLINE"] = "true"
    os.environ["PIP_NO_INDEX"] = "1"
    os.environ["GOPROXY"] = "off"
    os.umask(0o022)
    if REPO not in sys.path:
        sys.path.insert(0, REPO)
    for k in list(sys.modules):
        if k == "ascmhl" or k.startswith("ascmhl."):
            del sys.modules[k]


# ------------------------------------------------------------------------------------------------ scratch


class Scratch:
    """private scratch root outside /repo and /verif, removed at exit; no ancestor may contain an `ascmhl` entry"""

    def __init__(self, tag):
        base = os.environ.get("VERIF_SCRATCH", tempfile.gettempdir())
        self.root = tempfile.mkdtemp(prefix=f"vh{tag}_", dir=base)
        p = self.root
        while True:
            if os.path.basename(p) in ("ascmhl", ".DS_Store") or os.path.exists(os.path.join(p, "ascmhl")):
                raise RuntimeError(f"scratch root {self.root} has an ancestor that would be ignored by ascmhl: {p}")
            q = os.path.dirname(p)
            if q == p:
                break
            p = q
        self.n = 0

    def new(self, name="w"):
        self.n += 1
        d = os.path.join(self.root, f"{name}{self.n}")
        os.makedirs(d)
        return d

    def cleanup(self):
        shutil.rmtree(self.root, ignore_errors=True)


# -------------------------------------------------------------------------------------------------- Coq


class BuildLock:
    def __enter__(self):
        os.makedirs(os.path.join(VERIF, "build"), exist_ok=True)
        self.fh = open(os.path.join(VERIF, "build", ".lock"), "w")
        fcntl.flock(self.fh, fcntl.LOCK_EX)
        return self

    def __exit__(self, *a):
        fcntl.flock(self.fh, fcntl.LOCK_UN)
        self.fh.close()


def run(cmd, timeout, cwd=None, env=None, input=None):
    try:
        p = subprocess.run(cmd, cwd=cwd, env=env, input=input, capture_output=True, text=True, timeout=timeout)
        return p.returncode, p.stdout, p.stderr
    except subprocess.TimeoutExpired as e:
        return 124, (e.stdout or b"").decode("utf-8", "replace") if isinstance(e.stdout, bytes) else (e.stdout or ""), "timeout"


def theorems_of(vfile):
    with open(vfile, encoding="utf-8") as fh:
        src = fh.read()
    src = re.sub(r"\(\*.*?\*\)", "", src, flags=re.S)
    return re.findall(r"^\s*(?:Theorem|Lemma|Corollary|Example)\s+([A-Za-z0-9_']+)", src, flags=re.M)


def strip_comments(src):
    out, depth, i = [], 0, 0
    while i < len(src):
        if src.startswith("(*", i):
            depth += 1
            i += 2
        elif src.startswith("*)", i) and depth > 0:
            depth -= 1
            i += 2
        else:
            if depth == 0:
                out.append(src[i])
            i += 1
    return "".join(out)


def forbidden_tokens():
    hits = []
    for d, _, files in os.walk(COQ):
        for f in files:
            if f.endswith(".v"):
                p = os.path.join(d, f)
                with open(p, encoding="utf-8") as fh:
                    src = strip_comments(fh.read())
                for m in FORBIDDEN.finditer(src):
                    hits.append(f"{os.path.relpath(p, COQ)}: {m.group(0)}")
    return hits


def coq_step(prop, thorough=False):
    """translator -> Generated.v -> make Props/<prop>.vo (+ extraction + driver) -> Print Assumptions.
    returns dict(ok, stage, detail, theorems, assumptions, translator, log, wall_s)"""
    t0 = time.time()
    res = {"ok": False, "stage": None, "detail": "", "theorems": [], "assumptions": {}, "translator": None, "log": ""}
    with BuildLock():
        gen_env = dict(os.environ, VERIF_GEN_XSD="1" if os.path.exists(os.path.join(COQ, "Model", "SchemaDef.v")) else "0")
        rc, out, err = run([sys.executable, os.path.join(VERIF, "translator", "gen.py"), REPO, os.path.join(COQ, "Gen", "Generated.v")], 120, env=gen_env)
        try:
            tr = json.loads(out.strip().splitlines()[-1])
        except Exception:
            tr = {"ok": False, "error": (out + err)[-2000:]}
        res["translator"] = tr
        if rc != 0 or not tr.get("ok"):
            res.update(stage="translator", detail=tr.get("error", "translator failed"))
            res["wall_s"] = time.time() - t0
            return res
        if not os.path.exists(os.path.join(COQ, "Makefile")):
            run(["coq_makefile", "-f", "_CoqProject", "-o", "Makefile"], 60, cwd=COQ)
        target = f"Props/{prop}.vo"
        rc, out, err = run(["make", "-j16", target, "Extract/Extract.vo"], 1500, cwd=COQ)
        res["log"] = (out + err)[-6000:]
        vfile = os.path.join(COQ, "Props", f"{prop}.v")
        res["theorems"] = theorems_of(vfile) if os.path.exists(vfile) else []
        if rc != 0:
            m = re.search(r'File "\./([^"]+)", line (\d+)', out + err)
            where = f"{m.group(1)}:{m.group(2)}" if m else "?"
            thm = None
            if m:
                try:
                    with open(os.path.join(COQ, m.group(1)), encoding="utf-8") as fh:
                        lines = fh.read().splitlines()[: int(m.group(2))]
                    for ln in reversed(lines):
                        mm = re.match(r"\s*(?:Theorem|Lemma|Corollary|Example|Definition|Fixpoint)\s+([A-Za-z0-9_']+)", ln)
                        if mm:
                            thm = mm.group(1)
                            break
                except OSError:
                    pass
            res.update(stage="proof", detail=f"coq build failed at {where}" + (f" (in {thm})" if thm else "") + ": " + (out + err)[-1500:])
            res["failing"] = thm
            res["wall_s"] = time.time() - t0
            return res
        # re-run the property file alone to capture its Print Assumptions output
        rc, out, err = run(["coqc", "-Q", ".", "MHL", "-w", "-notation-overridden", f"Props/{prop}.v"], 600, cwd=COQ)
        if rc != 0:
            res.update(stage="proof", detail="coqc Props failed: " + (out + err)[-1500:])
            res["wall_s"] = time.time() - t0
            return res
        blocks = [b.strip() for b in re.split(r"\n(?=Closed under|Axioms:)", "\n" + out) if b.strip()]
        bad = [b for b in blocks if b.splitlines()[0].strip() not in ALLOWED_ASSUMPTIONS]
        res["assumptions"] = {"blocks": len(blocks), "text": sorted(set(b.splitlines()[0].strip() for b in blocks))}
        if bad:
            res.update(stage="proof", detail="Print Assumptions reports axioms: " + " | ".join(bad)[:1500])
            res["wall_s"] = time.time() - t0
            return res
        hits = forbidden_tokens()
        if hits:
            res.update(stage="proof", detail="forbidden tokens in the development: " + "; ".join(hits[:10]))
            res["wall_s"] = time.time() - t0
            return res
        # driver
        drv_src = [os.path.join(VERIF, "ocaml", f) for f in ("model.ml", "driver.ml", "world_driver.ml")]
        if not os.path.exists(DRIVER) or any(os.path.getmtime(s) > os.path.getmtime(DRIVER) for s in drv_src if os.path.exists(s)):
            rc, out, err = run([os.path.join(VERIF, "ocaml", "build.sh")], 600)
            if rc != 0:
                res.update(stage="extraction", detail="driver build failed: " + (out + err)[-1500:])
                res["wall_s"] = time.time() - t0
                return res
    if thorough and os.environ.get("VERIF_COQCHK", "1") == "1":
        # from-clean full .vo build of the closure of this property's file in a private copy, then coqchk -o
        bdir = os.path.join(VERIF, "build", f"th_{prop}_{os.getpid()}")
        shutil.rmtree(bdir, ignore_errors=True)
        try:
            for d, _, files in os.walk(COQ):
                for f in files:
                    if f.endswith(".v") or f == "_CoqProject":
                        dst = os.path.join(bdir, os.path.relpath(os.path.join(d, f), COQ))
                        os.makedirs(os.path.dirname(dst), exist_ok=True)
                        shutil.copy2(os.path.join(d, f), dst)
            run(["coq_makefile", "-f", "_CoqProject", "-o", "Makefile"], 60, cwd=bdir)
            rc, out, err = run(["make", "-j16", f"Props/{prop}.vo"], 3000, cwd=bdir)
            if rc != 0:
                res.update(stage="proof", detail="from-clean build failed: " + (out + err)[-1500:])
                res["wall_s"] = time.time() - t0
                return res
            rc, out, err = run(["coqchk", "-silent", "-o", "-Q", ".", "MHL", f"MHL.Props.{prop}"], 3000, cwd=bdir)
            res["coqchk"] = {"rc": rc, "tail": (out + err)[-1200:]}
            if rc != 0:
                res.update(stage="proof", detail="coqchk failed: " + (out + err)[-1500:])
                res["wall_s"] = time.time() - t0
                return res
            m = re.search(r"\* Axioms:\s*(.*?)(?:\n\s*\n|\Z)", out + "\n" + err, flags=re.S)
            ax = m.group(1).strip() if m else "?"
            res["coqchk"]["axioms"] = ax
            if "<none>" not in ax:
                res.update(stage="proof", detail="coqchk reports axioms: " + ax[:800])
                res["wall_s"] = time.time() - t0
                return res
        finally:
            shutil.rmtree(bdir, ignore_errors=True)
    res["ok"] = True
    res["wall_s"] = time.time() - t0
    return res


# ----------------------------------------------------------------------------------------------- model


def _unlimit_stack():
    try:
        resource.setrlimit(resource.RLIMIT_STACK, (resource.RLIM_INFINITY, resource.RLIM_INFINITY))
    except (ValueError, OSError):
        pass


class Model:
    """one process of the extracted model; oracle queries are answered from `oracles` (dict letter -> callable)"""

    def __init__(self, oracles=None):
        self.oracles = oracles or {}
        self.p = subprocess.Popen([DRIVER], stdin=subprocess.PIPE, stdout=subprocess.PIPE, text=True, bufsize=1, preexec_fn=_unlimit_stack)
        self.queries = 0

    def call(self, line):
        self.p.stdin.write(line + "\n")
        self.p.stdin.flush()
        while True:
            out = self.p.stdout.readline()
            if not out:
                raise RuntimeError(f"model driver died on: {line[:200]}")
            out = out.rstrip("\n")
            if out.startswith("Q "):
                self.queries += 1
                parts = out.split(" ")
                ans = self.oracles[parts[1]](parts[2:])
                self.p.stdin.write("A " + ans + "\n")
                self.p.stdin.flush()
            elif out.startswith("R "):
                return out[2:]
            elif out == "R":
                return ""
            else:
                raise RuntimeError(f"unexpected driver output: {out[:200]}")

    def close(self):
        try:
            self.p.stdin.close()
            self.p.wait(timeout=5)
        except Exception:
            self.p.kill()


def tok(s):
    """python str -> text token"""
    return ".".join(format(ord(c), "x") for c in s) if s else "-"


def untok(t):
    return "" if t == "-" else "".join(chr(int(h, 16)) for h in t.split("."))


def hx(b):
    return b.hex() if b else "-"


def unhx(s):
    return b"" if s == "-" else bytes.fromhex(s)


def primitive(fmt):
    import xxhash

    return {
        "md5": hashlib.md5,
        "sha1": hashlib.sha1,
        "xxh32": xxhash.xxh32,
        "xxh64": xxhash.xxh64,
        "xxh3": xxhash.xxh3_64,
        "xxh128": xxhash.xxh3_128,
        "c4": hashlib.sha512,
    }[fmt]


def hash_oracle(args):
    """Q H <fmt> <hex>  ->  raw digest, one-shot, straight from hashlib / xxhash"""
    fmt, data = args[0], unhx(args[1])
    return hx(primitive(fmt)(data).digest())


# ---------------------------------------------------------------------------------------------- verdict


class Report:
    def __init__(self, prop, tier, seed):
        self.prop, self.tier, self.seed = prop, tier, seed
        self.t0 = time.time()
        self.evaluations = 0
        self.nontrivial = set()
        self.samples = []
        self.disagreements = []      # model vs implementation (tie broken)
        self.violations = []         # property oracle on the implementation
        self.known_seen = []
        self.histo = {}
        self.traces = 0
        self.coq = None
        self.notes = []
        self.extra = {}
        kf = os.path.join(VERIF, "known_findings.json")
        self.known = json.load(open(kf)).get("findings", []) if os.path.exists(kf) else []

    def count(self, key, n=1):
        self.histo[key] = self.histo.get(key, 0) + n

    def case(self, canonical, nontrivial=True, sample=None):
        self.evaluations += 1
        if nontrivial:
            self.nontrivial.add(hashlib.sha1(repr(canonical).encode()).hexdigest())
        if sample is not None and len(self.samples) < 6:
            self.samples.append(sample)

    def disagree(self, scenario, model, impl, what):
        self.disagreements.append({"what": what, "scenario": scenario, "model": model, "impl": impl})

    def violate(self, signature, scenario, expected, actual, what):
        """an oracle violation on the implementation; `signature` identifies the failing region for known findings"""
        for k in self.known:
            if k.get("property") == self.prop and k.get("signature") == signature:
                if signature not in [s for s, _ in self.known_seen]:
                    self.known_seen.append((signature, k.get("what", what)))
                return
        self.violations.append({"signature": signature, "what": what, "scenario": scenario, "expected": expected, "actual": actual})

    def write_replay(self, kind, payload):
        d = os.path.join(VERIF, "replays", self.prop)
        os.makedirs(d, exist_ok=True)
        body = json.dumps({"property": self.prop, "kind": kind, "seed": self.seed, "tier": self.tier, **payload}, indent=1, sort_keys=True, default=str)
        name = hashlib.sha1(body.encode()).hexdigest()[:12] + ".json"
        path = os.path.join(d, name)
        with open(path, "w") as fh:
            fh.write(body)
        return os.path.relpath(path, VERIF)

    def finish(self, level_note, rule, trusted_base, checker_cmd, search=None):
        """prints KNOWN-FINDING / VIOLATION lines, writes the evidence file, returns the exit status"""
        coq = self.coq or {"ok": False, "stage": "proof", "detail": "coq step not run", "theorems": []}
        tie_broken = (not coq["ok"]) or bool(self.disagreements)
        if tie_broken and not self.violations and search is not None:
            search()  # targeted search for a failing input (adds to self.violations)
        lines, status = [], 0
        for sig, what in self.known_seen:
            lines.append(f"KNOWN-FINDING: property={self.prop} {what} [{sig}]")
        if self.violations:
            v = self.violations[0]
            path = self.write_replay("oracle", v)
            lines.append(f"VIOLATION property={self.prop} replay={path}")
            status = 1
        elif tie_broken:
            if not coq["ok"]:
                payload = {"broken": coq.get("stage"), "detail": coq.get("detail"), "failing": coq.get("failing"), "log": coq.get("log", "")[-3000:]}
                kind = coq.get("stage") or "proof"
            else:
                payload = dict(self.disagreements[0])
                payload["broken"] = "correspondence"
                kind = "correspondence"
            path = self.write_replay(kind, payload)
            lines.append(f"VIOLATION property={self.prop} replay={path} no-failing-input-found")
            status = 1
        n_thm = len(coq.get("theorems", []))
        ev = {
            "property_id": self.prop,
            "tier": self.tier,
            "seed": self.seed,
            "level": "proof",
            "coverage": {
                "obligations": max(n_thm, 1),
                "discharged": n_thm if coq["ok"] else 0,
                "checker_cmd": checker_cmd,
                "trusted_base": trusted_base,
                "theorems": coq.get("theorems", []),
                "print_assumptions": coq.get("assumptions", {}),
                "translator": coq.get("translator"),
                "coqchk": coq.get("coqchk"),
                "evaluations": self.evaluations,
                "distinct_nontrivial": len(self.nontrivial),
                "rule": rule,
                "samples": self.samples or ["(no case was run)"],
                "traces_validated_against_impl": self.traces,
                "distribution": self.histo,
                "model_impl_disagreements": len(self.disagreements),
                "known_findings_seen": [s for s, _ in self.known_seen],
                "notes": self.notes,
                **self.extra,
            },
            "assumptions": [level_note],
            "wall_s": round(time.time() - self.t0, 2),
            "violations": len(self.violations) + (1 if (tie_broken and not self.violations) else 0),
        }
        os.makedirs(os.path.join(VERIF, "evidence"), exist_ok=True)
        with open(os.path.join(VERIF, "evidence", f"{self.prop}.json"), "w") as fh:
            json.dump(ev, fh, indent=1, sort_keys=True, default=str)
        for ln in lines:
            print(ln)
        print(f"{self.prop}: tier={self.tier} seed={self.seed} theorems={n_thm} coq_ok={coq['ok']} evaluations={self.evaluations} "
              f"nontrivial={len(self.nontrivial)} disagreements={len(self.disagreements)} violations={len(self.violations)} "
              f"known={len(self.known_seen)} wall={ev['wall_s']}s")
        return status


def rng_for(seed, tag):
    return random.Random(f"{seed}/{tag}")
