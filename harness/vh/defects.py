"""Concrete demonstrations of the defects found in the pinned tree (DESIGN.md section 4), each as a scenario run
against the real implementation with the property's expectation.  `python -m vh.defects` prints one line per
defect: HOLDS (property holds on this input now) or FAILS (defect present).  The same scenarios are part of the
corpus every check runs first, so a fixed defect that returns is reported again."""
import os
import sys
import time

from . import core, impl, world

H = lambda s: s.encode().hex()  # noqa


def d01_c04_format_sequence(sc):
    scn = {"tree": {"a.txt": {"f": H("hello")}}, "steps": [
        {"op": "create", "fmts": ["xxh64"]}, {"op": "create", "fmts": ["md5"]}, {"op": "create", "fmts": ["md5", "sha1"]}]}
    obs, _ = world.run_impl(scn, sc)
    return [o["outcome"] for o in obs] == [["exit", 0]] * 3, [o["outcome"] for o in obs]


def d02_c09_flat_root_change(sc):
    scn = {"tree": {"a.txt": {"f": H("hello")}}, "steps": [
        {"op": "create", "fmts": ["xxh64"]}, {"op": "set", "path": "a.txt", "data": H("HELLO")}, {"op": "verifydh"}]}
    obs, _ = world.run_impl(scn, sc)
    return obs[-1]["outcome"] == ["exit", 12], obs[-1]["outcome"]


def d03_c09_mixed_format_child(sc):
    scn = {"tree": {"A": {"d": {"x.txt": {"f": H("x")}}}, "b.txt": {"f": H("b")}}, "steps": [
        {"op": "create", "root": "A", "fmts": ["md5"]}, {"op": "create", "fmts": ["xxh64"]}, {"op": "verifydh"}]}
    obs, _ = world.run_impl(scn, sc)
    return obs[-1]["outcome"] == ["exit", 0], obs[-1]["outcome"]


def d04_c09_no_dirhash_generation(sc):
    scn = {"tree": {"S": {"d": {"x.txt": {"f": H("x")}}}}, "steps": [{"op": "create", "fmts": ["md5"], "n": True}, {"op": "verifydh"}]}
    obs, _ = world.run_impl(scn, sc)
    return obs[-1]["outcome"][0] == "exit", obs[-1]["outcome"]


def d05_c10_line_separator_in_name(sc):
    scn = {"tree": {"a b.txt": {"f": H("x")}}, "steps": [{"op": "create", "fmts": ["md5"]}, {"op": "verify"}]}
    obs, _ = world.run_impl(scn, sc)
    paths = [r["path"] for g in obs[0]["written"] for r in g["records"]]
    return paths == ["a b.txt"] and obs[1]["outcome"] == ["exit", 0], [paths, obs[1]["outcome"]]


def _xsd_ok(root):
    from lxml import etree

    xsd = etree.XMLSchema(etree.parse(os.path.join(core.REPO, "xsd", "ASCMHL.xsd")))
    bad = []
    for h in world.histories_below(root):
        for _, f in impl.list_manifests(h):
            p = os.path.join(h, "ascmhl", f)
            if not xsd.validate(etree.parse(p)):
                bad.append(os.path.relpath(p, root))
    return bad


def d06_c11_empty_hashes(sc):
    scn = {"tree": {"A": {"d": {"x.txt": {"f": H("x")}}}}, "steps": [
        {"op": "create", "root": "A", "fmts": ["md5"]}, {"op": "create", "fmts": ["md5"]}, {"op": "create", "fmts": ["md5"], "sf": ["A/x.txt"]}]}
    obs, root = world.run_impl(scn, sc)
    bad = _xsd_ok(root)
    scn2 = {"tree": {}, "steps": [{"op": "create", "fmts": ["md5"]}]}
    obs2, root2 = world.run_impl(scn2, sc)
    bad += _xsd_ok(root2)
    return not bad, bad


def d07_c11_duplicate_sf(sc):
    scn = {"tree": {"x.txt": {"f": H("x")}}, "steps": [{"op": "create", "fmts": ["md5"], "sf": ["x.txt", "x.txt"]}]}
    obs, root = world.run_impl(scn, sc)
    bad = _xsd_ok(root)
    return not bad, bad


def d08_c12_sf_folder_ignores_patterns(sc):
    scn = {"tree": {"S": {"d": {"keep.txt": {"f": H("k")}, "skip.tmp": {"f": H("s")}}}}, "steps": [
        {"op": "create", "fmts": ["md5"], "i": ["*.tmp"]}, {"op": "create", "fmts": ["md5"], "sf": ["S"]}]}
    obs, _ = world.run_impl(scn, sc)
    paths = sorted(r["path"] for g in obs[1]["written"] for r in g["records"])
    return paths == ["S/keep.txt"], paths


def d09_c13_parent_named_ascmhl(sc):
    scn = {"root_name": "ascmhl/proj", "tree": {"a.txt": {"f": H("a")}}, "steps": [{"op": "create", "fmts": ["md5"]}]}
    base = sc.new("loc")
    os.makedirs(os.path.join(base, "x", "ascmhl"))
    sub = core.Scratch.__new__(core.Scratch)
    sub.root, sub.n = os.path.join(base, "x"), 0

    def new(name="w", _s=sub):
        _s.n += 1
        d = os.path.join(_s.root, "ascmhl", f"{name}{_s.n}")
        os.makedirs(d)
        return d

    sub.new = new
    scn["root_name"] = "proj"
    obs, _ = world.run_impl(scn, sub)
    paths = [r["path"] for g in obs[0]["written"] for r in g["records"]]
    return paths == ["a.txt"], paths


def d10_c13_reference_order(sc):
    import ascmhl.history  # noqa

    tree = {n: {"d": {"x.txt": {"f": H(n)}}} for n in ["A", "B", "C", "D"]}
    steps = [{"op": "create", "root": n, "fmts": ["md5"]} for n in ["C", "A", "D", "B"]] + [{"op": "create", "fmts": ["md5"]}]
    real_scandir = os.scandir
    results = []
    for order in (sorted, lambda l: sorted(l, reverse=True)):

        class It:
            def __init__(self, path, _rev=(order is not sorted)):
                with real_scandir(path) as it:
                    self.l = iter(sorted(list(it), key=lambda e: e.name, reverse=_rev))

            def __iter__(self):
                return self

            def __next__(self):
                return next(self.l)

            def __enter__(self):
                return self

            def __exit__(self, *a):
                return False

            def close(self):
                pass

        os.scandir = It
        try:
            obs, _ = world.run_impl({"tree": tree, "steps": steps}, sc)
        finally:
            os.scandir = real_scandir
        results.append([r[0] for g in obs[-1]["written"] if g["hist"] == "" for r in g["refs"]])
    return results[0] == results[1], results


def d12_c16_empty_file_size(sc):
    scn = {"tree": {"e.bin": {"f": ""}}, "steps": [{"op": "create", "fmts": ["md5"]}]}
    obs, _ = world.run_impl(scn, sc)
    sizes = [r["size"] for g in obs[0]["written"] for r in g["records"] if not r["dir"]]
    return sizes == [0], sizes


def d13_c16_dst_offset(sc):
    import subprocess

    code = (
        "import os,sys,datetime\n"
        "sys.path.insert(0, %r)\n"
        "from ascmhl.utils import datetime_isostring\n"
        "jan = datetime.datetime.fromtimestamp(1705320000)\n"   # 2024-01-15 12:00 UTC
        "jul = datetime.datetime.fromtimestamp(1721044800)\n"   # 2024-07-15 12:00 UTC
        "print(datetime_isostring(jan), datetime_isostring(jul))\n" % core.REPO
    )
    out = subprocess.run([core.PY, "-c", code], env=dict(os.environ, TZ="Europe/Berlin"), capture_output=True, text=True).stdout.split()
    return out == ["2024-01-15T13:00:00+01:00", "2024-07-15T14:00:00+02:00"], out


def d15_c03_verify_without_files(sc):
    scn = {"tree": {"E": {"d": {}}}, "steps": [{"op": "create", "fmts": ["md5"]}, {"op": "verify"}]}
    obs, _ = world.run_impl(scn, sc)
    return obs[1]["outcome"] == ["exit", 0], obs[1]["outcome"]


def d16_c17_move_into_new_dir(sc):
    scn = {"tree": {"a.txt": {"f": H("aaa")}}, "steps": [
        {"op": "create", "fmts": ["md5"]}, {"op": "rename", "path": "a.txt", "to": "N/a.txt"}, {"op": "create", "fmts": ["sha1"], "dr": True}]}
    obs, _ = world.run_impl(scn, sc)
    return obs[-1]["outcome"] == ["exit", 0], obs[-1]["outcome"]


ALL = [v for k, v in sorted(globals().items()) if k.startswith("d") and k[1:3].isdigit()]


def main():
    core.setup_env()
    sc = core.Scratch("dfx")
    try:
        for fn in ALL:
            try:
                ok, detail = fn(sc)
            except Exception as e:  # noqa
                ok, detail = False, f"exception {type(e).__name__}: {e}"
            print(("HOLDS " if ok else "FAILS ") + fn.__name__, str(detail)[:200])
    finally:
        sc.cleanup()


if __name__ == "__main__":
    main()
