"""Independent pure-Python reference implementations of XXH32 and XXH64 (from the xxHash specification), used
only by the C01 oracle to cross-check the xxhash C library on the files the checks create."""
M32 = 0xFFFFFFFF
M64 = 0xFFFFFFFFFFFFFFFF


def _rotl32(x, r):
    return ((x << r) | (x >> (32 - r))) & M32


def _rotl64(x, r):
    return ((x << r) | (x >> (64 - r))) & M64


def xxh32(data: bytes, seed: int = 0) -> int:
    P1, P2, P3, P4, P5 = 2654435761, 2246822519, 3266489917, 668265263, 374761393
    n, p = len(data), 0

    def rnd(acc, inp):
        return (_rotl32((acc + inp * P2) & M32, 13) * P1) & M32

    if n >= 16:
        v1, v2, v3, v4 = (seed + P1 + P2) & M32, (seed + P2) & M32, seed & M32, (seed - P1) & M32
        while p + 16 <= n:
            v1 = rnd(v1, int.from_bytes(data[p : p + 4], "little"))
            v2 = rnd(v2, int.from_bytes(data[p + 4 : p + 8], "little"))
            v3 = rnd(v3, int.from_bytes(data[p + 8 : p + 12], "little"))
            v4 = rnd(v4, int.from_bytes(data[p + 12 : p + 16], "little"))
            p += 16
        h = (_rotl32(v1, 1) + _rotl32(v2, 7) + _rotl32(v3, 12) + _rotl32(v4, 18)) & M32
    else:
        h = (seed + P5) & M32
    h = (h + n) & M32
    while p + 4 <= n:
        h = (h + int.from_bytes(data[p : p + 4], "little") * P3) & M32
        h = (_rotl32(h, 17) * P4) & M32
        p += 4
    while p < n:
        h = (h + data[p] * P5) & M32
        h = (_rotl32(h, 11) * P1) & M32
        p += 1
    h ^= h >> 15
    h = (h * P2) & M32
    h ^= h >> 13
    h = (h * P3) & M32
    h ^= h >> 16
    return h


def xxh64(data: bytes, seed: int = 0) -> int:
    P1, P2, P3, P4, P5 = (
        11400714785074694791,
        14029467366897019727,
        1609587929392839161,
        9650029242287828579,
        2870177450012600261,
    )
    n, p = len(data), 0

    def rnd(acc, inp):
        return (_rotl64((acc + inp * P2) & M64, 31) * P1) & M64

    def merge(acc, val):
        acc ^= rnd(0, val)
        return (acc * P1 + P4) & M64

    if n >= 32:
        v1, v2, v3, v4 = (seed + P1 + P2) & M64, (seed + P2) & M64, seed & M64, (seed - P1) & M64
        while p + 32 <= n:
            v1 = rnd(v1, int.from_bytes(data[p : p + 8], "little"))
            v2 = rnd(v2, int.from_bytes(data[p + 8 : p + 16], "little"))
            v3 = rnd(v3, int.from_bytes(data[p + 16 : p + 24], "little"))
            v4 = rnd(v4, int.from_bytes(data[p + 24 : p + 32], "little"))
            p += 32
        h = (_rotl64(v1, 1) + _rotl64(v2, 7) + _rotl64(v3, 12) + _rotl64(v4, 18)) & M64
        for v in (v1, v2, v3, v4):
            h = merge(h, v)
    else:
        h = (seed + P5) & M64
    h = (h + n) & M64
    while p + 8 <= n:
        h ^= rnd(0, int.from_bytes(data[p : p + 8], "little"))
        h = (_rotl64(h, 27) * P1 + P4) & M64
        p += 8
    if p + 4 <= n:
        h ^= (int.from_bytes(data[p : p + 4], "little") * P1) & M64
        h = (_rotl64(h, 23) * P2 + P3) & M64
        p += 4
    while p < n:
        h ^= (data[p] * P5) & M64
        h = (_rotl64(h, 11) * P1) & M64
        p += 1
    h ^= h >> 33
    h = (h * P2) & M64
    h ^= h >> 29
    h = (h * P3) & M64
    h ^= h >> 32
    return h


# published known answers for the empty input (xxHash specification / reference test vectors)
EMPTY = {
    "xxh32": "02cc5d05",
    "xxh64": "ef46db3751d8e999",
    "xxh3": "2d06800538d394c2",
    "xxh128": "99aa06d3014798d86001c324468d497f",
    "md5": "d41d8cd98f00b204e9800998ecf8427e",
    "sha1": "da39a3ee5e6b4b0d3255bfef95601890afd80709",
}
