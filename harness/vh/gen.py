"""Seeded scenario generators: structured, mostly-valid trees / histories / command sequences, plus the
mutation streams the properties quantify over.  Every random choice comes from the rng passed in."""
import copy

from . import world

FORMATS = ["md5", "sha1", "xxh128", "xxh3", "xxh64", "c4"]

# names: ASCII, spaces, non-ASCII, XML-special, blanks at the ends, glob meta characters, prefixes of each other
NAMES = ["a", "b", "c", "A", "AB", "A B", "Ab", "a.txt", "b.txt", "c.bin", "d.tmp", "50% e.tmp", ".proxies", "Clips", "Sound", "notes",
         "ü.txt", "文件", "x&y", "<z>", "q'\"r", " lead", "trail ", "a?", "[ab]", "*s", "x y z.mov", "é", "\U0001F3AC.mov",
         "a b", "dot.", ".hidden", "Z", "zz", "0", "00",
         "cafe\u0301.mov", "caf\u00e9.mov", "A\u030a", "proxies 50%", "%s", "100%d {0}"]          # one name in decomposed and in precomposed form; a decomposed one
DS = ".DS_Store"


def gen_name(rng, used, simple=False):
    pool = NAMES[:16] if simple else NAMES
    for _ in range(50):
        n = rng.choice(pool)
        if n not in used:
            return n
    n = f"n{len(used)}_{rng.randrange(1000)}"
    return n


def gen_content(rng, distinct=None):
    for _ in range(20):
        k = rng.choice([0, 1, 2, 3, 5, 8, 13, 21, 40])
        data = rng.randbytes(k).hex()
        if distinct is None or data not in distinct:
            if distinct is not None:
                distinct.add(data)
            return data
    data = rng.randbytes(24).hex()
    if distinct is not None:
        distinct.add(data)
    return data


def gen_tree(rng, max_entries=14, max_depth=4, simple=False, distinct=None, ds_store=True):
    budget = [rng.randrange(0, max_entries + 1)]

    def level(depth):
        t, used = {}, set()
        n = rng.randrange(0, 5) if depth else rng.randrange(0, 6)
        for _ in range(n):
            if budget[0] <= 0:
                break
            budget[0] -= 1
            name = gen_name(rng, used, simple)
            used.add(name)
            if depth < max_depth and rng.random() < 0.35:
                t[name] = {"d": level(depth + 1)}
            else:
                t[name] = {"f": gen_content(rng, distinct)}
        if ds_store and rng.random() < 0.08:
            t[DS] = {"f": "00"}
        return t

    return level(0)


def all_dirs(tree, prefix=""):
    out = []
    for n, node in tree.items():
        if "d" in node:
            out.append(prefix + n)
            out += all_dirs(node["d"], prefix + n + "/")
    return out


def all_files(tree, prefix=""):
    out = []
    for n, node in tree.items():
        if "d" in node:
            out += all_files(node["d"], prefix + n + "/")
        else:
            out.append(prefix + n)
    return out


def gen_fmts(rng, kmax=3):
    k = rng.choice([1, 1, 1, 2, 2, 3, kmax])
    return rng.sample(FORMATS, min(k, 6))


def gen_create(rng, tree, nested_ok=True, sf_ok=True, n_ok=True, patterns=None):
    st = {"op": "create", "fmts": gen_fmts(rng)}
    if rng.random() < 0.15:
        st["fmts"] = st["fmts"] + [st["fmts"][0]]          # repeated -h
    if n_ok and rng.random() < 0.15:
        st["n"] = True
    dirs = all_dirs(tree)
    if nested_ok and dirs and rng.random() < 0.3:
        st["root"] = rng.choice(dirs)
    if sf_ok and rng.random() < 0.2:
        base = st.get("root", "")
        cands = [p for p in all_files(tree) + dirs if (p.startswith(base + "/") if base else True)]
        cands = [p for p in cands if "/ascmhl" not in p and DS not in p]
        if cands:
            st["sf"] = rng.sample(cands, min(len(cands), rng.choice([1, 1, 2, 3])))
            st.pop("n", None)
    if patterns and rng.random() < 0.3:
        st["i"] = rng.sample(patterns, min(len(patterns), rng.choice([1, 1, 2])))
    if patterns and rng.random() < 0.1:
        st["ii"] = rng.sample(patterns, min(len(patterns), rng.choice([1, 2]))) + ([""] if rng.random() < 0.3 else [])
    return st


def gen_edit(rng, tree, kinds=("set", "add", "delete", "mkdir", "touch", "rename")):
    files, dirs = all_files(tree), all_dirs(tree)
    for _ in range(10):
        k = rng.choice(kinds)
        if k == "set" and files:
            p = rng.choice(files)
            return {"op": "set", "path": p, "data": gen_content(rng)}
        if k == "add":
            d = rng.choice([""] + dirs)
            node = tree
            for c in [c for c in d.split("/") if c]:
                node = node[c]["d"]
            n = gen_name(rng, set(node), simple=True)
            return {"op": "add", "path": (d + "/" if d else "") + n, "data": gen_content(rng)}
        if k == "delete" and (files or dirs):
            empties = [d for d in dirs if not _node(tree, d)["d"]]
            p = rng.choice(files + empties) if (files + empties) else None
            if p:
                return {"op": "delete", "path": p}
        if k == "mkdir":
            d = rng.choice([""] + dirs)
            n = gen_name(rng, set(_node(tree, d)["d"]) if d else set(tree), simple=True)
            return {"op": "mkdir", "path": (d + "/" if d else "") + n}
        if k == "touch" and (files or dirs):
            return {"op": "touch", "path": rng.choice(files + dirs), "mtime": rng.randrange(946684800, 1700000000)}
        if k == "rename" and files:
            p = rng.choice(files)
            d = rng.choice([""] + dirs)
            n = gen_name(rng, set(_node(tree, d)["d"]) if d else set(tree), simple=True)
            return {"op": "rename", "path": p, "to": (d + "/" if d else "") + n}
    return {"op": "touch", "path": "", "mtime": 1000000000} if False else {"op": "mkdir", "path": "zz_new"}


def _node(tree, path):
    node = {"d": tree}
    for c in [c for c in path.split("/") if c]:
        node = node["d"][c]
    return node


def gen_history_scenario(rng, n_steps=8, **kw):
    """a tree, then an interleaving of create runs (root / nested / -sf / -n / patterns), edits, verify and diff"""
    tree = gen_tree(rng, **{k: v for k, v in kw.items() if k in ("max_entries", "max_depth", "simple", "distinct", "ds_store")})
    patterns = kw.get("patterns")
    if callable(patterns):
        patterns = patterns(tree, rng)
    steps, cur = [], copy.deepcopy(tree)
    steps.append(gen_create(rng, cur, nested_ok=rng.random() < 0.4, sf_ok=False, patterns=patterns))
    for _ in range(n_steps - 1):
        r = rng.random()
        if r < 0.35:
            steps.append(gen_create(rng, cur, patterns=patterns))
        elif r < 0.7:
            st = gen_edit(rng, cur, kinds=kw.get("edit_kinds", ("set", "add", "delete", "mkdir", "touch")))
            steps.append(st)
            cur = world.tree_apply(cur, st)
        elif r < 0.78:
            steps.append({"op": "verify"})
        elif r < 0.84:
            steps.append({"op": "diff"})
        elif r < 0.90:
            st = {"op": "verifydh"}
            if rng.random() < 0.3:
                st["co"] = True
            if rng.random() < 0.2:
                st["ro"] = True
            if rng.random() < 0.2:
                st["fmt"] = rng.choice(FORMATS)
            steps.append(st)
        elif r < 0.94:
            steps.append({"op": "info"})
        elif r < 0.97:
            files = all_files(cur)
            if files:
                st = {"op": "infosf", "file": rng.choice(files)}
                if rng.random() < 0.5:
                    st["root"] = ""
                steps.append(st)
        else:
            steps.append({"op": "flatten"})
    steps.append({"op": "verify"})
    return {"tree": tree, "steps": steps}


def path_patterns(tree, rng, k=2):
    """ignore patterns bound to a location: an existing nested path, a glob below a folder, a root-anchored name"""
    nested = [f for f in all_files(tree) + all_dirs(tree) if "/" in f and DS not in f]
    out = []
    if nested:
        f = rng.choice(nested)
        out.append(f)
        d, n = f.rsplit("/", 1)
        ext = n.rsplit(".", 1)[-1] if "." in n else None
        out.append(d + "/*" + ("." + ext if ext else ""))
        out.append("/" + n)                       # anchored at the root: must NOT match the nested entry
        deeper = [x for x in nested if x.count("/") >= 2]
        if deeper:
            out.append(rng.choice(deeper))
    top = [n for n in tree if n != DS]
    if top:
        out.append("/" + rng.choice(top))
    rng.shuffle(out)
    return out[:k]
