"""Runs the real implementation (/repo, in-process through click's CliRunner) and reads its files back with
an independent reader (xml.etree / expat, not lxml) and an independent hex / C4 codec."""
import os
import re
import xml.etree.ElementTree as ET

from . import core

NS = "{urn:ASC:MHL:v2.0}"
NSD = "{urn:ASC:MHL:DIRECTORY:v2.0}"
C4_CHARSET = "123456789ABCDEFGHJKLMNPQRSTUVWXYZabcdefghijkmnopqrstuvwxyz"
FORMATS = ["md5", "sha1", "xxh128", "xxh3", "xxh64", "c4"]


def commands():
    import ascmhl.commands as c

    return c


# ------------------------------------------------------------------------------------------ audit events
_AUDIT = {"on": False, "events": [], "root": None, "installed": False}
_WRITE_EVENTS = {"os.mkdir", "os.rename", "os.remove", "os.rmdir", "os.utime", "os.chmod", "os.chown", "os.truncate", "os.link", "os.symlink",
                 "shutil.copyfile", "shutil.copymode", "shutil.copystat", "shutil.copytree", "shutil.move", "shutil.rmtree", "os.mkfifo", "os.mknod"}


def _audit_hook(event, args):
    if not _AUDIT["on"]:
        return
    try:
        if event == "open":
            path, mode, flags = args[0], args[1], args[2]
            if not isinstance(path, (str, bytes)):
                return
            wr = (isinstance(mode, str) and any(c in mode for c in "wax+")) or (isinstance(flags, int) and flags & (os.O_WRONLY | os.O_RDWR | os.O_CREAT | os.O_TRUNC | os.O_APPEND))
            if wr:
                _AUDIT["events"].append(("open-w", os.fsdecode(path)))
        elif event in _WRITE_EVENTS:
            paths = [os.fsdecode(a) for a in args if isinstance(a, (str, bytes))]
            _AUDIT["events"].append((event,) + tuple(paths))
    except Exception:  # noqa
        pass


def audit_start(root):
    import sys

    if not _AUDIT["installed"]:
        sys.addaudithook(_audit_hook)
        _AUDIT["installed"] = True
    _AUDIT.update(on=True, events=[], root=os.path.realpath(root))


def audit_stop():
    _AUDIT["on"] = False
    root = _AUDIT["root"]
    out = []
    for ev in _AUDIT["events"]:
        ps = [os.path.realpath(p) if os.path.isabs(p) else p for p in ev[1:]]
        if any(p == root or p.startswith(root + os.sep) for p in ps):
            out.append([ev[0]] + [os.path.relpath(p, root) if (p == root or p.startswith(root + os.sep)) else p for p in ps])
    return out


def run_cli(cmd, args, cwd=None):
    """-> (outcome, stdout+stderr text).  outcome = ('exit', n) or ('abort', ExceptionClassName)"""
    from click.testing import CliRunner
    import ascmhl.logger as logger

    logger.verbose_logging = False
    logger.debug_logging = False
    old = os.getcwd()
    if cwd:
        os.chdir(cwd)
    try:
        # standard output and standard error are captured separately: what a command PRINTS (info, info -sf) is judged on
        # standard output alone; the text returned is standard output followed by standard error
        try:
            runner = CliRunner(mix_stderr=False)
        except TypeError:
            runner = CliRunner()
        # a command that does not come back (an endless loop in the tool) must not hang the check: interrupt it after a
        # generous limit and report it as an internal error ("abort", "Hang")
        import signal

        class Hang(BaseException):
            pass

        def on_alarm(signum, frame):
            raise Hang()

        limit = float(os.environ.get("VERIF_CMD_LIMIT", "45"))
        use_alarm = hasattr(signal, "setitimer") and __import__("threading").current_thread() is __import__("threading").main_thread()
        if use_alarm:
            prev = signal.signal(signal.SIGALRM, on_alarm)
            signal.setitimer(signal.ITIMER_REAL, limit)
        try:
            res = runner.invoke(getattr(commands(), cmd), [str(a) for a in args], catch_exceptions=True)
        except Hang:
            return ("abort", "Hang"), f"command did not return within {limit:.0f} s"
        finally:
            if use_alarm:
                signal.setitimer(signal.ITIMER_REAL, 0)
                signal.signal(signal.SIGALRM, prev)
    finally:
        os.chdir(old)
    if res.exception is not None and isinstance(res.exception, BaseException) and type(res.exception).__name__ == "Hang":
        return ("abort", "Hang"), f"command did not return within {limit:.0f} s"
    global LAST_STDOUT
    try:
        so, se = res.stdout, res.stderr
    except (ValueError, AttributeError):
        so, se = res.output, ""
    LAST_STDOUT = so
    text = so + se
    if res.exception is not None and not isinstance(res.exception, SystemExit):
        return ("abort", type(res.exception).__name__), text
    return ("exit", res.exit_code), text


LAST_STDOUT = ""


# ---------------------------------------------------------------------------------------- independent codec


def c4_from_digest(d: bytes) -> str:
    v = int.from_bytes(d, "big")
    s = ""
    while v:
        v, r = divmod(v, 58)
        s = C4_CHARSET[r] + s
    return "c4" + "1" * (88 - len(s)) + s


def c4_to_digest(s: str) -> bytes:
    v = 0
    for ch in s[2:90]:
        v = v * 58 + C4_CHARSET.index(ch)
    return v.to_bytes(64, "big")


def digest_text(fmt, data: bytes) -> str:
    """what the property says must be recorded: the standard algorithm in its canonical text form"""
    d = core.primitive(fmt)(data).digest()
    return c4_from_digest(d) if fmt == "c4" else d.hex()


def decode_text(fmt, s: str) -> bytes:
    return c4_to_digest(s) if fmt == "c4" else bytes.fromhex(s)


# ------------------------------------------------------------------------------------- independent reader


def lname(tag):
    return tag.split("}", 1)[-1]


def read_manifest(path):
    """-> dict: records [(path, is_dir, size, lastmod, [(fmt, digest, action, hashdate, structure)], previous)],
    root [(fmt, content, structure)] | None, patterns, refs [(path, c4)], process, creator {...}"""
    root = ET.parse(path).getroot()
    out = {"records": [], "root": None, "patterns": None, "refs": [], "process": None, "creator": {}, "file": path}
    ci = root.find(NS + "creatorinfo")
    if ci is not None:
        for ch in ci:
            n = lname(ch.tag)
            if n == "author":
                out["creator"].setdefault("authors", []).append({"name": ch.text, **ch.attrib})
            elif n == "tool":
                out["creator"]["tool"] = (ch.text, ch.attrib.get("version"))
            else:
                out["creator"][n] = ch.text
    pi = root.find(NS + "processinfo")
    if pi is not None:
        p = pi.find(NS + "process")
        out["process"] = p.text if p is not None else None
        rh = pi.find(NS + "roothash")
        if rh is not None:
            out["root"] = _dir_entries(rh)
            out["root_attrs"] = _dir_attrs(rh)                       # C10: action / hashdate of the content elements
            rp = rh.find(NS + "previousPath")
            out["root_previous"] = rp.text if rp is not None else None
        ig = pi.find(NS + "ignore")
        if ig is not None:
            out["patterns"] = [p.text or "" for p in ig.findall(NS + "pattern")]
    hs = root.find(NS + "hashes")
    out["has_hashes_element"] = hs is not None
    if hs is not None:
        for h in hs:
            n = lname(h.tag)
            pe = h.find(NS + "path")
            prev = h.find(NS + "previousPath")
            size = pe.attrib.get("size") if pe is not None else None
            rec = {
                "path": pe.text if pe is not None else None,
                "is_dir": n == "directoryhash",
                "size": int(size) if size is not None else None,
                "lastmod": pe.attrib.get("lastmodificationdate") if pe is not None else None,
                "previous": prev.text if prev is not None else None,
            }
            if n == "directoryhash":
                rec["entries"] = [(f, c, None, None, s) for (f, c, s) in _dir_entries(h)]
                rec["dir_attrs"] = _dir_attrs(h)                     # C10: [(fmt, action, hashdate)] of the content elements
            else:
                rec["entries"] = [
                    (lname(e.tag), e.text, e.attrib.get("action"), e.attrib.get("hashdate"), None)
                    for e in h
                    if lname(e.tag) in FORMATS or lname(e.tag) == "xxh32"
                ]
            out["records"].append(rec)
    rf = root.find(NS + "references")
    if rf is not None:
        for r in rf.findall(NS + "hashlistreference"):
            out["refs"].append((r.find(NS + "path").text, r.find(NS + "c4").text))
    return out


def _dir_entries(el):
    c, s = el.find(NS + "content"), el.find(NS + "structure")
    cont = [(lname(e.tag), e.text) for e in c] if c is not None else []
    stru = {lname(e.tag): e.text for e in s} if s is not None else {}
    return [(f, d, stru.get(f)) for f, d in cont]


def _dir_attrs(el):
    c = el.find(NS + "content")
    return [(lname(e.tag), e.attrib.get("action"), e.attrib.get("hashdate")) for e in c] if c is not None else []


def read_chain(path):
    """-> [(sequencenr:str, filename, c4)]"""
    root = ET.parse(path).getroot()
    out = []
    for h in root.findall(NSD + "hashlist"):
        p, c = h.find(NSD + "path"), h.find(NSD + "c4")
        out.append((h.attrib.get("sequencenr"), p.text if p is not None else None, c.text if c is not None else None))
    return out


MANIFEST_NAME = re.compile(r"^(\d{4,})_(.*)_(\d{4}-\d{2}-\d{2}_\d{6}Z)\.mhl$", re.S)


def list_manifests(history_root):
    """-> sorted [(generation number, file name)] of the ascmhl folder of a history root"""
    d = os.path.join(history_root, "ascmhl")
    if not os.path.isdir(d):
        return []
    out = []
    for f in os.listdir(d):
        m = MANIFEST_NAME.match(f)
        if m:
            out.append((int(m.group(1)), f))
    return sorted(out)


def snapshot(root):
    """type, bytes, mode, mtime_ns of everything below root (for before/after comparisons)"""
    snap = {}
    for d, dirs, files in os.walk(root):
        for n in dirs + files:
            p = os.path.join(d, n)
            st = os.lstat(p)
            rel = os.path.relpath(p, root)
            if os.path.isdir(p) and not os.path.islink(p):
                snap[rel] = ("d", None, st.st_mode, st.st_mtime_ns)
            else:
                with open(p, "rb") as fh:
                    snap[rel] = ("f", fh.read(), st.st_mode, st.st_mtime_ns)
    return snap
