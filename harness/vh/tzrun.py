"""Runs the real tool in a process whose time zone was fixed BEFORE the interpreter started (env TZ), for C16.

    TZ=<zone> /venv/bin/python -m vh.tzrun   < request.json   > reply.json

request: {"repo": <path the tool must be imported from>, "ops": [op, ...]}; every op is answered in order:
  {"op": "offsets", "instants": [s, ...]}          -> {"gmtoff": [...], "isdst": [...]}        time.localtime only (libc)
  {"op": "transitions", "lo": s, "hi": s}          -> {"base": o, "table": [[t, o], ...]}      time.localtime only (libc)
  {"op": "create", "root": p, "args": [...]}       -> {"outcome": ..., "t0_ns": ..., "t1_ns": ..., "sizes": {path: n|null}}
                                                     (sizes: what the tool's own parser reads back from the new manifest)
  {"op": "isostring", "values": [[y,m,d,H,M,S,us,fold,keep], ...]} -> {"texts": [...]}         utils.datetime_isostring
  {"op": "now_strings"}                            -> {"iso": ..., "fname": ..., "t0_ns": ..., "t1_ns": ...}
  {"op": "flatten", "root": p, "dest": d}          -> {"outcome": ...}
The offsets / transitions answers never touch datetime or the tool: they are the zone's definition as the C library sees
it, which is what the oracle compares the tool's output with."""
import json
import os
import sys
import time


def gmtoff(t):
    return time.localtime(t).tm_gmtoff


def transitions(lo, hi):
    """all changes of tm_gmtoff in [lo, hi]: 6-hourly scan, then bisection to the second"""
    out = []
    step = 6 * 3600
    t, o = lo, gmtoff(lo)
    base = o
    while t < hi:
        n = min(t + step, hi)
        on = gmtoff(n)
        if on != o:
            a, b = t, n  # gmtoff(a) = o, gmtoff(b) != o
            while b - a > 1:
                m = (a + b) // 2
                if gmtoff(m) == o:
                    a = m
                else:
                    b = m
            # b is the first second with a different offset; several changes inside one step are found one at a time
            out.append([b, gmtoff(b)])
            t, o = b, gmtoff(b)
            continue
        t, o = n, on
    return base, out


def run_create(root, args):
    from click.testing import CliRunner
    import ascmhl.commands as commands
    import ascmhl.logger as logger
    from ascmhl import hashlist_xml_parser

    logger.verbose_logging = False
    logger.debug_logging = False
    try:
        runner = CliRunner(mix_stderr=True)
    except TypeError:
        runner = CliRunner()
    before = set(os.listdir(os.path.join(root, "ascmhl"))) if os.path.isdir(os.path.join(root, "ascmhl")) else set()
    t0 = time.time_ns()
    res = runner.invoke(commands.create, [str(a) for a in args], catch_exceptions=True)
    t1 = time.time_ns()
    if res.exception is not None and not isinstance(res.exception, SystemExit):
        outcome = ["abort", type(res.exception).__name__ + ": " + str(res.exception)[:300]]
    else:
        outcome = ["exit", res.exit_code]
    sizes = {}
    d = os.path.join(root, "ascmhl")
    if os.path.isdir(d):
        for f in sorted(set(os.listdir(d)) - before):
            if f.endswith(".mhl"):
                try:
                    hl = hashlist_xml_parser.parse(os.path.join(d, f))
                    for mh in hl.media_hashes:
                        sizes[mh.path] = mh.file_size
                except Exception as e:  # noqa
                    sizes["!error"] = type(e).__name__ + ": " + str(e)[:200]
    return {"outcome": outcome, "t0_ns": t0, "t1_ns": t1, "sizes": sizes, "output": res.output[-500:]}


def main():
    req = json.load(sys.stdin)
    repo = os.path.realpath(req["repo"])
    if repo not in sys.path:
        sys.path.insert(0, repo)
    out = []
    for op in req["ops"]:
        k = op["op"]
        if k == "offsets":
            lt = [time.localtime(t) for t in op["instants"]]
            out.append({"gmtoff": [x.tm_gmtoff for x in lt], "isdst": [x.tm_isdst for x in lt]})
        elif k == "transitions":
            base, table = transitions(op["lo"], op["hi"])
            out.append({"base": base, "table": table})
        elif k == "create":
            import ascmhl

            if not os.path.realpath(ascmhl.__file__).startswith(repo + os.sep):
                raise SystemExit(f"tool imported from {ascmhl.__file__}, expected {repo}")
            out.append(run_create(op["root"], op["args"]))
        elif k == "flatten":
            from click.testing import CliRunner
            import ascmhl.commands as commands

            res = CliRunner().invoke(commands.flatten, [op["root"], op["dest"]], catch_exceptions=True)
            if res.exception is not None and not isinstance(res.exception, SystemExit):
                out.append({"outcome": ["abort", type(res.exception).__name__ + ": " + str(res.exception)[:300]]})
            else:
                out.append({"outcome": ["exit", res.exit_code]})
        elif k == "isostring":
            import datetime
            from ascmhl import utils

            texts = []
            for y, mo, d, hh, mi, ss, us, fold, keep in op["values"]:
                try:
                    texts.append(utils.datetime_isostring(datetime.datetime(y, mo, d, hh, mi, ss, us, fold=fold), bool(keep)))
                except Exception as e:  # noqa
                    texts.append("!" + type(e).__name__)
            out.append({"texts": texts})
        elif k == "now_strings":
            from ascmhl import utils

            t0 = time.time_ns()
            iso = utils.datetime_now_isostring()
            fname = utils.datetime_now_filename_string()
            t1 = time.time_ns()
            out.append({"iso": iso, "fname": fname, "t0_ns": t0, "t1_ns": t1})
        else:
            raise SystemExit("unknown op " + k)
    json.dump({"tz": os.environ.get("TZ"), "tzname": list(time.tzname), "python": sys.version.split()[0], "replies": out}, sys.stdout)


if __name__ == "__main__":
    main()
