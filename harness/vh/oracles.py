"""Property oracles evaluated on the implementation's own observations (independent of the Coq model): each
recomputes what the property statement demands from the abstract tree, the generations read back with the
independent reader and the libraries, and reports a violation with a signature."""
import os

from . import impl, world
from .treecheck import effective_patterns, spec_of, subtree, visible_entries, DEFAULT_PATTERNS

OKCODES = (0, 10, 11)


def _abs(hist, path):
    return (hist + "/" + path) if hist else path


def _gens_below(hists, root):
    """{hist path relative to the command root: gens} for histories at or below `root`"""
    out = {}
    for h, gens in hists.items():
        if root == "" or h == root or h.startswith(root + "/"):
            out[h[len(root):].lstrip("/") if root else h] = gens
    return out


def _count(rep, key):
    if rep is not None:
        rep.count(key)


# ------------------------------------------------------------------------------------------------ C02


def oracle_c02(rep, scn, replay, obs, root, report):
    for i, (st, o) in enumerate(zip(scn["steps"], obs)):
        if st["op"] != "create" or o["outcome"][0] != "exit" or o["outcome"][1] not in OKCODES:
            continue
        croot = st.get("root", "") or ""
        tree = subtree(replay.trees[i], croot)
        hists = _gens_below(replay.hists[i], croot)
        pats = effective_patterns(hists.get("", []), st)
        written = [g for g in o["written"] if "unparsable" not in g]
        recs = []
        for g in written:
            h = g["hist"][len(croot):].lstrip("/") if croot else g["hist"]
            for r in g["records"]:
                recs.append((_abs(h, r["path"]), r, g))
                p = r["path"]
                comps = p.split("/")
                if p.startswith("/") or p == "" or any(c in ("", ".", "..") for c in comps):
                    report("record-path-form", i, "relative POSIX path below the history root", p, f"record path {p!r} is absolute / escapes the root / is not normalised")
        got = sorted(p for p, _, _ in recs)
        vis = visible_entries(tree, pats)
        content = {p: d for p, isd, d in vis if not isd}
        if st.get("sf"):
            _count(rep, "c02.sf")
            named = [s[len(croot):].lstrip("/") if croot else s for s in st["sf"]]
            spec = spec_of(pats)
            if any(spec.match_file(n) or any(spec.match_file("/".join(n.split("/")[:k])) for k in range(1, n.count("/") + 1)) for n in named):
                continue  # an explicitly named ignored path: C02 and C12 disagree about it, not claimed either way
            expect = sorted(set(p for p, isd, _ in vis if not isd and any(p == n or p.startswith(n + "/") for n in named)))
            if got != expect:
                report("sf-records", i, expect, got, "create -sf did not record exactly the named files / the files beneath the named folders")
            if any(r["dir"] for _, r, _ in recs):
                report("sf-dir-records", i, "no directory records", [p for p, r, _ in recs if r["dir"]], "create -sf wrote directory records")
        else:
            _count(rep, "c02.folder")
            expect = sorted(p for p, _, _ in vis)
            if got != expect:
                extra = sorted(set(got) - set(expect)) + [p for p in set(got) if got.count(p) > 1]
                lack = sorted(set(expect) - set(got))
                report("records-exact", i, {"missing_records": lack, "unexpected_or_duplicate": extra}, {"records": got[:40]},
                       "the new generation(s) do not hold exactly one record per non-ignored entry")
            kinds = {p: isd for p, isd, _ in vis}
            for p, r, g in recs:
                if p in kinds and kinds[p] != r["dir"]:
                    report("record-kind", i, "directory" if kinds[p] else "file", r, f"{p} recorded with the wrong kind")
        req = list(dict.fromkeys(st.get("fmts") or ["xxh128"]))
        for p, r, g in recs:
            if r["dir"]:
                if not st.get("sf"):
                    fm = [e[0] for e in r["entries"]]
                    if st.get("n") and fm:
                        report("n-dir-hashes", i, "no directory hashes with -n", fm, "directory hashes written despite -n")
                    if not st.get("n") and sorted(fm) != sorted(req):
                        report("dir-hash-formats", i, sorted(req), fm, f"directory record {p} lacks a requested format")
                continue
            if p not in content:
                continue
            failed = any(e[2] == "failed" for e in r["entries"])
            have = {}
            for f, d, a, _ in r["entries"]:
                if f in have:
                    report("duplicate-format", i, "one digest per format", r["entries"], f"{p} carries format {f} twice")
                have[f] = d
                if d != impl.digest_text(f, content[p]):
                    report("record-digest", i, impl.digest_text(f, content[p]), d, f"{p}: recorded {f} digest is not the digest of the file's bytes")
            if not failed:
                for f in req:
                    if f not in have:
                        report("record-format-missing", i, f, sorted(have), f"{p}: requested format {f} not recorded although nothing failed")
            if r["size"] != len(content[p]):
                report("record-size", i, len(content[p]), r["size"], f"{p}: recorded size differs from the file's size")


# ------------------------------------------------------------------------------------------------ C03


def recorded_state(hists):
    """from the generations of all histories below a root (paths relative to it):
    files: {abs path: (fmt, digest) of the first 'original' entry in its deepest history}, dirs: set, all: set"""
    roots = sorted(hists, key=len, reverse=True)
    files, dirs, everything = {}, set(), set()
    renamed = {}
    for h, gens in hists.items():
        for g in gens:
            for r in g["records"]:
                p = _abs(h, r["path"])
                everything.add(p)
                if r.get("prev"):
                    renamed[_abs(h, r["prev"])] = p
                if r["dir"]:
                    dirs.add(p)
    for h in roots:
        for g in hists[h]:
            for r in g["records"]:
                if r["dir"]:
                    continue
                p = _abs(h, r["path"])
                deepest = next((x for x in roots if x == "" or p == x or p.startswith(x + "/")), "")
                if deepest != h:
                    continue
                if p not in files:
                    orig = next(((e[0], e[1]) for e in r["entries"] if e[2] == "original"), None)
                    if orig:
                        files[p] = orig
    return files, dirs, everything, renamed


def expected_sets(tree, hists, pats):
    files, dirs, everything, renamed = recorded_state(hists)
    vis = visible_entries(tree, pats)
    present = {p for p, _, _ in vis}
    spec = spec_of(pats)
    altered = sorted(p for p, isd, d in vis if not isd and p in files and impl.digest_text(files[p][0], d) != files[p][1])
    added = sorted(p for p, isd, _ in vis if not isd and p not in files)
    removed = sorted(p for p in everything if p not in present and not spec.match_file(p) and p not in renamed)
    return altered, added, removed


def oracle_c03(rep, scn, replay, obs, root, report):
    for i, (st, o) in enumerate(zip(scn["steps"], obs)):
        if st["op"] not in ("verify", "diff", "create"):
            continue
        if st.get("sf"):
            # named files / folders: an altered file at or below a name must be reported (exit 11, path named)
            hists = _gens_below(replay.hists[i], "")
            if st.get("root") or st.get("dr") or not hists.get("") or any(r.get("prev") for gens in hists.values() for g in gens for r in g["records"]):
                continue
            altered, _, _ = expected_sets(replay.trees[i], hists, effective_patterns(hists[""], st))
            hit = sorted(a for a in altered if any(a == x or a.startswith(x.rstrip("/") + "/") for x in st["sf"]))
            _count(rep, "c03.create-sf." + ("altered" if hit else "unaltered"))
            if hit and o["outcome"] != ["exit", 11]:
                report("create-sf-exit-altered", i, ["exit", 11], o["outcome"], f"create -sf {st['sf']} with altered files {hit} below the named paths must exit 11")
            elif hit and not set(hit) <= set(o["mismatch"]):
                report("create-sf-mismatch-not-named", i, hit, o["mismatch"], "an altered file below a path named with -sf is not named in the output")
            continue
        if st.get("dr"):
            # rename detection may take entries off the missing list (C17); what it may never do is end without an exit code
            _count(rep, "c03.create-dr")
            if o["outcome"][0] == "abort":
                report("create-dr-aborts", i, "an exit code (0 / 10 / 11)", o["outcome"], "create -dr ended with an internal error instead of reporting the state of the tree")
            continue
        croot = st.get("root", "") or ""
        hists = _gens_below(replay.hists[i], croot)
        if not hists.get(""):
            continue  # no history at the command root yet: first seal / exit 30
        if any(r.get("prev") for gens in hists.values() for g in gens for r in g["records"]):
            continue  # renamed entries: C17's subject
        tree = subtree(replay.trees[i], croot)
        pats = effective_patterns(hists[""], st)
        altered, added, removed = expected_sets(tree, hists, pats)
        # a path recorded as file and now a folder (or vice versa) is outside the mutation classes of the property
        kinds = {p: isd for p, isd, _ in visible_entries(tree, pats)}
        _, dirs, everything, _ = recorded_state(hists)
        if any((p in dirs) != kinds[p] for p in kinds if p in everything and p in dirs) or any(p in dirs for p in kinds if not kinds[p]):
            continue
        op = st["op"]
        if op == "verify":
            exp = 11 if altered else 21 if added else 10 if removed else 0
        elif op == "diff":
            exp = 10 if removed else 21 if added else 0
        else:
            exp = 11 if altered else 10 if removed else 0
        cls = ("altered" if altered else "") + ("+added" if added else "") + ("+removed" if removed else "")
        _count(rep, f"c03.{op}.{cls or 'unchanged'}")
        got = o["outcome"]
        if op == "create" and exp == 0 and got == ["exit", 30]:
            continue  # a referenced nested history folder vanished: create's own extra check
        if got != ["exit", exp]:
            sig = "false-alarm" if exp == 0 else f"{op}-exit-{cls}"
            report(sig, i, ["exit", exp], got, f"{op} on a tree with altered={altered} added={added} removed={removed} must exit {exp}")
            continue
        if op in ("verify", "create") and altered and not set(altered) <= set(o["mismatch"]):
            report(f"{op}-mismatch-not-named", i, altered, o["mismatch"], "an altered file is not named in the output")
        if removed and not set(removed) <= set(o["missing"]):
            report(f"{op}-missing-not-named", i, removed, o["missing"], "a removed entry is not named in the output")
        if op in ("verify", "diff") and added and not set(added) <= set(o["new"]):
            report(f"{op}-new-not-named", i, added, o["new"], "a new file is not named in the output")


# ------------------------------------------------------------------------------------------------ C04


def oracle_c04(rep, scn, replay, obs, root, report):
    unaltered = True
    for i, (st, o) in enumerate(zip(scn["steps"], obs)):
        if st["op"] in ("set", "delete", "rename"):
            unaltered = False
        if st["op"] != "create":
            continue
        if o["outcome"][0] == "abort":
            report("create-aborts", i, "an exit code", o["outcome"], "create aborted with an internal error")
            continue
        if unaltered and o["outcome"] != ["exit", 0] and not st.get("dr"):
            report("unaltered-sequence-fails", i, ["exit", 0], o["outcome"], "a sequence of format choices on an unaltered tree does not exit 0")
        for g in o["written"]:
            if "unparsable" in g:
                continue
            earlier = replay.hists[i].get(g["hist"], [])
            for r in g["records"]:
                if r["dir"]:
                    continue
                past = [e for pg in earlier for pr in pg["records"] if pr["path"] == r["path"] and not pr["dir"] for e in pr["entries"]]
                acts = [e[2] for e in r["entries"]]
                if not past:
                    _count(rep, "c04.first")
                    if any(a != "original" for a in acts):
                        report("first-not-original", i, "original", acts, f"{r['path']}: first generation of the path is not marked original throughout")
                    continue
                first = {}
                for f, d, a, _ in past:
                    first.setdefault(f, d)
                known_ok = [e for e in r["entries"] if e[0] in first and e[1] == first[e[0]]]
                known_bad = [e for e in r["entries"] if e[0] in first and e[1] != first[e[0]]]
                fresh = [e for e in r["entries"] if e[0] not in first]
                _count(rep, "c04.later" + (".failed" if known_bad else "") + (".newfmt" if fresh else ""))
                for f, d, a, _ in r["entries"]:
                    if a == "original":
                        report("original-again", i, "verified/failed", a, f"{r['path']}: marked original in a later generation")
                    elif f in first and (a == "verified") != (d == first[f]):
                        report("judged-against-wrong-reference", i, "verified" if d == first[f] else "failed", a,
                               f"{r['path']} {f}: action does not follow the earliest recorded digest {first[f]}")
                    elif f in first and a not in ("verified", "failed"):
                        report("bad-action", i, "verified/failed", a, f"{r['path']} {f}: unexpected action")
                    elif f not in first and a != "verified":
                        report("new-format-not-verified", i, "verified", a, f"{r['path']}: digest in the new format {f} is not marked verified")
                if fresh and (known_bad or not known_ok):
                    report("new-format-without-verification", i, "no new-format digest unless a recorded format verified", r["entries"],
                           f"{r['path']}: new format recorded although no recorded format verified / one failed")
                if not r["entries"]:
                    report("empty-record", i, "at least the checked digest", r, "a file record without digests")


# ------------------------------------------------------------------------------------------------ C07


def dirhash_reference(tree, patterns, fmt):
    """independent evaluation of the compositional definition -> {relpath ('' = root): (content, structure)}"""
    spec = spec_of(patterns)
    out = {}

    def H(data):
        return impl.digest_text(fmt, data)

    def hol(texts):
        return H(b"".join(impl.decode_text(fmt, t) for t in sorted(texts)))

    def walk(t, prefix):
        cs, ss = [], []
        for name in t:
            p = prefix + name
            if spec.match_file(p):
                continue
            node = t[name]
            if "d" in node:
                c, s = walk(node["d"], p + "/")
                out[p] = (c, s)
                cs.append(c)
                ss.append(H(name.encode("utf-8") + impl.decode_text(fmt, s)))
            else:
                d = H(bytes.fromhex(node["f"]))
                cs.append(d)
                ss.append(H(name.encode("utf-8") + impl.decode_text(fmt, d)))
        return hol(cs), hol(ss)

    out[""] = walk(tree, "")
    return out


def oracle_c07(rep, scn, replay, obs, root, report):
    for i, (st, o) in enumerate(zip(scn["steps"], obs)):
        croot = st.get("root", "") or ""
        if st["op"] == "create" and not st.get("sf") and not st.get("n") and o["outcome"][0] == "exit" and o["outcome"][1] in OKCODES:
            tree = subtree(replay.trees[i], croot)
            hists = _gens_below(replay.hists[i], croot)
            pats = effective_patterns(hists.get("", []), st)
            refs = {}
            for g in o["written"]:
                if "unparsable" in g:
                    continue
                h = g["hist"][len(croot):].lstrip("/") if croot else g["hist"]
                items = [(_abs(h, r["path"]), r["entries"]) for r in g["records"] if r["dir"]]
                if g["root"] is not None:
                    items.append((h, [[e[0], e[1], None, e[2]] for e in g["root"]]))
                for p, entries in items:
                    for f, c, _, s in entries:
                        if f not in refs:
                            refs[f] = dirhash_reference(tree, pats, f)
                        _count(rep, "c07.dirhash")
                        want = refs[f].get(p)
                        if want is None:
                            continue
                        if (c, s) != want:
                            report("dirhash-definition", i, list(want), [c, s], f"directory hashes recorded for {p or '.'} ({f}) do not follow the compositional definition")
        if st["op"] == "verifydh" and st.get("co") and o["outcome"][0] == "exit":
            tree = subtree(replay.trees[i], croot)
            hists = _gens_below(replay.hists[i], croot)
            pats = effective_patterns(hists.get("", []), st)
            refs = {}
            for p, f, c, s in o.get("dh", []):
                if f not in refs:
                    refs[f] = dirhash_reference(tree, pats, f)
                _count(rep, "c07.co")
                want = refs[f].get(p)
                if want is not None and (c, s) != want:
                    report("dirhash-co", i, list(want), [c, s], f"verify -dh -co prints hashes for {p or '.'} ({f}) that do not follow the definition")


# ------------------------------------------------------------------------------------------------ C08


def oracle_c08(rep, scn, replay, obs, root, report):
    for i, (st, o) in enumerate(zip(scn["steps"], obs)):
        if st["op"] != "create" or o["outcome"][0] != "exit" or o["outcome"][1] not in OKCODES:
            continue
        croot = st.get("root", "") or ""
        written = [g for g in o["written"] if "unparsable" not in g]
        hroots_before = set(_gens_below(replay.hists[i], croot)) | {""}
        wh = {(g["hist"][len(croot):].lstrip("/") if croot else g["hist"]): g for g in written}
        # every record lives in the deepest history whose root contains it
        for h, g in wh.items():
            for r in g["records"]:
                p = _abs(h, r["path"])
                deeper = [x for x in hroots_before if x != h and len(x) > len(h) and (p.startswith(x + "/") or (p == x and not r["dir"]))]
                if deeper:
                    report("record-in-wrong-history", i, max(deeper, key=len), h, f"{p} recorded in history {h or '.'} although {max(deeper, key=len)} contains it")
        tree = subtree(replay.trees[i], croot)
        pats = effective_patterns(_gens_below(replay.hists[i], croot).get("", []), st)
        visible = {p for p, _, _ in visible_entries(tree, pats)}
        # references: each parent references exactly its direct children that wrote, with the digest of the file's bytes
        raw = {(h, f): man for h, f, man in o.get("_raw", [])}
        for h, g in wh.items():
            kids = [x for x in wh if x != h and (h == "" or x.startswith(h + "/"))]
            direct = sorted(x for x in kids if not any(y != x and y != h and (y == "" or x.startswith(y + "/")) and (h == "" or y.startswith(h + "/")) and len(y) > len(h) for y in kids))
            got = sorted(_abs(h, rp) for rp, _ in g["refs"])
            if got != direct:
                report("references-set", i, direct, got, f"history {h or '.'} does not reference exactly its direct child histories that wrote a generation")
            for rp, no in g["refs"]:
                child = _abs(h, rp)
                if child in wh and wh[child]["no"] != no:
                    report("reference-generation", i, wh[child]["no"], no, f"{h or '.'} references generation {no} of {child}, the run wrote {wh[child]['no']}")
            if not st.get("sf"):
                for x in direct:
                    recs = [r for r in g["records"] if _abs(h, r["path"]) == x]
                    if len(recs) != 1 or not recs[0]["dir"]:
                        report("child-root-entry", i, "one directory entry", recs, f"nested root {x} has no directory entry in its parent history")
                    elif not st.get("n"):
                        child_root = wh[x]["root"] or []
                        got_e = sorted((e[0], e[1], e[3]) for e in recs[0]["entries"])
                        if got_e != sorted((e[0], e[1], e[2]) for e in child_root):
                            report("child-root-hash", i, child_root, recs[0]["entries"], f"the parent's entry for {x} does not equal the child's root hash")
        # reference digests = c4 of the referenced file's final bytes (checked on disk)
        for hroot_abs, fname, man in o.get("_raw", []):
            if man is None:
                continue
            for rp, c4 in man["refs"]:
                target = os.path.join(hroot_abs, rp)
                if not os.path.exists(target):
                    report("reference-dangling", i, "existing file", rp, "a reference names a manifest that does not exist")
                else:
                    with open(target, "rb") as fh:
                        want = impl.digest_text("c4", fh.read())
                    if want != c4:
                        report("reference-digest", i, want, c4, f"reference digest of {rp} is not the c4 of the file's bytes")
        # commit set
        if not st.get("sf"):
            should = sorted(x for x in hroots_before if x == "" or x in visible)
            if sorted(wh) != should:
                report("commit-set", i, should, sorted(wh), "a new generation was not written in exactly the histories whose root is not ignored")
        else:
            named = [s[len(croot):].lstrip("/") if croot else s for s in st["sf"]]
            files = [p for p, isd, _ in visible_entries(tree, pats) if not isd and any(p == n or p.startswith(n + "/") for n in named)]
            spec = spec_of(pats)
            files += [n for n in named if n not in files and not os.path.isdir(os.path.join(root, croot, n))]
            should = set()
            for p in files:
                for x in hroots_before:
                    if x == "" or p.startswith(x + "/"):
                        should.add(x)
            if files and sorted(wh) != sorted(should):
                report("commit-set-sf", i, sorted(should), sorted(wh), "create -sf wrote generations in other histories than those on the path to the named files")


# ------------------------------------------------------------------------------------------------ C12


def oracle_c12(rep, scn, replay, obs, root, report):
    for i, (st, o) in enumerate(zip(scn["steps"], obs)):
        croot = st.get("root", "") or ""
        if st["op"] == "create" and o["outcome"][0] == "exit" and o["outcome"][1] in OKCODES:
            given = list(st.get("i") or []) + [l for l in (st.get("ii") or []) if l != ""]
            root_prev = replay.hists[i].get(croot, [])
            root_base = list(root_prev[-1]["patterns"]) if root_prev else list(DEFAULT_PATTERNS)
            session = []
            for p in root_base + given:
                if p not in session:
                    session.append(p)
            for g in o["written"]:
                if "unparsable" in g:
                    continue
                prev = replay.hists[i].get(g["hist"], [])
                base = list(prev[-1]["patterns"]) if prev else list(DEFAULT_PATTERNS)
                pats = g["patterns"] or []
                _count(rep, "c12.patterns")
                if pats[: len(base)] != base:
                    report("patterns-not-prefix", i, base, pats, f"history {g['hist'] or '.'}: the previous generation's patterns are not kept in order at the front")
                if len(set(pats)) != len(pats):
                    report("patterns-duplicates", i, "no duplicates", pats, "duplicate ignore patterns written")
                want = set(base) | set(session)
                if set(pats) != want:
                    report("patterns-set", i, sorted(want), pats, f"history {g['hist'] or '.'}: pattern list is not previous + given (+ parent's)")
                for d in DEFAULT_PATTERNS:
                    if d not in pats:
                        report("default-pattern-lost", i, d, pats, "a default pattern disappeared")
            # nothing ignored is recorded
            tree = subtree(replay.trees[i], croot)
            spec = spec_of(session)
            for g in o["written"]:
                if "unparsable" in g:
                    continue
                h = g["hist"][len(croot):].lstrip("/") if croot else g["hist"]
                for r in g["records"]:
                    p = _abs(h, r["path"])
                    comps = p.split("/")
                    named = [s[len(croot):].lstrip("/") if croot else s for s in (st.get("sf") or [])]
                    if p in named:
                        continue
                    if any(spec.match_file("/".join(comps[:k])) for k in range(1, len(comps) + 1)):
                        report("ignored-recorded", i, "no record", p, f"{p} is matched by the effective patterns {session} but was recorded")
        if st["op"] in ("verify", "diff", "verifydh", "create") and o["outcome"][0] == "exit":
            prev = replay.hists[i].get(croot, [])
            session = effective_patterns(prev, st)
            spec = spec_of(session)
            for key in ("new", "missing"):
                for p in o.get(key, []):
                    comps = p.split("/")
                    if any(spec.match_file("/".join(comps[:k])) for k in range(1, len(comps) + 1)):
                        report(f"ignored-reported-{key}", i, "not reported", p, f"ignored path {p} reported as {key}")


# ------------------------------------------------------------------------------------------------ C09


def oracle_c09(rep, scn, replay, obs, root, report):
    for i, (st, o) in enumerate(zip(scn["steps"], obs)):
        if st["op"] != "verifydh":
            continue
        if o["outcome"][0] == "abort":
            report("dh-aborts", i, "an exit code", o["outcome"], "verify -dh aborted with an internal error on a history the tool produced")
            continue
        if st.get("co") or st.get("ro") or st.get("fmt") or st.get("i"):
            continue
        croot = st.get("root", "") or ""
        hists = _gens_below(replay.hists[i], croot)
        if not hists.get(""):
            continue
        tree = subtree(replay.trees[i], croot)
        pats = effective_patterns(hists[""], st)
        # recorded directory hashes (root hashes and directory entries), compared with the definition on the tree now
        fmts_root = set()
        mism, total = {}, {}
        refs = {}
        for h, gens in hists.items():
            for g in gens:
                items = [(_abs(h, r["path"]), [(e[0], e[1], e[3]) for e in r["entries"]]) for r in g["records"] if r["dir"]]
                if g["root"] is not None:
                    items.append((h, [(e[0], e[1], e[2]) for e in g["root"]]))
                    fmts_root |= {e[0] for e in g["root"]}
                for p, es in items:
                    # a folder the effective patterns exclude (itself, or a folder above it) is not visited: what was recorded
                    # for it is not part of what verify -dh compares
                    parts = p.split("/") if p else []
                    if any(spec_of(pats).match_file("/".join(parts[:k + 1])) for k in range(len(parts))):      # the criterion of dirhash_reference
                        continue
                    for f, c, s in es:
                        if f not in refs:
                            refs[f] = dirhash_reference(tree, pats, f)
                        total[f] = total.get(f, 0) + 1
                        if refs[f].get(p) != (c, s):
                            mism[f] = mism.get(f, 0) + 1
        if not fmts_root:
            continue  # no generation recorded directory hashes: nothing to verify against
        changed = bool(mism)
        every_format_fails = all(f in mism for f in fmts_root)
        _count(rep, "c09." + ("changed" if changed else "unchanged"))
        if not changed and o["outcome"] != ["exit", 0]:
            report("dh-false-alarm", i, ["exit", 0], o["outcome"], "verify -dh fails on a tree identical to what every generation recorded")
        if changed and o["outcome"] != ["exit", 12]:
            root_has_dh = any(g["root"] for g in hists[""])
            sig = ("dh-missed-change" if every_format_fails else "dh-missed-change-some-format-still-verifies") if root_has_dh else "dh-missed-change:root-history-has-no-directory-hashes"
            report(sig, i, ["exit", 12], o["outcome"], f"verify -dh does not fail although recorded directory hashes no longer match (formats with mismatches: {sorted(mism)}, recorded root formats: {sorted(fmts_root)})")


# ------------------------------------------------------------------------------------------------ C05


def oracle_c05(rep, scn, replay, obs, root, report):
    fault = None
    for i, (st, o) in enumerate(zip(scn["steps"], obs)):
        if st["op"] in ("tamper", "rmmanifest", "rmchain"):
            fault = st
            continue
        if fault is None or st["op"] not in world.COMMANDS:
            continue
        want = {"tamper": 31, "rmmanifest": 33, "rmchain": 32}[fault["op"]]
        name = st["op"] + ("-sf" if st.get("sf") else "")
        _count(rep, f"c05.{fault['op']}.{fault.get('kind', '')}.{name}")
        _count(rep, "c05.fault_in_" + ("nested" if fault["hist"] else "root") + f".gen{fault.get('gen', 0)}")
        if o["outcome"] != ["exit", want]:
            report(f"not-refused-{fault['op']}", i, ["exit", want], o["outcome"],
                   f"{name} did not refuse with exit {want} although {fault['op']} was applied to history {fault['hist'] or '.'} generation {fault.get('gen')}")
        changed = (o.get("_fs_changed") or []) + ["<dest>/" + x for x in (o.get("_aux_changed") or []) if not x.startswith("patterns")]
        if changed:
            report("refused-command-wrote", i, "nothing written", changed[:10], f"{name} wrote to the file system although the history is damaged")


# ------------------------------------------------------------------------------------------------ C06

import re as _re

NAME_RE = _re.compile(r"^(\d{4,})_(.*)_(\d{4})-(\d{2})-(\d{2})_(\d{2})(\d{2})(\d{2})Z\.mhl$", _re.S)


def oracle_c06(rep, scn, replay, obs, root, report):
    import calendar
    import time

    for i, (st, o) in enumerate(zip(scn["steps"], obs)):
        if st["op"] != "create" or "_hist_before" not in o:
            continue
        before, after = o["_hist_before"], o["_hist_after"]
        for h, b in before.items():
            a = after.get(h)
            if a is None:
                report("history-vanished", i, h, sorted(after), f"history {h or '.'} disappeared")
                continue
            for name, c4 in b["files"].items():
                if a["files"].get(name) != c4:
                    report("existing-manifest-changed", i, c4, a["files"].get(name), f"{h or '.'}: existing manifest {name} was changed or removed by create")
        for h, a in after.items():
            b = before.get(h, {"files": {}, "chain": []})
            new = sorted(set(a["files"]) - set(b["files"]))
            _count(rep, f"c06.new_manifests.{len(new)}")
            if a["other"]:
                report("stray-file-in-ascmhl", i, [], a["other"], f"{h or '.'}: unexpected files left in the ascmhl folder")
            if len(new) > 1:
                report("more-than-one-new-manifest", i, 1, new, f"{h or '.'}: create added {len(new)} manifests to one history")
            old_chain = b["chain"] if isinstance(b["chain"], list) else []
            if a["chain"] == "unparsable" or a["chain"] is None:
                report("chain-unreadable", i, "a chain file", a["chain"], f"{h or '.'}: no readable chain file after create")
                continue
            if not new:
                if a["chain"] != old_chain and h in before:
                    report("chain-changed-without-generation", i, old_chain, a["chain"], f"{h or '.'}: chain changed although no manifest was added")
                continue
            name = new[0]
            m = NAME_RE.match(name)
            nums_before = [int(NAME_RE.match(f).group(1)) for f in b["files"] if NAME_RE.match(f)]
            want_no = (max(nums_before) if nums_before else 0) + 1
            folder = os.path.basename(os.path.join(root, h).rstrip("/")) if h else os.path.basename(root)
            if not m:
                report("manifest-name", i, "NNNN_<folder>_<UTC time>Z.mhl", name, "new manifest does not follow the naming convention")
                continue
            if int(m.group(1)) != want_no:
                report("generation-number", i, want_no, int(m.group(1)), f"{h or '.'}: new manifest is not numbered one above the highest existing generation")
            if len(m.group(1)) != max(4, len(str(want_no))):
                report("generation-number-width", i, "%04d" % want_no, m.group(1), "generation number not zero-padded to four digits")
            if m.group(2) != folder:
                report("manifest-name-folder", i, folder, m.group(2), "manifest name does not carry the folder name")
            stamp = calendar.timegm(tuple(int(x) for x in m.groups()[2:8]) + (0, 0, 0))
            if abs(stamp - time.time()) > 120:
                report("manifest-name-time", i, "UTC now", name, "manifest name does not carry the current UTC time")
            if a["chain"][: len(old_chain)] != old_chain:
                report("chain-old-entries-changed", i, old_chain, a["chain"], f"{h or '.'}: earlier chain entries were changed, dropped or reordered")
            tail = a["chain"][len(old_chain):]
            want = [[str(want_no), name, a["files"][name]]]
            if tail != want:
                report("chain-new-entry", i, want, tail, f"{h or '.'}: the chain does not end with exactly one new entry matching the new manifest's number, name and c4")
            seqs = [int(e[0]) for e in a["chain"]]
            if seqs != list(range(1, len(seqs) + 1)) and seqs == sorted(set(seqs)) and len(b["files"]) == len(old_chain):
                report("chain-gaps", i, list(range(1, len(seqs) + 1)), seqs, f"{h or '.'}: chain sequence numbers have gaps")
    # reloading: info lists generations 1..n ascending
    for i, (st, o) in enumerate(zip(scn["steps"], obs)):
        if st["op"] == "info" and o["outcome"] == ["exit", 0]:
            cur, per = None, {}
            for x in o.get("info") or []:
                if x[0] == "H":
                    cur = x[1]
                    per[cur] = []
                elif x[0] == "G" and cur is not None:
                    per[cur].append(x[1])
            for h, gs in per.items():
                if gs != list(range(1, len(gs) + 1)):
                    report("reload-not-ascending", i, list(range(1, len(gs) + 1)), gs, f"info lists the generations of {h or '.'} not as 1..n ascending")


# ------------------------------------------------------------------------------------------------ C14

READERS = ("verify", "verifydh", "verifypl", "diff", "info", "infosf", "hash", "xsdcheck")


def normalise_audit(events):
    """audit events of a create run -> the model's operation alphabet: [0, hist] mkdir ascmhl, [1, hist] manifest in
    place, [2, hist] chain in place; anything else is returned as ['?', event]"""
    ops, tmp_open = [], set()
    for ev in events:
        kind, paths = ev[0], ev[1:]
        p = paths[0] if paths else ""
        parts = p.split("/")
        # paths are relative to the scenario base: <root name>/...
        if kind == "os.mkdir" and parts[-1] == "ascmhl":
            ops.append([0, "/".join(parts[1:-1])])
        elif kind == "open-w" and p.endswith(".tmp") and "ascmhl" in parts:
            tmp_open.add(p)
        elif kind == "os.rename" and len(paths) == 2 and paths[0] == paths[1] + ".tmp" and paths[0] in tmp_open and "ascmhl" in parts:
            dst = paths[1].split("/")
            hist = "/".join(dst[1:-2])
            if dst[-1] == "ascmhl_chain.xml":
                ops.append([2, hist])
            elif dst[-1].endswith(".mhl"):
                ops.append([1, hist])
            else:
                ops.append(["?", list(ev)])
        else:
            ops.append(["?", list(ev)])
    return ops


def oracle_c14(rep, scn, replay, obs, root, report, model_obs=None):
    for i, (st, o) in enumerate(zip(scn["steps"], obs)):
        if st["op"] not in world.COMMANDS or "_fs_changed" not in o:
            continue
        op = st["op"]
        name = op + ("-sf" if st.get("sf") else "")
        changed, aux, audit = o["_fs_changed"], [x for x in o["_aux_changed"] if not x.startswith("patterns")], o.get("_audit") or []
        _count(rep, f"c14.{name}.exit{o['outcome'][1] if o['outcome'][0] == 'exit' else 'abort'}")
        if op in READERS:
            if changed or aux:
                report("reader-changed-fs", i, "nothing created, modified or deleted", (changed + aux)[:10], f"{name} changed the file system")
            wr = [e for e in audit]
            if wr:
                report("reader-write-event", i, "no write-type audit event", wr[:5], f"{name} performed a write-type operation")
        elif op == "flatten":
            if changed:
                report("flatten-touched-source", i, "source untouched", changed[:10], "flatten changed the source folder")
            bad = [x for x in aux if not x.startswith("flat")]
            if st.get("deep_dest"):
                # destination <aux>/nowhereN/sub/flat with non-existing parents: only that folder and what is below it
                bad = [x for x in aux if not (x.split("/")[0].startswith("nowhere") and (x.split("/")[1:3] == ["sub", "flat"]))]
            if bad:
                report("flatten-outside-destination", i, "writes below the destination only", bad[:10], "flatten wrote outside its destination folder")
        elif op == "create":
            before, after = o["_hist_before"], o["_hist_after"]
            allowed = set()
            for h, a in after.items():
                b = before.get(h)
                pre = (h + "/") if h else ""
                new = set(a["files"]) - set(b["files"] if b else [])
                for f in new:
                    allowed.add(pre + "ascmhl/" + f)
                if new or b is None:
                    allowed.add(pre + "ascmhl/ascmhl_chain.xml")
                    allowed.add(pre + "ascmhl/ascmhl_chain.xml.tmp")   # the writer's own working file (a leftover of that name is replaced)
                    allowed.add(pre + "ascmhl")          # the folder's own mtime changes when an entry is added
                if b is None:
                    allowed.add(h if h else ".")          # ... and so does the parent's when ascmhl/ is first created
            bad = [x for x in changed if x not in allowed and x != "."] + ([] if ("." in allowed or "." not in changed) else ["."])
            bad = [x for x in bad if not (x == "" )]
            if bad:
                report("create-touched-other", i, sorted(allowed), bad[:10], "create changed something other than new manifests / chain files / new ascmhl folders of the histories in scope")
            if aux:
                report("create-wrote-elsewhere", i, [], aux[:10], "create wrote outside the tree")
            ops = normalise_audit(audit)
            stray = [x for x in ops if x[0] == "?"]
            if stray:
                report("create-stray-operation", i, "mkdir ascmhl / manifest / chain only", stray[:5], "create performed an undocumented write-type operation")
            if model_obs is not None and model_obs[i] is not None and "ops" in model_obs[i] and not stray:
                want = [[k, p] for k, p in model_obs[i]["ops"]]
                got = [[k, p] for k, p in ops]
                if want != got:
                    report("create-op-sequence", i, want, got, "the sequence of file-system writes differs from the model's (order: child manifest, child chain, parent manifest, parent chain; mkdir only for new ascmhl folders)")


# ------------------------------------------------------------------------------------------------ C17


def oracle_c17(rep, scn, replay, obs, root, report):
    """scenario carries scn['renames']: list of rounds, each {'step': index of the create that follows, 'dr': bool, 'map': {old: new}}"""
    for rnd in scn.get("rounds", []):
        i = rnd["create"]
        o = obs[i]
        ren = rnd["map"]
        if rnd["dr"]:
            _count(rep, f"c17.dr.renames{len(ren)}")
            if o["outcome"] != ["exit", 0]:
                report("dr-create-fails", i, ["exit", 0], o["outcome"], f"create -dr after renaming {ren} does not exit 0: {o['output'][-300:]}")
                continue
            if o["missing"]:
                report("dr-reports-missing", i, [], o["missing"], "create -dr reports renamed files as missing")
            recs = {r["path"]: r for g in o["written"] if g["hist"] == "" for r in g["records"]}
            for old, new in ren.items():
                r = recs.get(new)
                if r is None:
                    report("dr-no-record", i, new, sorted(recs), f"renamed file {new} has no record in the new generation")
                elif r["prev"] != old:
                    report("dr-previous-path", i, old, r["prev"], f"{new} is recorded with previous path {r['prev']!r}, expected {old!r}")
            for p, r in recs.items():
                # FILE records only: the property is about renamed / moved files.  What the tool's folder-rename detection
                # writes on <directoryhash> records (e.g. a folder that became empty "renamed from" an empty file) is outside it
                if r["prev"] is not None and p not in ren.values() and not r["dir"]:
                    report("dr-spurious-previous-path", i, None, [p, r["prev"]], "a file that was not renamed carries a previous path")
            for j in rnd.get("accept", []):
                oj = obs[j]
                _count(rep, "c17.accept." + scn["steps"][j]["op"])
                if oj["outcome"] != ["exit", 0] or oj["missing"]:
                    report("renamed-tree-not-accepted:" + scn["steps"][j]["op"], j, ["exit", 0], [oj["outcome"], oj["missing"]],
                           f"{scn['steps'][j]['op']} does not accept the tree after the renames were recorded with -dr")
            j = rnd.get("altered_verify")
            if j is not None:
                oj = obs[j]
                _count(rep, "c17.altered")
                if oj["outcome"] != ["exit", 11] or rnd["altered"] not in oj["mismatch"]:
                    report("altered-renamed-file-not-detected", j, ["exit", 11, rnd["altered"]], [oj["outcome"], oj["mismatch"]], "verify does not fail on a renamed file whose content was changed")
        else:
            _count(rep, f"c17.nodr.renames{len(ren)}")
            for j in rnd.get("reject", []):
                oj, op = obs[j], scn["steps"][j]["op"]
                want = {"verify": 21, "diff": 10, "create": 10}[op]
                if oj["outcome"] != ["exit", want]:
                    report("without-dr-exit:" + op, j, ["exit", want], oj["outcome"], f"without -dr, {op} on a tree with renamed files must exit {want}")
                if not set(ren) <= set(oj["missing"]):
                    report("without-dr-missing-not-named:" + op, j, sorted(ren), oj["missing"], "the old paths are not reported as missing")
                if op in ("verify", "diff") and not set(ren.values()) <= set(oj["new"]):
                    report("without-dr-new-not-named:" + op, j, sorted(ren.values()), oj["new"], "the new paths are not reported as new files")


# ------------------------------------------------------------------------------------------------ C18


def oracle_c18(rep, scn, replay, obs, root, report):
    for i, (st, o) in enumerate(zip(scn["steps"], obs)):
        if st["op"] == "flatten":
            if o["outcome"] != ["exit", 0]:
                report("flatten-fails", i, ["exit", 0], o["outcome"], "flatten of a flat history does not exit 0: " + o["output"][-200:])
                continue
            gens = replay.hists[i].get("", [])
            flats = o.get("flat") or []
            if len(flats) != 1:
                report("flatten-manifest-count", i, 1, [f["file"] for f in flats], "flatten did not write exactly one manifest")
                continue
            fl = flats[0]
            if fl["process"] != "flatten":
                report("flatten-process-type", i, "flatten", fl["process"], "packing list process type")
            want = {}
            for g in gens:
                for r in g["records"]:
                    if r["dir"]:
                        continue
                    d = want.setdefault(r["path"], {})
                    for f, dig, act, _ in r["entries"]:
                        if act != "failed" and f not in d:
                            d[f] = dig
            got = {}
            for r in fl["records"]:
                if r["dir"]:
                    report("flatten-directory-record", i, "no directory records", r["path"], "packing list contains a directory record")
                    continue
                if r["path"] in got:
                    report("flatten-duplicate-path", i, "one record per path", r["path"], "packing list records a path twice")
                d = got.setdefault(r["path"], {})
                for f, dig, act in r["entries"]:
                    if f in d:
                        report("flatten-duplicate-format", i, "one digest per format", [r["path"], f], "packing list holds a format twice for one path")
                    d[f] = dig
            _count(rep, f"c18.flatten.gens{len(gens)}")
            want = {p: d for p, d in want.items()}
            if got != want:
                dp = sorted(p for p in set(got) | set(want) if got.get(p) != want.get(p))
                report("flatten-content", i, {p: want.get(p) for p in dp[:5]}, {p: got.get(p) for p in dp[:5]},
                       "packing list is not: one record per file path ever recorded, per format the earliest digest that did not fail")
            if o.get("_fs_changed"):
                report("flatten-modified-source", i, [], o["_fs_changed"][:10], "flatten modified the source folder")
        if st["op"] == "verifypl" and "expect" in st and any(s2["op"] == "flatten" and o2["outcome"] == ["exit", 0] for s2, o2 in zip(scn["steps"][:i], obs[:i])):
            _count(rep, "c18.verifypl." + ("ok" if st["expect"] == 0 else "altered"))
            if st["expect"] == 0 and o["outcome"] != ["exit", 0]:
                report("verify-pl-false-alarm", i, ["exit", 0], o["outcome"], "verify -pl of the unchanged tree against the packing list does not exit 0: " + o["output"][-300:])
            if st["expect"] != 0 and (o["outcome"][0] != "exit" or o["outcome"][1] == 0):
                report("verify-pl-misses-change", i, "non-zero exit", o["outcome"], "verify -pl accepts an altered tree")


# ------------------------------------------------------------------------------------------------ C19

INFO_GEN = __import__("re").compile(r"^  Generation (\d+) \((.*?)\)")


def oracle_c19(rep, scn, replay, obs, root, report):
    import xml.etree.ElementTree as ET

    for i, (st, o) in enumerate(zip(scn["steps"], obs)):
        if st["op"] == "info":
            croot = st.get("root", "") or ""
            hists = _gens_below(replay.hists[i], croot)
            if not hists.get(""):
                if o["outcome"] != ["exit", 30]:
                    report("info-no-history-code", i, ["exit", 30], o["outcome"], "info on a folder without history must exit 30")
                continue
            if o["outcome"] != ["exit", 0]:
                report("info-fails", i, ["exit", 0], o["outcome"], "info fails on an intact history")
                continue
            per, order, cur = {}, [], None
            for x in o.get("info") or []:
                if x[0] == "H":
                    cur = x[1]                       # parse_info already made it relative to the command's root
                    order.append(cur)
                    per.setdefault(cur, [])
                elif x[0] == "G" and cur is not None:
                    per[cur].append(x[1])
            _count(rep, f"c19.info.histories{len(hists)}")
            if sorted(order) != sorted(hists):
                report("info-histories", i, sorted(hists), order, "info does not list exactly the histories below the folder, each once")
            for h, gens in hists.items():
                want = [g["no"] for g in gens]
                if per.get(h) != want:
                    report("info-generations", i, want, per.get(h), f"info does not list exactly the generations of {h or '.'} in ascending order")
            # creation dates: every 'Generation n (date)' line carries the manifest's <creationdate>
            dates = {}
            for hroot_abs, fname, man in [(os.path.join(root, croot, h), f, None) for h in hists for _, f in impl.list_manifests(os.path.join(root, croot, h))]:
                try:
                    cd = ET.parse(os.path.join(hroot_abs, "ascmhl", fname)).getroot().find(impl.NS + "creatorinfo").find(impl.NS + "creationdate").text
                except Exception:  # noqa
                    cd = None
                dates.setdefault(cd, 0)
                dates[cd] += 1
            for ln in o["output"].split("\n"):
                m = INFO_GEN.match(ln)
                if m and ":" not in ln[m.end():]:
                    if m.group(2) not in dates:
                        report("info-creation-date", i, sorted(x for x in dates if x)[:5], m.group(2), "info prints a creation date no manifest carries")
        if st["op"] == "infosf":
            if o["outcome"][0] == "abort":
                report("infosf-aborts", i, "an exit code", o["outcome"], "info -sf aborted")
                continue
            f = st["file"]
            if st.get("root") is not None:
                hroot = st["root"] or ""
                if not (replay.hists[i].get(hroot)):
                    continue
                # the statement's form: root = the nearest history's root; an outer root is not claimed
                nearest = max((h for h in replay.hists[i] if (h == "" or f.startswith(h + "/"))), key=len, default=None)
                if nearest != hroot:
                    continue
            else:
                cands = [h for h in replay.hists[i] if replay.hists[i][h] and (h == "" or f.startswith(h + "/"))]
                if not cands:
                    if o["outcome"] != ["exit", 30]:
                        report("infosf-no-history-code", i, ["exit", 30], o["outcome"], "info -sf without any enclosing history must exit 30")
                    continue
                hroot = max(cands, key=len)
            rel = f[len(hroot):].lstrip("/") if hroot else f
            want = []
            for g in replay.hists[i][hroot]:
                for r in g["records"]:
                    if r["path"] == rel or r.get("prev") == rel:
                        for e in r["entries"]:
                            want.append([g["no"], e[0], e[1], e[2]])
            got = [x[1:] for x in (o.get("info") or []) if x[0] == "E"]
            _count(rep, "c19.infosf." + ("nested" if hroot else "root") + (".sub" if "/" in rel else ""))
            if o["outcome"] != ["exit", 0]:
                report("infosf-fails", i, ["exit", 0], o["outcome"], "info -sf fails for a file with an enclosing history")
            elif got != want:
                report("infosf-lines", i, want, got, f"info -sf {f} does not print exactly one line per recorded digest (generation, format, digest, action) of history {hroot or '.'}")
