import sys, json, time
import os; sys.path.insert(0, os.path.join(os.path.dirname(os.path.abspath(__file__)), '..'))
from vh import core, world, gen
core.setup_env()
N=int(sys.argv[1]) if len(sys.argv)>1 else 50
seed=int(sys.argv[2]) if len(sys.argv)>2 else 1
sc=core.Scratch("t2")
m=world.new_model()
t0=time.time(); nd=0
try:
    for i in range(N):
        rng=core.rng_for(seed,f"t2/{i}")
        scn=gen.gen_history_scenario(rng, patterns=["*.tmp","a?","[ab]*","Sound/","notes","*.txt"] if i%3==0 else None)
        io,_=world.run_impl(scn,sc)
        mo=world.run_model(scn,m)
        d=world.first_difference(scn,io,mo)
        if d:
            nd+=1
            if nd<=3:
                print("DIFF scenario",i,"step",d[0], json.dumps(scn["steps"][:d[0]+1]))
                print(json.dumps(scn["tree"]))
                a,b=d[1],d[2]
                for k in a:
                    if a[k]!=b.get(k):
                        print(" impl ",k,json.dumps(a[k])[:1500]); print(" model",k,json.dumps(b.get(k))[:1500])
    print("scenarios",N,"diffs",nd,"time",round(time.time()-t0,1))
finally:
    m.close(); sc.cleanup()
