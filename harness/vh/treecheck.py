"""Shared driver of the history-level checks: runs generated scenarios on the implementation and on the
extracted model (lockstep comparison), evaluates the property's own oracle on the implementation's
observations, shrinks failures, and feeds the Report."""
import copy
import json
import os

from . import core, impl, world


class Replay:
    """abstract state kept alongside a scenario run: the media tree before each step and the generations the
    implementation has written so far per history (read back independently)"""

    def __init__(self, scn):
        self.scn = scn
        self.trees = []          # tree before step i
        self.hists = []          # {hist relpath: [gen, ...]} before step i
        self.tree_after = None

    def build(self, impl_obs):
        t, h = copy.deepcopy(self.scn["tree"]), {}
        for st, o in zip(self.scn["steps"], impl_obs):
            self.trees.append(t)
            self.hists.append(copy.deepcopy(h))
            if st["op"] in world.COMMANDS:
                for g in o.get("written", []):
                    if "unparsable" not in g:
                        h.setdefault(g["hist"], []).append(g)
            else:
                if st["op"] in ("set", "add", "mkdir", "delete", "rename"):
                    if st["op"] == "delete" or st["op"] == "rename":
                        # histories living below a deleted / moved folder go with it
                        p = st["path"]
                        moved = {k: v for k, v in h.items() if k == p or k.startswith(p + "/")}
                        for k in moved:
                            del h[k]
                        if st["op"] == "rename":
                            for k, v in moved.items():
                                h[st["to"] + k[len(p):]] = v
                    t = world.tree_apply(t, st)
                elif st["op"] in ("rmmanifest",):
                    pass
        self.tree_after = t
        return self


def subtree(tree, root):
    node = {"d": tree}
    for c in [c for c in (root or "").split("/") if c]:
        node = node["d"][c]
    return node["d"]


def spec_of(patterns):
    import pathspec

    return pathspec.PathSpec.from_lines("gitwildmatch", iter(patterns))


def visible_entries(tree, patterns):
    """[(relpath, is_dir, data)] of everything the patterns do not exclude (an excluded folder hides its content)"""
    spec = spec_of(patterns)
    out = []

    def walk(t, prefix):
        for name in sorted(t):
            p = prefix + name
            if spec.match_file(p):
                continue
            node = t[name]
            if "d" in node:
                out.append((p, True, None))
                walk(node["d"], p + "/")
            else:
                out.append((p, False, bytes.fromhex(node["f"])))

    walk(tree, "")
    return out


DEFAULT_PATTERNS = [".DS_Store", "ascmhl", "ascmhl/"]


def effective_patterns(hist_gens, st):
    """latest generation's patterns (or the defaults) ++ -i ++ -ii lines, first occurrence wins"""
    base = list(hist_gens[-1]["patterns"]) if hist_gens and hist_gens[-1].get("patterns") else list(DEFAULT_PATTERNS)
    out = []
    for p in base + list(st.get("i") or []) + [l for l in (st.get("ii") or []) if l != ""]:
        if p not in out:
            out.append(p)
    return out


def shrink(scn, fails, budget=60):
    if os.environ.get("VERIF_NO_SHRINK"):
        return scn
    """greedy reduction of a failing scenario: drop steps (from the end), then tree entries"""
    cur = copy.deepcopy(scn)
    tries = 0

    def attempt(cand):
        nonlocal tries
        tries += 1
        try:
            return fails(cand)
        except Exception:  # noqa
            return False

    changed = True
    while changed and tries < budget:
        changed = False
        for i in reversed(range(len(cur["steps"]))):
            if tries >= budget:
                break
            cand = copy.deepcopy(cur)
            del cand["steps"][i]
            if cand["steps"] and attempt(cand):
                cur, changed = cand, True
        for path in [p for p, _, _ in world.tree_entries(cur["tree"])][::-1]:
            if tries >= budget:
                break
            cand = copy.deepcopy(cur)
            parts = path.split("/")
            node = cand["tree"]
            try:
                for c in parts[:-1]:
                    node = node[c]["d"]
                del node[parts[-1]]
            except KeyError:
                continue
            if attempt(cand):
                cur, changed = cand, True
    return cur


def run_scenarios(rep, tier, seed, tag, make_scenario, oracle, n_quick, n_thorough, nontrivial=None, corpus=(), compare_model=True, snap=False):
    """make_scenario(rng, i) -> scenario; oracle(rep, scn, replay, impl_obs, root, report_violation)"""
    n = n_quick if tier == "quick" else n_thorough
    scratch = core.Scratch(tag)
    model = world.new_model() if compare_model else None
    try:
        scenarios = [("corpus", c) for c in corpus]
        for i in range(n):
            rng = core.rng_for(seed, f"{tag}/{i}")
            scn = make_scenario(rng, i)
            if i % 3 == 1:
                # the same folders typed with a trailing separator (own random stream: the scenarios themselves stay as they were)
                srng = core.rng_for(seed, f"{tag}/{i}/spell")
                for st in scn["steps"]:
                    if st["op"] in ("create", "verify", "verifydh", "diff", "flatten", "info") and srng.random() < 0.5:
                        st["spell"] = srng.choice(["slash", "slash", "rel", "dot", "dotrel", "updown", "dup"])      # ... relative to the working directory, ".", "./x", "x/../x", "//"
            if i % 4 == 3:
                # files and folders named with -sf typed in a non-normalised way (./x, //x, d/../d/x)
                frng = core.rng_for(seed, f"{tag}/{i}/sfspell")
                for st in scn["steps"]:
                    if st["op"] in ("create", "verify") and st.get("sf"):
                        n = len(st["sf"]) if isinstance(st["sf"], list) else 1
                        st["sf_spell"] = [frng.choice(["dot", "dup", "updown", None]) for _ in range(n)]
            if i % 5 == 2:
                # verbose runs: more lines on the console, the same behaviour
                vrng = core.rng_for(seed, f"{tag}/{i}/verbose")
                for st in scn["steps"]:
                    if st["op"] in ("create", "verify", "verifydh", "verifypl", "diff", "flatten", "info") and vrng.random() < 0.5:
                        st["verbose"] = True
            if i % 7 == 6 and "root_name" not in scn:
                scn["link_parent"] = True      # the same tree reached through a symbolic link above it
                for st in scn["steps"]:
                    # root and -sf names are typed by the same route: a root relative to the working directory is resolved
                    # through the PHYSICAL working directory while an absolute -sf name keeps the link (mixing the two is
                    # outside every property's domain; what the tool does then is noted in DESIGN 10.4): below a link every name is absolute
                    if st.get("spell") in ("dot", "rel", "dotrel"):
                        st.pop("spell")
                    for k in ("sf_rel", "pl_rel", "rel_dest"):       # names relative to the (physical) working directory beside names through the link
                        st.pop(k, None)
            scenarios.append((f"gen{i}", scn))
        for label, scn in scenarios:
            impl_obs, root = world.run_impl(scn, scratch, snap=snap)
            hung = [k for k, o in enumerate(impl_obs) if list(o.get("outcome") or []) == ["abort", "Hang"]]
            if hung:
                # the tool did not come back from a command: nothing the property promises can have happened
                rep.case(json.dumps(scn, sort_keys=True), nontrivial=True)
                rep.violate("command-does-not-return", {"scenario": scn, "step": hung[0]}, "an exit code", ["abort", "Hang"],
                            f"step {hung[0]} ({scn['steps'][hung[0]]['op']}) did not return within the time limit")
                continue
            replay = Replay(scn).build(impl_obs)
            for st, o in zip(scn["steps"], impl_obs):
                rep.count("step." + st["op"])
                if st["op"] in world.COMMANDS:
                    rep.count(f"outcome.{o['outcome'][0]}.{o['outcome'][1]}")
            rep.count("tree_entries", len(world.tree_entries(scn["tree"])))
            rep.case(json.dumps(scn, sort_keys=True), nontrivial=(nontrivial(scn, impl_obs) if nontrivial else True),
                     sample={"tree": scn["tree"], "steps": scn["steps"], "outcomes": [o.get("outcome") for o in impl_obs]} if len(rep.samples) < 2 else None)
            if model is not None:
                model_obs = world.run_model(scn, model)
                d = world.first_difference(scn, impl_obs, model_obs)
                rep.traces += 1
                if d is not None:
                    def keys_of(dd):
                        return sorted(k for k in dd[1] if dd[1][k] != dd[2].get(k))

                    def still(c, _op=scn["steps"][d[0]]["op"], _keys=keys_of(d)):
                        # the reduced scenario must fail the same way: same command, same differing fields
                        io, _ = world.run_impl(c, scratch, snap=snap)
                        d2 = world.first_difference(c, io, world.run_model(c, model))
                        return d2 is not None and c["steps"][d2[0]]["op"] == _op and keys_of(d2) == _keys

                    small = shrink(scn, still) if len(rep.disagreements) < 2 else scn
                    io, _ = world.run_impl(small, scratch, snap=snap)
                    mo = world.run_model(small, model)
                    dd = world.first_difference(small, io, mo) or d
                    rep.disagree({"scenario": small, "step": dd[0]}, dd[2], dd[1], f"model and implementation differ at step {dd[0]} ({small['steps'][dd[0]]['op']})")

            def report(signature, step, expected, actual, what, _scn=scn):
                def still(c, _sig=signature):
                    hits = []
                    io, r = world.run_impl(c, scratch, snap=snap)
                    oracle(None, c, Replay(c).build(io), io, r, lambda s, *a: hits.append(s))
                    return _sig in hits

                known = any(k.get("property") == rep.prop and k.get("signature") == signature for k in rep.known)
                small = shrink(_scn, still) if (not known and len(rep.violations) < 1) else _scn
                rep.violate(signature, {"scenario": small, "step": step}, expected, actual, what)

            oracle(rep, scn, replay, impl_obs, root, report)
    finally:
        if model is not None:
            model.close()
        scratch.cleanup()


def replay_scenario(rep, data, oracle, snap=True):
    """bin/check Cnn --replay FILE for scenario-shaped replays"""
    scn = (data.get("scenario") or {}).get("scenario")
    if not scn:
        return None
    scratch = core.Scratch("rp")
    model = world.new_model()
    try:
        impl_obs, root = world.run_impl(scn, scratch, snap=snap)
        for st, o in zip(scn["steps"], impl_obs):
            print("step", json.dumps(st), "->", json.dumps(world.comparable(o, st["op"], st), default=str)[:600])
        mo = world.run_model(scn, model)
        d = world.first_difference(scn, impl_obs, mo)
        if d:
            print(f"MODEL/IMPLEMENTATION DIFFER at step {d[0]}:\n impl : {json.dumps(d[1], default=str)[:1500]}\n model: {json.dumps(d[2], default=str)[:1500]}")
        hits = []
        oracle(None, scn, Replay(scn).build(impl_obs), impl_obs, root, lambda s, step, e, a, w: hits.append((s, step, e, a, w)))
        for h in hits:
            print("ORACLE VIOLATION:", json.dumps(h, default=str)[:1500])
        print(f"replay: {len(hits)} oracle violation(s), model {'differs' if d else 'agrees'}")
        return 1 if (hits or d) else 0
    finally:
        model.close()
        scratch.cleanup()
