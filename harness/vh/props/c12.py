"""C12 -- ignore patterns exclude consistently and only ever accumulate"""
import copy

from .. import defects, gen, oracles, world
from ._tree import make

PATTERNS = ["*.tmp", "a?", "[ab]*", "Sound/", "notes", "*.txt", "Clips", "d.tmp", "A B", "*.mov", "Z", "zz/"]


def scenario(rng, i):
    tree = gen.gen_tree(rng, max_entries=14, ds_store=True)
    cur = copy.deepcopy(tree)
    PATTERNS = globals()["PATTERNS"] + gen.path_patterns(tree, rng, k=3)
    steps = []
    dirs = gen.all_dirs(cur)
    for d in rng.sample(dirs, min(len(dirs), rng.choice([0, 0, 1, 2]))):
        st = {"op": "create", "root": d, "fmts": gen.gen_fmts(rng)}
        if rng.random() < 0.4:
            st["i"] = rng.sample(PATTERNS, 1)
        steps.append(st)
    for k in range(rng.choice([1, 2, 3, 4, 5])):
        st = {"op": "create", "fmts": gen.gen_fmts(rng)}
        r = rng.random()
        if r < 0.5:
            st["i"] = rng.sample(PATTERNS, rng.choice([1, 1, 2, 3]))
            if rng.random() < 0.2:
                st["i"] = st["i"] + [st["i"][0]]
        if rng.random() < 0.25:
            st["ii"] = rng.sample(PATTERNS, rng.choice([1, 2])) + ([""] if rng.random() < 0.4 else [])
        files = [p for p in gen.all_files(cur) + gen.all_dirs(cur)]
        if rng.random() < 0.2 and files:
            st["sf"] = rng.sample(files, 1)
        steps.append(st)
        if rng.random() < 0.6:
            e = gen.gen_edit(rng, cur, kinds=("set", "add", "delete"))
            steps.append(e)
            cur = world.tree_apply(cur, e)
        if rng.random() < 0.5:
            v = {"op": rng.choice(["verify", "diff", "verifydh"])}
            if rng.random() < 0.3:
                v["i"] = rng.sample(PATTERNS, 1)
            steps.append(v)
    return {"tree": tree, "steps": steps}


RULE = ("trees with .DS_Store files, pattern sets from base names, globs and directory patterns given via -i, repeated -i (with duplicates) and -ii files (with blank "
        "lines) over 1-5 generations, flat and nested, -sf runs, edits of ignored and non-ignored files, verify / diff / verify -dh with extra patterns; oracle: "
        "pattern list = previous list as prefix + new ones without duplicates (+ parent's in nested histories), nothing matched is recorded or reported. "
        "Non-trivial: at least one non-default pattern was given.")
# recorded inputs that run first: `create -sf <folder>` under patterns bound to a location (a pattern with a slash is matched
# against the path from the history root, also when only a sub-folder is walked), given now and inherited from an earlier run
CORPUS = [{"tree": {"A": {"d": {"cache": {"d": {"c.bin": {"f": "01"}}}, "secret.txt": {"f": "02"}, "keep.bin": {"f": "03"}, "B": {"d": {"secret.txt": {"f": "04"}}}}},
                    "other.bin": {"f": "05"}},
           "steps": [{"op": "create", "fmts": ["md5"], "sf": ["A"], "i": ["A/cache/", "A/secret.txt"]}, {"op": "verify"},
                     {"op": "add", "path": "A/cache/d.bin", "data": "06"}, {"op": "create", "fmts": ["md5"], "sf": ["A"]},
                     {"op": "create", "fmts": ["md5"], "sf": ["A/B", "A/cache"], "ii": ["A/B/secret.txt", ""]}, {"op": "create", "fmts": ["md5"]}, {"op": "verify"}]}]
check, replay = make("C12", oracles.oracle_c12, scenario, 60, 1500, RULE, corpus_defects=[defects.d08_c12_sf_folder_ignores_patterns], corpus=CORPUS,
                     nontrivial=lambda scn, obs: any(s.get("i") or s.get("ii") for s in scn["steps"]))
