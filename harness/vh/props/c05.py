"""C05 -- any change to a chained manifest is detected before anything else happens"""
import copy

from .. import gen, oracles, world
from ._tree import make

COMMANDS = ["create", "createsf", "verify", "verifydh", "diff", "info", "infosf", "flatten"]
KINDS = ["flip", "insert", "delete", "truncate", "append"]


def scenario(rng, i):
    """histories (1-4 generations, nested to depth <= 3), one fault (edit of any manifest at any position, removal of
    a manifest, removal of a chain file) in any history, then several history-reading commands on the root"""
    tree = gen.gen_tree(rng, max_entries=10, max_depth=3, simple=True, ds_store=False)
    if not gen.all_files(tree):
        tree["a.txt"] = {"f": gen.gen_content(rng)}
    cur = copy.deepcopy(tree)
    steps, count = [], {}

    def create(root):
        steps.append({"op": "create", "fmts": gen.gen_fmts(rng), **({"root": root} if root else {})})
        for h in list(count):
            if root == "" or h == root or h.startswith(root + "/"):
                count[h] += 1
        if root not in count:
            count[root] = 1

    dirs = gen.all_dirs(cur)
    for d in rng.sample(dirs, min(len(dirs), rng.choice([0, 1, 1, 2, 3]))):
        create(d)
    for k in range(rng.choice([1, 1, 2, 3])):
        create("")
        if rng.random() < 0.5:
            e = gen.gen_edit(rng, cur, kinds=("set", "add"))
            steps.append(e)
            cur = world.tree_apply(cur, e)
    h = rng.choice(sorted(count))
    g = rng.randrange(1, count[h] + 1)
    r = rng.random()
    if r < 0.7:
        fault = {"op": "tamper", "hist": h, "gen": g, "kind": rng.choice(KINDS), "pos": rng.randrange(0, 100000), "bit": rng.randrange(8)}
    elif r < 0.87:
        fault = {"op": "rmmanifest", "hist": h, "gen": g}
    else:
        fault = {"op": "rmchain", "hist": h}
    steps.append(fault)
    files = gen.all_files(cur)
    for c in rng.sample(COMMANDS, rng.choice([3, 4, 8])):
        if c == "createsf":
            steps.append({"op": "create", "fmts": gen.gen_fmts(rng), "sf": [rng.choice(files)]})
        elif c == "infosf":
            steps.append({"op": "infosf", "file": rng.choice(files), "root": ""})
        elif c == "create":
            steps.append({"op": "create", "fmts": gen.gen_fmts(rng)})
        else:
            steps.append({"op": c})
    return {"tree": tree, "steps": steps}


RULE = ("histories of 1-4 generations, flat and nested to depth 3; exactly one fault per scenario: bit flip / insertion / deletion / truncation / appended newline at a "
        "random position of ANY manifest of ANY history (root or nested, any generation), removal of such a manifest, or removal of a chain file; then 3-8 of the "
        "history-reading commands (create, create -sf, verify, verify -dh, diff, info, info -sf, flatten) on the root; oracle: exit code 31 / 33 / 32 and an identical "
        "byte snapshot (type, bytes, mode, mtime) of the whole tree and of the flatten destination. Non-trivial: every scenario (each has a fault).")
check, replay = make("C05", oracles.oracle_c05, scenario, 60, 1500, RULE, snap=True)
