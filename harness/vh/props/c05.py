"""C05 -- any change to a chained manifest is detected before anything else happens"""
import copy

from .. import gen, oracles, world
from ._tree import make

COMMANDS = ["create", "createsf", "verify", "verifydh", "verifydh_co", "verifydh_ro", "diff", "info", "infosf", "flatten"]
KINDS = ["flip", "insert", "delete", "truncate", "append", "empty"]


def scenario(rng, i):
    """histories (1-4 generations, nested to depth <= 3), one fault (edit of any manifest at any position, removal of
    a manifest, removal of a chain file) in any history, then several history-reading commands on the root"""
    tree = gen.gen_tree(rng, max_entries=10, max_depth=3, simple=True, ds_store=False)
    if not gen.all_files(tree):
        tree["a.txt"] = {"f": gen.gen_content(rng)}
    cur = copy.deepcopy(tree)
    steps, count = [], {}

    def create(root):
        steps.append({"op": "create", "fmts": gen.gen_fmts(rng), **({"root": root} if root else {})})
        for h in list(count):
            if root == "" or h == root or h.startswith(root + "/"):
                count[h] += 1
        if root not in count:
            count[root] = 1

    dirs = gen.all_dirs(cur)
    for d in rng.sample(dirs, min(len(dirs), rng.choice([0, 1, 1, 2, 3]))):
        create(d)
    for k in range(rng.choice([1, 1, 2, 3])):
        create("")
        if rng.random() < 0.5:
            e = gen.gen_edit(rng, cur, kinds=("set", "add"))
            steps.append(e)
            cur = world.tree_apply(cur, e)
    h = rng.choice(sorted(count))
    g = rng.randrange(1, count[h] + 1)
    r = rng.random()
    if r < 0.7:
        fault = {"op": "tamper", "hist": h, "gen": g, "kind": rng.choice(KINDS), "pos": rng.randrange(0, 100000), "bit": rng.randrange(8)}
        if i % 2 == 1:
            fault["keep_mtime"] = True
    elif r < 0.87:
        fault = {"op": "rmmanifest", "hist": h, "gen": g}
    else:
        fault = {"op": "rmchain", "hist": h}
    if i % 9 == 4:
        # the ascmhl folder emptied completely, the folder itself kept: the chain file of an existing ascmhl folder is missing (32)
        for gg in range(1, count[h] + 1):
            steps.append({"op": "rmmanifest", "hist": h, "gen": gg})
        fault = {"op": "rmchain", "hist": h}
    steps.append(fault)
    files = gen.all_files(cur)
    for c in rng.sample(COMMANDS, rng.choice([3, 4, 8])):
        if c == "createsf":
            steps.append({"op": "create", "fmts": gen.gen_fmts(rng), "sf": [rng.choice(files)]})
        elif c == "infosf":
            steps.append({"op": "infosf", "file": rng.choice(files), "root": ""})
        elif c == "create":
            steps.append({"op": "create", "fmts": gen.gen_fmts(rng)})
        elif c in ("verifydh_co", "verifydh_ro"):
            steps.append({"op": "verifydh", c[-2:]: True})
        else:
            steps.append({"op": c})
    return {"tree": tree, "steps": steps}


RULE = ("histories of 1-4 generations, flat and nested to depth 3; exactly one fault per scenario (one in nine: the ascmhl folder emptied completely, expected 32): bit flip / insertion / deletion / truncation / appended newline at a "
        "random position of ANY manifest of ANY history (root or nested, any generation; every other scenario restores the file's time stamps afterwards), removal of such a manifest, or removal of a chain file; then 3-8 of the "
        "history-reading commands (create, create -sf, verify, verify -dh, diff, info, info -sf, flatten) on the root; oracle: exit code 31 / 33 / 32 and an identical "
        "byte snapshot (type, bytes, mode, mtime) of the whole tree and of the flatten destination. Non-trivial: every scenario (each has a fault).")


def big_manifest(rep, tier, seed):
    """a manifest larger than the 1 MiB read chunk, edited beyond the first chunk: the chain check must still refuse (implementation only)"""
    import os

    from .. import core, impl

    sc = core.Scratch("C05b")
    try:
        root = os.path.join(sc.new("big"), "r")
        os.mkdir(root)
        rng = core.rng_for(seed, "C05/big")
        n = 1500
        for k in range(n):
            d = os.path.join(root, "reel_%02d_with_a_rather_long_folder_name_to_fill_the_manifest" % (k % 7))
            os.makedirs(d, exist_ok=True)
            with open(os.path.join(d, "clip_%05d_%s.mov" % (k, "x" * 150)), "wb") as fh:
                fh.write(rng.randbytes(3))
        oc, out = impl.run_cli("create", [root, "-h", "md5", "-h", "sha1", "-h", "c4"])
        gens = impl.list_manifests(root)
        mf = os.path.join(root, "ascmhl", gens[-1][1])
        size = os.path.getsize(mf)
        rep.count("c05.big_manifest_bytes", size)
        if list(oc) != ["exit", 0] or size <= (1 << 20) + 1000:
            rep.notes.append(f"big-manifest scenario not effective: outcome {oc}, size {size}")
            return
        data = open(mf, "rb").read()
        for name, edit in (("append", data + b"\n"), ("flip-beyond-first-chunk", data[: (1 << 20) + 77] + bytes([data[(1 << 20) + 77] ^ 1]) + data[(1 << 20) + 78:]),
                           ("flip-in-last-byte", data[:-1] + bytes([data[-1] ^ 2]))):
            with open(mf, "wb") as fh:
                fh.write(edit)
            for cmd, args in (("verify", [root]), ("info", [root]), ("diff", [root])):
                oc, out = impl.run_cli(cmd, args)
                rep.case(("big", name, cmd), sample=None)
                rep.count("c05.big." + name)
                if list(oc) != ["exit", 31]:
                    rep.violate("not-refused-tamper-beyond-first-chunk", {"scenario": "1500 files, manifest of %d bytes, edit %s" % (size, name), "command": cmd}, ["exit", 31], list(oc),
                                f"{cmd} did not refuse (exit 31) although the manifest ({size} bytes) was edited ({name})")
            with open(mf, "wb") as fh:
                fh.write(data)
    finally:
        sc.cleanup()


def _prefix_siblings(fault):
    tree = {"Reel1": {"d": {"a.mov": {"f": "0101"}}}, "Reel10": {"d": {"b.mov": {"f": "0202"}, "Sub": {"d": {"c.mov": {"f": "0303"}}}}}, "top.txt": {"f": "5454"}}
    return {"tree": tree, "steps": [{"op": "create", "root": "Reel1", "fmts": ["md5"]}, {"op": "create", "root": "Reel10", "fmts": ["md5"]}, {"op": "create", "fmts": ["md5"]}, fault,
                                    {"op": "verify"}, {"op": "diff"}, {"op": "info"}, {"op": "verifydh"}, {"op": "create", "fmts": ["md5"]},
                                    {"op": "create", "fmts": ["md5"], "sf": ["top.txt"]}, {"op": "flatten"}]}


# recorded inputs that run first: two nested histories in sibling folders where one name is the beginning of the other
# (Reel1 / Reel10) -- a fault in the second one is found like any other
CORPUS = [_prefix_siblings({"op": "tamper", "hist": "Reel10", "gen": 1, "kind": "flip", "pos": 700, "bit": 1, "keep_mtime": True}),
          _prefix_siblings({"op": "rmmanifest", "hist": "Reel10", "gen": 2}),
          _prefix_siblings({"op": "rmchain", "hist": "Reel10"})]
check, replay = make("C05", oracles.oracle_c05, scenario, 60, 1500, RULE, snap=True, extra=big_manifest, corpus=CORPUS)
