"""C18 -- a flattened manifest faithfully summarises the history"""
import copy

from .. import gen, oracles, world
from ._tree import make


def single_generation(rng):
    """a history with exactly one generation over a tree with sub-folders: nothing to merge, still no directory records"""
    distinct = set()
    tree = gen.gen_tree(rng, max_entries=10, max_depth=3, simple=True, distinct=distinct, ds_store=False)
    if not gen.all_dirs(tree):
        tree["Sub"] = {"d": {"in.bin": {"f": gen.gen_content(rng, distinct) or "ab"}, "Deeper": {"d": {"x": {"f": gen.gen_content(rng, distinct) or "cd"}}}}}
    if not gen.all_files(tree):
        tree["top.txt"] = {"f": gen.gen_content(rng, distinct) or "ef"}
    steps = [{"op": "create", "fmts": gen.gen_fmts(rng, kmax=3), **({"n": True} if rng.random() < 0.3 else {})},
             {"op": "flatten", **({"rel_dest": True} if rng.random() < 0.3 else {})}, {"op": "verifypl", "expect": 0}]
    victim = rng.choice(gen.all_files(tree))
    old = gen._node(tree, victim)["f"]
    steps += [{"op": "set", "path": victim, "data": (old + "00") if old else "01"}, {"op": "verifypl", "expect": 11}]
    return {"tree": tree, "steps": steps}


def scenario(rng, i):
    if i % 6 == 5:
        return single_generation(rng)
    distinct = set()
    tree = gen.gen_tree(rng, max_entries=10, max_depth=2, simple=(i % 2 == 0), distinct=distinct, ds_store=False)
    while len(gen.all_files(tree)) < 2:
        tree[gen.gen_name(rng, set(tree), simple=True)] = {"f": gen.gen_content(rng, distinct) or "aa"}
    if i % 5 == 2:
        # names in decomposed and in precomposed Unicode form: a packing list names each file exactly as the history does
        tree["cafe\u0301.mov"] = {"f": gen.gen_content(rng, distinct) or "c1"}
        tree["A\u030a"] = {"d": {"e\u0301.txt": {"f": gen.gen_content(rng, distinct) or "c2"}, "\u00e9.txt": {"f": gen.gen_content(rng, distinct) or "c3"}}}
    cur = copy.deepcopy(tree)
    steps = []
    altered = {}
    sealed = set()                 # files some generation has recorded: only those are altered (and restored) later
    for k in range(rng.choice([1, 2, 3, 4, 6])):
        st = {"op": "create", "fmts": gen.gen_fmts(rng, kmax=4)}
        files = gen.all_files(cur)
        r = rng.random()
        if k > 0 and r < 0.3:
            st["sf"] = rng.sample(files, min(len(files), rng.choice([1, 2])))
        elif r < 0.4:
            st["n"] = True
        if k > 0 and i % 4 == 1 and not st.get("sf"):
            # a pattern given in a LATER generation that covers files recorded before: they stay in the packing list
            st["i"] = gen.path_patterns(cur, rng, k=2) + ["*.tmp"]
        steps.append(st)
        sealed |= set(st["sf"]) if st.get("sf") else set(files)
        r = rng.random()
        if r < 0.3 and not altered and sealed:
            p = rng.choice(sorted(sealed))
            altered[p] = gen._node(cur, p)["f"]
            steps.append({"op": "set", "path": p, "data": gen.gen_content(rng, distinct) or "ee"})
            cur = world.tree_apply(cur, steps[-1])
        elif r < 0.5 and altered:
            p, data = altered.popitem()
            steps.append({"op": "set", "path": p, "data": data})
            cur = world.tree_apply(cur, steps[-1])
        elif r < 0.7:
            e = gen.gen_edit(rng, cur, kinds=("add",))
            e["data"] = gen.gen_content(rng, distinct) or "dd"
            steps.append(e)
            cur = world.tree_apply(cur, e)
    for p, data in altered.items():
        steps.append({"op": "set", "path": p, "data": data})
        cur = world.tree_apply(cur, steps[-1])
    steps.append({"op": "create", "fmts": gen.gen_fmts(rng)})          # every file is recorded, the tree is as sealed
    steps.append({"op": "flatten", **({"rel_dest": True} if rng.random() < 0.3 else {})})
    steps.append({"op": "verifypl", "expect": 0, **({"pl_rel": True} if i % 3 == 1 else {})})     # the packing list named relative to the working directory
    victim = rng.choice(gen.all_files(cur))
    old = gen._node(cur, victim)["f"]
    steps.append({"op": "set", "path": victim, "data": (old + "00") if old else "01"})
    # with patterns in play the altered file may be an ignored one: then only the model judges the outcome
    steps.append({"op": "verifypl", **({} if any(s.get("i") for s in steps) else {"expect": 11})})
    return {"tree": tree, "steps": steps}


RULE = ("flat histories of 2-7 generations (one scenario in six: exactly ONE generation over a tree with sub-folders) with changing format sets (1-4 of six formats), generations containing failed entries (a file altered, sealed, restored), -sf "
        "generations covering part of the tree, -n generations, files added between generations; then flatten (absolute or relative destination), verify -pl on the "
        "unchanged tree, alter one file, verify -pl again; oracle: the packing list read with an independent XML reader holds one record per file path ever recorded and per "
        "format the earliest non-failed digest, no directory records, process type flatten; source folder byte-identical; verify -pl exits 0 / non-zero. "
        "Non-trivial: >= 3 generations, or the single-generation case.")
check, replay = make("C18", oracles.oracle_c18, scenario, 50, 1200, RULE, snap=True,
                     nontrivial=lambda scn, obs: sum(1 for s in scn["steps"] if s["op"] == "create") in (1, 3, 4, 5, 6, 7, 8))
