"""C07 -- directory hashes follow the compositional definition"""
from .. import gen, oracles
from ._tree import make

PATTERNS = ["*.tmp", "notes", "Sound/", "a?"]


def scenario(rng, i):
    tree = gen.gen_tree(rng, max_entries=14)
    fm = rng.sample(gen.FORMATS, rng.choice([1, 2, 3, 6]))
    if i % 5 == 4:
        fm = fm + [fm[0]] + ([fm[-1]] if len(fm) > 1 else [])      # the same -h given twice: each child still counts once
    st = {"op": "create", "fmts": fm}
    if i % 3 == 0:
        st["i"] = rng.sample(PATTERNS + gen.path_patterns(tree, rng, k=3), rng.choice([1, 2]))
    steps = []
    if i % 4 == 1:
        # nested histories sealed first (own format sets): the parent records the nested roots as directory entries
        dirs = gen.all_dirs(tree)
        for d in rng.sample(dirs, min(len(dirs), rng.choice([1, 2]))):
            steps.append({"op": "create", "root": d, "fmts": rng.sample(gen.FORMATS, rng.choice([1, 2]))})
    steps += [st, {"op": "verifydh", "co": True}]
    cur = tree
    from .. import world
    for _ in range(rng.choice([0, 1, 2])):
        e = gen.gen_edit(rng, cur, kinds=("set", "rename", "add", "delete"))
        steps.append(e)
        cur = world.tree_apply(cur, e)
    steps += [{"op": "verifydh", "co": True, **({"fmt": rng.choice(fm)} if rng.random() < 0.3 else {})}, {"op": "create", "fmts": rng.sample(gen.FORMATS, rng.choice([1, 2]))}]
    return {"tree": tree, "steps": steps}


RULE = ("random trees x format sets (1, 2, 3 or all 6 formats) x ignore patterns; create, verify -dh -co, then in-place renames / content edits / additions / "
        "removals and again; oracle: every recorded <directoryhash>/<roothash> and every hash printed by -co equals an independent evaluation of the definition "
        "(sorted digest texts, decoded, concatenated; structure = name bytes + digest) over the non-ignored entries. Non-trivial: the tree has a sub-directory.")
# recorded inputs that run first on every run: children with EQUAL digests (copies of a file, several empty files, an empty
# file beside an empty folder) -- each child counts, however many of them hash alike
CORPUS = [{"tree": {"a.bin": {"f": "0102"}, "b.bin": {"f": "0102"}, "e1": {"f": ""}, "e2": {"f": ""},
                    "D": {"d": {"c1.bin": {"f": "0102"}, "c2.bin": {"f": "0102"}, "E": {"d": {}}, "F": {"f": ""}, "z": {"f": ""}}},
                    "D2": {"d": {"c1.bin": {"f": "0102"}, "c2.bin": {"f": "0102"}, "E": {"d": {}}, "F": {"f": ""}, "z": {"f": ""}}}},
           "steps": [{"op": "create", "fmts": ["md5", "c4"]}, {"op": "verifydh", "co": True},
                     {"op": "rename", "path": "D/c2.bin", "to": "D/c3.bin"}, {"op": "verifydh", "co": True},
                     {"op": "create", "fmts": ["xxh64"]}, {"op": "verifydh"},
                     {"op": "create", "fmts": ["sha1", "md5", "sha1"]}, {"op": "verifydh"}, {"op": "verifydh", "co": True}]}]
check, replay = make("C07", oracles.oracle_c07, scenario, 60, 1500, RULE, corpus=CORPUS,
                     nontrivial=lambda scn, obs: bool(gen.all_dirs(scn["tree"])))
