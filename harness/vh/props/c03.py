"""C03 -- verification reports every discrepancy and never a false one"""
from .. import defects, gen, oracles, world
from ._tree import make
import copy

PATTERNS = ["*.tmp", "notes", "Sound/", "[ab]*"]


def scenario(rng, i):
    """seal a tree (flat or nested, one or more generations), mutate it, then run verify, diff and create"""
    tree = gen.gen_tree(rng, max_entries=12)
    cur = copy.deepcopy(tree)
    pats = (PATTERNS + gen.path_patterns(tree, rng, k=3)) if i % 4 == 0 else None
    steps = []
    for d in rng.sample(gen.all_dirs(cur), min(len(gen.all_dirs(cur)), rng.choice([0, 0, 1, 2]))):
        steps.append({"op": "create", "root": d, "fmts": gen.gen_fmts(rng)})
    first = {"op": "create", "fmts": gen.gen_fmts(rng), **({"n": True} if i % 7 == 3 else {})}
    if pats and rng.random() < 0.7:
        first["i"] = rng.sample(pats, rng.choice([1, 2]))
    steps.append(first)
    for _ in range(rng.choice([0, 0, 1, 2])):
        steps.append({"op": "create", "fmts": gen.gen_fmts(rng)})
    k = rng.choice([0, 1, 1, 1, 2, 3])
    kinds = ("set", "add", "delete", "touch") if i % 5 else ("touch",)
    for _ in range(k):
        st = gen.gen_edit(rng, cur, kinds=kinds)
        if st["op"] == "set" and rng.random() < 0.4:
            old = bytes.fromhex(gen._node(cur, st["path"])["f"])
            if old:
                st["data"] = bytes([old[0] ^ 1]) .hex() + old[1:].hex()      # same size, one bit flipped
                st["keep_mtime"] = True
        steps.append(st)
        cur = world.tree_apply(cur, st)
    if i % 6 == 1:
        # a whole folder with what is in it goes away: every recorded entry below it is missing, and each is named
        full = [d for d in gen.all_dirs(cur) if gen._node(cur, d)["d"]]
        if full:
            st = {"op": "delete", "path": rng.choice(full)}
            steps.append(st)
            cur = world.tree_apply(cur, st)
    order = [{"op": "verify"}, {"op": "diff"}, {"op": "create", "fmts": gen.gen_fmts(rng), **({"n": True} if rng.random() < 0.3 else {}),
                                                  **({"dr": True} if i % 7 in (3, 5) else {})}]
    rng.shuffle(order)
    # create adds a generation, so verify / diff come first in most scenarios
    if rng.random() < 0.7:
        order.sort(key=lambda s: s["op"] == "create")
    if i % 5 == 2:
        # the named-files form, with a file or a whole folder named: an altered file below what is named is reported all the same
        edited = [st["path"] for st in steps if st["op"] == "set"]
        cand = [e.rsplit("/", 1)[0] for e in edited if "/" in e] + edited + gen.all_dirs(cur)
        present = set(gen.all_dirs(cur)) | set(gen.all_files(cur))
        cand = [c for c in cand if c in present]
        if cand:
            order.insert(rng.randrange(len(order) + 1), {"op": "create", "fmts": gen.gen_fmts(rng), "sf": [cand[0] if rng.random() < 0.7 else rng.choice(cand)]})
    steps += order
    return {"tree": tree, "steps": steps}


RULE = ("sealed trees (flat / nested, 1-3 generations, with and without ignore patterns) followed by 0-3 mutations (same-size bit flip with the mtime "
        "kept, rewrite, append, delete file / empty dir / (one scenario in six) a folder with its content, add file, touch) and then verify, diff, create (one scenario in five also create -sf naming an edited file or a folder above it; two scenarios in seven with -dr, one of them on a history sealed with -n); oracle: exit code and named paths derived from "
        "the generations read back independently. Non-trivial: at least one mutation step.")
# recorded inputs that run first on every run: a folder recorded without directory hashes (-n) vanishes (renamed) and create -dr
# has new paths to compare with -- the rename detection must not end in an internal error (it did: AttributeError on None)
CORPUS = [{"tree": {"keep.bin": {"f": "00"}, "Clips": {"d": {"c%02d.mov" % k: {"f": "%02x%02x" % (k, k)} for k in range(30)}}},
           # many entries missing at once: every one of them is named
           "steps": [{"op": "create", "fmts": ["md5"]}, {"op": "delete", "path": "Clips"}, {"op": "verify"}, {"op": "diff"}, {"op": "create", "fmts": ["md5"]}]},
          {"tree": {"a.bin": {"f": "0102"}, "b.bin": {"f": "0304"}, "D": {"d": {"c.bin": {"f": "0506"}, "E": {"d": {}}}}},
           # several things wrong at once: a file altered AND other entries removed -- the exit code is the altered file's, and
           # the removed paths are still named
           "steps": [{"op": "create", "fmts": ["md5"]}, {"op": "set", "path": "a.bin", "data": "ffff"}, {"op": "delete", "path": "b.bin"},
                     {"op": "delete", "path": "D/E"}, {"op": "verify"}, {"op": "diff"}, {"op": "create", "fmts": ["md5"]}]},
          {"tree": {"top.bin": {"f": "01"}, "D": {"d": {"a.txt": {"f": "414141"}, "E": {"d": {"deep.bin": {"f": "0708"}}}}}},
           # create -sf <folder>: an altered file below the named folder makes the command exit 11 like any other create
           "steps": [{"op": "create", "fmts": ["md5"]}, {"op": "set", "path": "D/E/deep.bin", "data": "0709", "keep_mtime": True},
                     {"op": "create", "fmts": ["md5"], "sf": ["D"]}, {"op": "create", "fmts": ["md5"], "sf": ["D/E"]}, {"op": "create", "fmts": ["md5"], "sf": ["D/E/deep.bin"]}]},
          {"tree": {"D": {"d": {"a.txt": {"f": "414141"}}}, "z.txt": {"f": "5a5a"}},
           "steps": [{"op": "create", "fmts": ["md5"], "n": True}, {"op": "rename", "path": "D", "to": "E"}, {"op": "create", "fmts": ["md5"], "n": True, "dr": True}]},
          {"tree": {"D": {"d": {}}, "z.txt": {"f": "5a5a"}},
           "steps": [{"op": "create", "fmts": ["xxh64"], "n": True}, {"op": "delete", "path": "D"}, {"op": "add", "path": "new.bin", "data": "0102"},
                     {"op": "create", "fmts": ["xxh64"], "dr": True}, {"op": "verify"}]}]
check, replay = make("C03", oracles.oracle_c03, scenario, 70, 2000, RULE, corpus=CORPUS,
                     corpus_defects=[defects.d15_c03_verify_without_files, defects.d05_c10_line_separator_in_name],
                     nontrivial=lambda scn, obs: any(s["op"] in ("set", "add", "delete") for s in scn["steps"]))
