"""C15 -- an interrupted create never damages what was already recorded"""
import concurrent.futures
import copy
import json
import os
import shutil
import subprocess
import xml.etree.ElementTree as ET

from .. import core, gen, impl, oracles, world

RUNNER = os.path.join(os.path.dirname(os.path.dirname(os.path.abspath(__file__))), "crashrun.py")


def scenario(rng, i):
    """a tree with 0..3 committed generations (flat or with nested histories), then the create that gets interrupted"""
    tree = gen.gen_tree(rng, max_entries=6, max_depth=2, simple=True, ds_store=False)
    if not gen.all_files(tree):
        tree["a.txt"] = {"f": gen.gen_content(rng) or "61"}
    cur = copy.deepcopy(tree)
    steps = []
    dirs = gen.all_dirs(cur)
    if i % 3 == 1 and dirs:
        for d in rng.sample(dirs, min(len(dirs), rng.choice([1, 2]))):
            steps.append({"op": "create", "root": d, "fmts": gen.gen_fmts(rng)})
    for _ in range(0 if i % 4 == 0 else rng.choice([1, 1, 2, 3])):
        steps.append({"op": "create", "fmts": gen.gen_fmts(rng)})
        if rng.random() < 0.5:
            e = gen.gen_edit(rng, cur, kinds=("set", "add"))
            steps.append(e)
            cur = world.tree_apply(cur, e)
    last = {"op": "create", "fmts": gen.gen_fmts(rng)}
    files = gen.all_files(cur)
    if steps and rng.random() < 0.25:
        last["sf"] = [rng.choice(files)]
    scn = {"tree": tree, "steps": steps, "interrupted": last}
    if i % 6 == 5:
        # the folder was renamed after its first generations: its name is now so long that <manifest name>.tmp exceeds the
        # 255-byte limit of a file name while the manifest name itself still fits -- the run ends with an error, and at
        # whatever point it is killed before that, what was recorded stays as it was
        scn["steps"] = [st for st in steps if not st.get("root")] or [{"op": "create", "fmts": ["md5"]}]
        scn["long_root"] = "renamed_" + "x" * 218
        last.pop("sf", None)
    return scn


def run_kill(root_src, base_parent, tag, spec, argv_rel, root_name="r"):
    """copies the prepared tree, runs the interrupted create in a subprocess; -> (work dir, returncode, info | None)"""
    work = os.path.join(base_parent, tag)
    shutil.copytree(root_src, os.path.join(work, root_name), symlinks=True)
    root = os.path.join(work, root_name)
    argv = [os.path.join(root, a[5:]) if a.startswith("ROOT/") else (root if a == "ROOT" else a) for a in argv_rel]
    env = dict(os.environ)
    p = subprocess.run([core.PY, RUNNER, work, json.dumps(spec), json.dumps(argv)], capture_output=True, text=True, timeout=120, env=env)
    info = None
    for ln in p.stdout.splitlines():
        if ln.startswith("CRASHRUN "):
            info = json.loads(ln[9:])
    return work, p.returncode, info, (p.stdout + p.stderr)[-400:]


def state_of(root):
    st = world.hist_state(root)
    for h in st.values():
        h["tmp"] = [f for f in h["other"] if f.endswith(".tmp")]
    return st


def judge(before_state, before_bytes, root, spec, long_root=False):
    """-> list of (signature, what) for the state a kill left behind"""
    bad = []
    after = state_of(root)
    # (1) previously committed manifests byte-identical
    for rel_, data in before_bytes.items():
        p = os.path.join(root, rel_)
        if not os.path.exists(p):
            bad.append(("committed-manifest-removed", f"{rel_} no longer exists"))
        elif open(p, "rb").read() != data:
            bad.append(("committed-manifest-changed", f"bytes of {rel_} changed"))
    for h, b in before_state.items():
        a = after.get(h)
        if a is None:
            bad.append(("history-folder-vanished", h))
            continue
        # (2) the chain still parses and lists every previously committed generation with its digest
        if b["chain"] and isinstance(b["chain"], list):
            if not isinstance(a["chain"], list):
                bad.append(("chain-unreadable-after-kill", f"{h or '.'}: chain file {'missing' if a['chain'] is None else 'does not parse'}"))
            elif a["chain"][: len(b["chain"])] != b["chain"]:
                bad.append(("chain-lost-entries", f"{h or '.'}: previously committed chain entries changed: {a['chain']} vs {b['chain']}"))
    # (3) whole-or-absent + loads normally
    for h, a in after.items():
        b = before_state.get(h)
        new = sorted(set(a["files"]) - set(b["files"] if b else []))
        chain_names = [e[1] for e in a["chain"]] if isinstance(a["chain"], list) else []
        if a["chain"] is None and not (b and b["chain"]):
            if b is None:
                bad.append(("W1:new-history-folder-without-chain", f"{h or '.'}: ascmhl folder exists without chain file (manifests: {sorted(a['files'])})"))
            continue
        for f in new:
            if f not in chain_names:
                bad.append(("W2:unchained-manifest-after-kill", f"{h or '.'}: manifest {f} is in place but the chain does not list it"))
    # the next commands must load the history normally
    remains = {}
    for h, a in after.items():
        for f in a["files"]:
            remains[os.path.join(h, "ascmhl", f)] = open(os.path.join(root, h, "ascmhl", f), "rb").read()
    for cmd, args in (("info", [root]), ("verify", [root]), ("create", [root, "-h", "md5"])):
        if long_root and cmd == "create":
            continue        # ends with 'file name too long' in that folder, killed or not
        oc, out = impl.run_cli(cmd, args)
        if cmd == "create" and oc[0] == "exit" and oc[1] not in (31, 32, 33):
            # the run after the kill is an ordinary create: it must not touch what is there (C06) nor re-use a generation number
            for rel_, data in remains.items():
                p = os.path.join(root, rel_)
                if not os.path.exists(p) or open(p, "rb").read() != data:
                    bad.append(("create-after-kill-changed-manifest", f"the create after the kill changed or removed {rel_}"))
            for h, a2 in state_of(root).items():
                nums = [f.split("_", 1)[0] for f in a2["files"]]
                if len(nums) != len(set(nums)):
                    bad.append(("create-after-kill-duplicate-generation-number", f"{h or '.'}: two manifests carry the same generation number: {sorted(a2['files'])}"))
        if oc[0] == "abort":
            bad.append((f"next-command-aborts:{oc[1]}", f"{cmd} after the kill aborted with {oc[1]}: {out[-200:]}"))
        elif oc[1] in (31, 32, 33):
            sig = "W1:new-history-folder-without-chain" if (oc[1] == 32 and any(s.startswith("W1:") for s, _ in bad)) else f"next-command-refuses:{oc[1]}"
            bad.append((sig, f"{cmd} after the kill exits {oc[1]}"))
            break
    return bad


RULE = ("create (folder mode, sometimes -sf) on trees with 0-3 committed generations, flat and with nested histories, killed by os._exit(137) at EVERY point of the run: "
        "immediately before each write-type audit event (mkdir, open-for-write, os.replace), at each write() into a file under construction (once with the Python buffer "
        "dropped, once flushed with half of the chunk on disk) and before each close(); after every kill: committed manifests compared byte for byte, chain parsed "
        "independently and compared entry for entry, state classified (whole / absent / window W1 / window W2), then info, verify and create are run on the remains. "
        "One scenario in six: the folder renamed to a 226-byte name (manifest name fits, <name>.tmp does not). The uninterrupted run's event trace is compared with the model's operation list. Non-trivial: a kill that happened after the first write event.")
LEVEL_NOTE = "partial by nature: theorems about the model of the write sequence + real kills at every point of sampled runs; power loss below the VFS (no fsync model) is out of reach"


def check(rep, tier, seed):
    n = 12 if tier == "quick" else 120
    scratch = core.Scratch("C15")
    model = world.new_model()
    pool = concurrent.futures.ThreadPoolExecutor(max_workers=12)
    try:
        for i in range(n):
            rng = core.rng_for(seed, f"C15/{i}")
            scn = scenario(rng, i)
            pre = {"tree": scn["tree"], "steps": scn["steps"]}
            io, root = world.run_impl(pre, scratch)
            last = scn["interrupted"]
            full = {"tree": scn["tree"], "steps": scn["steps"] + [last], **({"long_root": scn["long_root"]} if scn.get("long_root") else {})}
            before_state = state_of(root)
            before_bytes = {}
            for h in before_state:
                for f in before_state[h]["files"]:
                    rel_ = os.path.join(h, "ascmhl", f)
                    before_bytes[rel_] = open(os.path.join(root, rel_), "rb").read()
            argv = ["ROOT"]
            for f in last["fmts"]:
                argv += ["-h", f]
            for s in last.get("sf") or []:
                argv += ["-sf", "ROOT/" + s]
            base = scratch.new("k")
            if scn.get("long_root"):
                # a file system with a shorter name limit cannot hold that folder: the scenario runs under the ordinary name then
                try:
                    os.mkdir(os.path.join(base, scn["long_root"]))
                    os.rmdir(os.path.join(base, scn["long_root"]))
                except OSError:
                    rep.count("long_root_unavailable")
                    scn.pop("long_root")
                    full.pop("long_root", None)
            rname = scn.get("long_root") or "r"
            work, rc, info, tail = run_kill(root, base, "count", {"kind": "count"}, argv, rname)
            if info is None:
                rep.disagree({"scenario": full}, None, tail, "the uninterrupted reference run did not finish")
                continue
            # tie to the model: the op trace of the uninterrupted run = the model's op list
            mo = world.run_model(full, model)
            ops = oracles.normalise_audit([[e[0]] + ["r/" + x[2:] if x.startswith("r/") else x for x in e[1:]] for e in info["trace"]])
            want = [[k, p] for k, p in (mo[-1] or {}).get("ops", [])] if mo[-1] else None
            rep.traces += 1
            if scn.get("long_root"):
                rep.count("long_root_scenarios")
                want = None         # the uninterrupted run ends at the first file it cannot name; the model has no name-length limit
            if want is not None and [[k, p] for k, p in ops] != want:
                rep.disagree({"scenario": full}, want, ops, "the sequence of write operations of the uninterrupted run differs from the model's operation list")
            c = info["counts"]
            points = [{"kind": "event", "k": k} for k in range(1, c["event"] + 1)]
            wk = list(range(1, c["write"] + 1))
            if tier == "quick" and len(wk) > 12:
                wk = sorted(set(rng.sample(wk, 10) + [1, c["write"]]))
            for k in wk:
                points += [{"kind": "write", "k": k, "flush": False}, {"kind": "write", "k": k, "flush": True}]
            points += [{"kind": "close", "k": k} for k in range(1, c["close"] + 1)]
            rep.count("kill_points", len(points))
            futs = {pool.submit(run_kill, root, base, f"p{j}", sp, argv, rname): sp for j, sp in enumerate(points)}
            for fut in concurrent.futures.as_completed(futs):
                sp = futs[fut]
                work, rc, inf, tail = fut.result()
                rep.count("kill." + sp["kind"])
                if rc != 137:
                    rep.disagree({"scenario": full, "kill": sp}, 137, rc, "the kill point was not reached: " + tail)
                    continue
                verdicts = judge(before_state, before_bytes, os.path.join(work, rname), sp, long_root=bool(scn.get("long_root")))
                rep.case((i, json.dumps(sp)), nontrivial=not (sp["kind"] == "event" and sp["k"] == 1),
                         sample={"steps": full["steps"], "kill": sp, "verdicts": verdicts} if len(rep.samples) < 3 and verdicts else None)
                for sig, what in verdicts:
                    rep.count("state." + sig.split(":")[0])
                    rep.violate(sig, {"scenario": full, "kill": sp}, "previous generations intact, chain readable, history loads, interrupted generation whole or absent", what,
                                f"after create was killed at {sp}: {what}")
                shutil.rmtree(work, ignore_errors=True)
            shutil.rmtree(base, ignore_errors=True)
    finally:
        pool.shutdown()
        model.close()
        scratch.cleanup()


def replay(rep, data):
    sc = (data.get("scenario") or {})
    scn, sp = sc.get("scenario"), sc.get("kill")
    if not scn or not sp:
        print("replay: nothing to re-run")
        return 0
    scratch = core.Scratch("C15r")
    try:
        pre = {"tree": scn["tree"], "steps": scn["steps"][:-1]}
        last = scn["steps"][-1]
        io, root = world.run_impl(pre, scratch)
        before_state = state_of(root)
        before_bytes = {os.path.join(h, "ascmhl", f): open(os.path.join(root, h, "ascmhl", f), "rb").read() for h in before_state for f in before_state[h]["files"]}
        argv = ["ROOT"] + [x for f in last["fmts"] for x in ("-h", f)] + [x for s in last.get("sf") or [] for x in ("-sf", "ROOT/" + s)]
        rname = scn.get("long_root") or "r"
        work, rc, inf, tail = run_kill(root, scratch.new("k"), "p", sp, argv, rname)
        v = judge(before_state, before_bytes, os.path.join(work, rname), sp, long_root=bool(scn.get("long_root")))
        print("kill", sp, "rc", rc, "verdicts", v)
        return 1 if v else 0
    finally:
        scratch.cleanup()
