"""C13 -- results do not depend on where the tree is mounted or how the OS lists it"""
import copy
import os
import random
import shutil

from .. import core, gen, impl, treecheck, world

FIXED_MTIME = 1_500_000_000
FROZEN = "2021-03-04 05:06:07"


def scenario(rng, i):
    tree = gen.gen_tree(rng, max_entries=12, max_depth=3, simple=(i % 2 == 0), ds_store=(i % 5 == 0))
    if not gen.all_files(tree):
        tree["a.txt"] = {"f": gen.gen_content(rng)}
    steps = []
    dirs = gen.all_dirs(tree)
    # several sibling / nested child histories, created before the parent: their discovery order decides the reference order
    for d in rng.sample(dirs, min(len(dirs), rng.choice([0, 2, 3, 4]))):
        steps.append({"op": "create", "root": d, "fmts": gen.gen_fmts(rng)})
    user_pat = rng.choice([None, None, "*.tmp", "parent*", "x?"])
    for k in range(rng.choice([1, 2])):
        st = {"op": "create", "fmts": gen.gen_fmts(rng)}
        if user_pat and k == 0:
            st["i"] = [user_pat]
        steps.append(st)
    return {"tree": tree, "steps": steps, "user_pattern": user_pat}


def equalise(root):
    for d, dirs, files in os.walk(root, topdown=False):
        for n in files + dirs:
            p = os.path.join(d, n)
            if "ascmhl" in os.path.relpath(p, root).split(os.sep):
                continue
            os.utime(p, (FIXED_MTIME, FIXED_MTIME))
    os.utime(root, (FIXED_MTIME, FIXED_MTIME))


def ascmhl_bytes(root):
    out = {}
    for d, dirs, files in os.walk(root):
        if os.path.basename(d) == "ascmhl":
            for f in files:
                with open(os.path.join(d, f), "rb") as fh:
                    out[os.path.relpath(os.path.join(d, f), root)] = fh.read()
    return out


class Listing:
    """wraps os.listdir / os.scandir so that directory entries come in a chosen order"""

    def __init__(self, order, seed):
        self.order, self.seed = order, seed

    def arrange(self, items, key):
        items = sorted(items, key=key)
        if self.order == "reversed":
            items.reverse()
        elif self.order == "shuffled":
            random.Random(self.seed).shuffle(items)
        return items

    def __enter__(self):
        self.listdir, self.scandir = os.listdir, os.scandir
        me = self

        def listdir(p="."):
            return me.arrange(me.listdir(p), key=lambda x: x)

        class Scan:
            def __init__(s, p):
                with me.scandir(p) as it:
                    s.items = me.arrange(list(it), key=lambda e: e.name)

                s.it = iter(s.items)

            def __iter__(s):
                return s

            def __next__(s):
                return next(s.it)

            def __enter__(s):
                return s

            def __exit__(s, *a):
                return False

            def close(s):
                pass

        def scandir(p="."):
            return Scan(p)

        os.listdir, os.scandir = listdir, scandir
        return self

    def __exit__(self, *a):
        os.listdir, os.scandir = self.listdir, self.scandir


def run_variant(scn, base, variant, listing):
    """materialises the tree at <base>/<parent...>/r and runs the steps; -> (root, outcomes)"""
    from freezegun import freeze_time

    parent = {"plain": "plain", "under_ascmhl": "ascmhl", "under_ascmhl_deep": os.path.join("ascmhl", "nested"),
              # names that mean something to glob / fnmatch / regular expressions / shells
              "under_meta_chars": os.path.join("Card [A001] x*y?", "(b)+{c}^$ \u00e9\u6587"),
              "under_user_pattern": {"*.tmp": "x.tmp", "parent*": "parent1", "x?": "xy"}.get(scn.get("user_pattern") or "", "plain2")}.get(variant, variant)
    pdir = os.path.join(base, parent)
    if variant == "other_fs":
        shutil.rmtree(os.path.join(other_fs_dir(), "c13"), ignore_errors=True)
        pdir = os.path.join(other_fs_dir(), "c13", "r0")
    os.makedirs(pdir, exist_ok=True)
    root = os.path.join(pdir, "r")
    os.mkdir(root)
    world.materialise(scn["tree"], root)
    outcomes = []
    spelling = {"trailing_slash": lambda p: p + os.sep, "relative": lambda p: os.path.relpath(p, pdir), "dot_slash": lambda p: "." + os.sep + os.path.relpath(p, pdir) + os.sep,
                "dot_end": lambda p: p + os.sep + ".", "cwd_dot": lambda p: "."}
    for st in scn["steps"]:
        equalise(root)
        r = os.path.join(root, st.get("root", "")) if st.get("root") else root
        arg = spelling.get(variant, lambda p: p)(r)
        argv = [arg]
        for f in st["fmts"]:
            argv += ["-h", f]
        for p in st.get("i") or []:
            argv += ["-i", p]
        with freeze_time(FROZEN):
            with Listing(*listing):
                outcomes.append(impl.run_cli("create", argv, cwd=pdir if variant in ("relative", "dot_slash") else r if variant == "cwd_dot" else None))
    equalise(root)
    return root, [o for o, _ in outcomes]


_OTHER = []


def other_fs_dir():
    """a scratch folder on a file system other than the one the scratch root (and the system's temp folder) is on, or None"""
    import tempfile
    if not _OTHER:
        _OTHER.append(None)
        here = {os.stat(tempfile.gettempdir()).st_dev, os.stat(os.environ.get("VERIF_SCRATCH", tempfile.gettempdir())).st_dev}
        for cand in (os.environ.get("VERIF_OTHER_FS"), "/dev/shm", "/run/shm", "/var/tmp", os.path.expanduser("~")):
            try:
                if cand and os.path.isdir(cand) and os.access(cand, os.W_OK) and os.stat(cand).st_dev not in here:
                    _OTHER[0] = tempfile.mkdtemp(prefix="vhC13_", dir=cand)
                    break
            except OSError:
                continue
    return _OTHER[0]


VARIANTS = ["under_ascmhl", "under_ascmhl_deep", "under_user_pattern", "under_meta_chars", "trailing_slash", "relative", "dot_slash", "dot_end", "cwd_dot"]
LISTINGS = [("reversed", 0), ("shuffled", 1), ("shuffled", 2)]
RULE = ("the same tree (equalised mtimes, frozen clock) with nested child histories sealed by the same command sequence at a reference location and (a) under a parent folder "
        "named ascmhl / ascmhl/nested / matching the user's own -i pattern, with a trailing slash, by relative path, as ./r/, as r/. and as . from inside the folder, and on another file system than the temp folder (/dev/shm here, when there is one) ; (b) with os.listdir / os.scandir returning "
        "entries reversed and shuffled; every file of every ascmhl folder must be byte-identical to the reference run; a copy of the sealed tree verifies with exit 0 at "
        "another location (verify and diff). The reference run is also compared step by step with the extracted model. Non-trivial: the tree has nested histories or "
        "more than one entry per folder.")


def check(rep, tier, seed):
    n = 40 if tier == "quick" else 400
    scratch = core.Scratch("C13")
    model = world.new_model()
    try:
        for i in range(n):
            rng = core.rng_for(seed, f"C13/{i}")
            scn = scenario(rng, i)
            base = scratch.new("c")
            ref_root, ref_out = run_variant(scn, base, "plain", ("sorted", 0))
            ref = ascmhl_bytes(ref_root)
            if any(o[0] == "abort" for o in ref_out):
                rep.violate("create-aborts", {"scenario": scn, "variant": "plain"}, "exit codes", ref_out, "create aborted with an internal error in the reference run")
                continue
            rep.case(repr(scn), nontrivial=any(s.get("root") for s in scn["steps"]) or len(scn["tree"]) > 1,
                     sample={"steps": scn["steps"], "files_compared": sorted(ref)} if len(rep.samples) < 2 else None)
            # tie to the model: the reference run through the generic engine
            mscn = {"tree": scn["tree"], "steps": scn["steps"]}
            io, _ = world.run_impl(mscn, scratch)
            d = world.first_difference(mscn, io, world.run_model(mscn, model))
            rep.traces += 1
            if d is not None:
                rep.disagree({"scenario": mscn, "step": d[0]}, d[2], d[1], f"model and implementation differ at step {d[0]}")
            runs = [(v, ("sorted", 0)) for v in (VARIANTS if tier == "thorough" or i % 2 == 0 else list(dict.fromkeys(rng.sample(VARIANTS, 3) + ["under_meta_chars"])))]
            runs += [("order_%s%d" % l, l) for l in LISTINGS]
            if other_fs_dir() is not None and (tier == "thorough" or i % 2 == 1):
                runs.append(("other_fs", ("sorted", 0)))        # the same tree on another file system than the system's temp folder
            elif other_fs_dir() is None:
                rep.count("variant.other_fs.unavailable")
            for v, listing in runs:
                rep.count("variant." + v.split("_")[0])
                root, out = run_variant(scn, base, v, listing)
                got = ascmhl_bytes(root)
                if out != ref_out:
                    rep.violate("exit-codes-differ:" + v.rstrip("012"), {"scenario": scn, "variant": v}, ref_out, out, f"create outcomes differ between the reference location and variant {v}")
                    continue
                if v == "other_fs":
                    shutil.rmtree(os.path.join(other_fs_dir(), "c13"), ignore_errors=True)
                if got != ref:
                    diff = sorted(k for k in set(got) | set(ref) if got.get(k) != ref.get(k))
                    k = diff[0]
                    rep.violate("not-byte-identical:" + v.rstrip("012"), {"scenario": scn, "variant": v}, {"file": k, "bytes": (ref.get(k) or b"")[:3000].decode("utf-8", "replace")},
                                {"file": k, "bytes": (got.get(k) or b"")[:3000].decode("utf-8", "replace")}, f"{len(diff)} file(s) of the ascmhl folders differ from the reference run in variant {v}: {diff[:4]}")
            # a relocated copy verifies
            moved = os.path.join(base, "moved", "elsewhere") if i % 2 else os.path.join(base, "moved [b] *?", "else{w}here (1)")
            os.makedirs(os.path.dirname(moved))
            shutil.copytree(ref_root, moved)
            for cmd in ("verify", "diff"):
                oc, text = impl.run_cli(cmd, [moved])
                rep.count("relocated." + cmd)
                if list(oc) != ["exit", 0]:
                    rep.violate("relocated-copy-fails", {"scenario": scn, "command": cmd}, ["exit", 0], list(oc), f"{cmd} of a sealed tree copied to another location does not exit 0: {text[-300:]}")
            shutil.rmtree(base, ignore_errors=True)
    finally:
        model.close()
        scratch.cleanup()
        if _OTHER and _OTHER[0]:
            shutil.rmtree(_OTHER[0], ignore_errors=True)
            _OTHER.clear()


def replay(rep, data):
    scn = (data.get("scenario") or {}).get("scenario")
    if not scn:
        print("replay: nothing to re-run")
        return 0
    sc = core.Scratch("C13r")
    try:
        base = sc.new("c")
        ref_root, ref_out = run_variant(scn, base, "plain", ("sorted", 0))
        ref = ascmhl_bytes(ref_root)
        v = data["scenario"].get("variant", "under_ascmhl")
        listing = ("sorted", 0)
        if v.startswith("order_"):
            listing = (v[6:-1], int(v[-1]))
        root, out = run_variant(scn, base, v, listing)
        got = ascmhl_bytes(root)
        same = got == ref and out == ref_out
        print("variant", v, "byte-identical" if same else "DIFFERS", out, ref_out)
        return 0 if same else 1
    finally:
        sc.cleanup()
