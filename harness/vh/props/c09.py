"""C09 -- directory-hash verification detects any change anywhere in the tree"""
import copy

from .. import defects, gen, oracles, world
from ._tree import make


def scenario(rng, i):
    flat = i % 4 == 0
    tree = gen.gen_tree(rng, max_entries=10, max_depth=0 if flat else 3)
    if not gen.all_files(tree):
        tree["a.txt"] = {"f": gen.gen_content(rng)}
    cur = copy.deepcopy(tree)
    steps = []
    dirs = gen.all_dirs(cur)
    same = rng.random() < 0.6
    fm = gen.gen_fmts(rng)
    for d in rng.sample(dirs, min(len(dirs), rng.choice([0, 0, 1, 2]))):
        steps.append({"op": "create", "root": d, "fmts": fm if same else gen.gen_fmts(rng), **({"n": True} if rng.random() < 0.15 else {})})
    # recorded ignore patterns (with matching entries on disk) -- only where no nested history was sealed from inside first: hashes
    # recorded by a run started in a sub-folder were computed under THAT run's patterns (the property speaks of one view)
    pats = (["*.tmp", "a?", "notes", "Sound/"] + gen.path_patterns(tree, rng, k=2)) if i % 5 == 3 and not steps else None
    for k in range(rng.choice([1, 1, 2, 3])):
        steps.append({"op": "create", "fmts": fm if same else gen.gen_fmts(rng), **({"n": True} if rng.random() < 0.15 else {}),
                      **({"i": rng.sample(pats, 2)} if pats and k == 0 else {})})
    steps.append({"op": "verifydh"})
    if rng.random() < 0.8:
        e = gen.gen_edit(rng, cur, kinds=("set", "rename", "add", "delete"))
        steps.append(e)
        cur = world.tree_apply(cur, e)
        steps.append({"op": "verifydh"})
        if rng.random() < 0.3:
            steps.append({"op": "verifydh", "fmt": rng.choice(gen.FORMATS)})
    return {"tree": tree, "steps": steps}


RULE = ("sealed trees (a quarter of them flat folders), 1-3 generations with one or several format sets, nested histories, -n generations; verify -dh on the "
        "unchanged tree, then one mutation (content, rename, add, remove) at a random depth incl. the root folder and verify -dh again; oracle: recorded "
        "directory hashes vs an independent evaluation on the current tree. Non-trivial: the scenario contains a mutation.")
# recorded inputs that run first on every run (known finding: root history without directory hashes)
CORPUS = [{"tree": {"Ab": {"d": {"k.txt": {"f": "6b"}}}}, "steps": [{"op": "create", "root": "Ab", "fmts": ["xxh64"]}, {"op": "create", "fmts": ["md5"], "n": True},
                                                                  {"op": "add", "path": "Ab/x", "data": "885a"}, {"op": "verifydh"}]},
          # names that mean something to printf-style / str.format message formatting: the mismatch must be reported, not crash
          {"tree": {"proxies 50%": {"d": {"a.bin": {"f": "0102"}, "%s {0}": {"d": {"b.bin": {"f": "03"}}}}}, "x%d": {"f": "04"}},
           "steps": [{"op": "create", "fmts": ["md5"]}, {"op": "set", "path": "proxies 50%/%s {0}/b.bin", "data": "ff"}, {"op": "verifydh"}, {"op": "verify"}, {"op": "diff"},
                     {"op": "delete", "path": "x%d"}, {"op": "verifydh"}, {"op": "verify"}, {"op": "create", "fmts": ["md5"]}]}]
# entries whose names start with "._" are entries like any other (no ignore pattern names them): at the root, in a sub-folder,
# beside a file of the same name without the prefix, and alone
CORPUS += [{"tree": {"._a001.mov": {"f": "0101"}, "a001.mov": {"f": "0202"}, "Reel": {"d": {"._x.bin": {"f": "0303"}, "y.bin": {"f": "0404"}}}},
            "steps": [{"op": "create", "fmts": ["md5", "c4"]}, {"op": "verifydh"}, {"op": "set", "path": "._a001.mov", "data": "aa"}, {"op": "verifydh"},
                      {"op": "create", "fmts": ["md5", "c4"]}, {"op": "delete", "path": "Reel/._x.bin"}, {"op": "verifydh"}, {"op": "verify"}]}]
# a recorded ignore pattern with a matching entry on disk: the entry stays out of the hashes when they are recomputed, too
CORPUS += [{"tree": {"keep.bin": {"f": "0101"}, "cache.tmp": {"f": "0202"}, "Sub": {"d": {"x.bin": {"f": "03"}, "scratch": {"d": {"y.bin": {"f": "04"}}}}}},
            "steps": [{"op": "create", "fmts": ["md5", "c4"], "i": ["*.tmp", "Sub/scratch"]}, {"op": "verifydh"}, {"op": "verifydh", "co": True},
                      {"op": "set", "path": "cache.tmp", "data": "ff"}, {"op": "verifydh"}, {"op": "set", "path": "Sub/x.bin", "data": "aa"}, {"op": "verifydh"}]}]
def linked_files(rep, tier, seed):
    """an entry that is a symbolic link to a file is an entry like any other for the tool (its content is hashed under the
    link's name): a change that touches only such an entry is found by verify -dh (implementation only; the model has no links)"""
    import os
    import shutil

    from .. import core, impl

    sc = core.Scratch("C09l")
    try:
        for fmts in (["md5"], ["c4", "xxh64"]):
            base = sc.new("l")
            root = os.path.join(base, "r")
            os.makedirs(os.path.join(root, "Sub", "Deep"))
            for rel, data in (("a.bin", b"aa"), ("Sub/b.bin", b"bb"), ("Sub/Deep/c.bin", b"cc")):
                with open(os.path.join(root, rel), "wb") as fh:
                    fh.write(data)
            for k, where in enumerate(("", "Sub", "Sub/Deep")):
                with open(os.path.join(base, "outside%d.bin" % k), "wb") as fh:
                    fh.write(b"content behind link %d" % k)
                os.symlink(os.path.join(base, "outside%d.bin" % k), os.path.join(root, where, "link%d.bin" % k))
            argv = [root]
            for f in fmts:
                argv += ["-h", f]
            oc, out = impl.run_cli("create", argv)
            oc2, out2 = impl.run_cli("verify", [root, "-dh"])
            rep.case(("links", tuple(fmts), "unchanged"), sample=None)
            rep.count("c09.links.unchanged")
            if list(oc) != ["exit", 0] or list(oc2) != ["exit", 0]:
                rep.violate("dh-links-unchanged", {"scenario": "tree with links to files outside it, create then verify -dh", "fmts": fmts}, ["exit", 0], [list(oc), list(oc2)],
                            "create / verify -dh on an unchanged tree that contains links to files do not exit 0: " + (out + out2)[-300:])
                continue
            sealed = os.path.join(base, "sealed")
            shutil.copytree(root, sealed, symlinks=True)
            for k, where in enumerate(("", "Sub", "Sub/Deep")):
                link = os.path.join(root, where, "link%d.bin" % k)
                for name, do in (("content", lambda: open(os.path.join(base, "outside%d.bin" % k), "ab").write(b"!")),
                                 ("rename", lambda: os.rename(link, link + "x")),
                                 ("remove", lambda: os.remove(link)),
                                 ("add", lambda: os.symlink(os.path.join(base, "outside%d.bin" % k), os.path.join(root, where, "new_link.bin")))):
                    do()
                    oc, out = impl.run_cli("verify", [root, "-dh"])
                    rep.case(("links", tuple(fmts), where, name), nontrivial=True, sample=None)
                    rep.count("c09.links." + name)
                    if list(oc) != ["exit", 12]:
                        rep.violate("dh-missed-change-link", {"scenario": f"link to a file in folder '{where or '.'}'; mutation: {name}", "fmts": fmts}, ["exit", 12], list(oc),
                                    f"verify -dh does not exit 12 after the only change touched an entry that is a link to a file ({name} in '{where or '.'}')")
                    # back to the sealed state
                    shutil.rmtree(root)
                    shutil.copytree(sealed, root, symlinks=True)
                    with open(os.path.join(base, "outside%d.bin" % k), "wb") as fh:
                        fh.write(b"content behind link %d" % k)
            shutil.rmtree(base, ignore_errors=True)
    finally:
        sc.cleanup()


check, replay = make("C09", oracles.oracle_c09, scenario, 70, 2000, RULE, extra=linked_files,
                     corpus_defects=[defects.d02_c09_flat_root_change, defects.d03_c09_mixed_format_child, defects.d04_c09_no_dirhash_generation],
                     nontrivial=lambda scn, obs: any(s["op"] in ("set", "rename", "add", "delete") for s in scn["steps"]), corpus=CORPUS)
