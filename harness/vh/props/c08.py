"""C08 -- nested histories partition the tree and reference each other correctly"""
import copy

from .. import gen, oracles, world
from ._tree import make

NEST_NAMES = ["A", "AB", "A B", "Ab", "B", "a", "Clips", "Sound"]


def scenario(rng, i):
    # a tree with directories whose names are prefixes of each other, histories created in random order at several depths
    def level(depth):
        t = {}
        for n in rng.sample(NEST_NAMES, rng.choice([1, 2, 3])):
            if depth < 3 and rng.random() < 0.6:
                t[n] = {"d": level(depth + 1)}
            else:
                t[n] = {"d": {}}
        for n in rng.sample(["x.txt", "y.bin", "z z.mov"], rng.choice([0, 1, 2])):
            t[n] = {"f": gen.gen_content(rng)}
        return t

    tree = level(0)
    dirs = gen.all_dirs(tree)
    steps = []
    for d in rng.sample(dirs, min(len(dirs), rng.choice([1, 2, 3, 4]))):
        steps.append({"op": "create", "root": d, "fmts": gen.gen_fmts(rng), **({"n": True} if rng.random() < 0.15 else {})})
    cur = copy.deepcopy(tree)
    for _ in range(rng.choice([1, 2, 3])):
        st = {"op": "create", "fmts": gen.gen_fmts(rng)}
        r = rng.random()
        files = gen.all_files(cur)
        if r < 0.35 and files:
            st["sf"] = rng.sample(files, min(len(files), rng.choice([1, 2])))
        elif r < 0.5:
            st["n"] = True
        elif r < 0.6 and dirs:
            st["root"] = rng.choice(dirs)
        steps.append(st)
        if rng.random() < 0.4:
            e = gen.gen_edit(rng, cur, kinds=("add", "set"))
            steps.append(e)
            cur = world.tree_apply(cur, e)
    steps.append({"op": "verify"})
    return {"tree": tree, "steps": steps}


RULE = ("trees of directories named A, AB, 'A B', Ab, ... (string prefixes of each other) to depth 4, nested histories created in random order at random "
        "depths (with / without -n), then create in folder mode, -sf mode and on sub-roots; oracle: each record in the deepest containing history, child root "
        "entry = child's root hash, references = direct children that wrote (relative path, generation, c4 of the file's bytes on disk), commit set. "
        "Non-trivial: at least two histories wrote in one run.")
check, replay = make("C08", oracles.oracle_c08, scenario, 60, 1500, RULE,
                     nontrivial=lambda scn, obs: any(len(o.get("written", [])) >= 2 for o in obs))
