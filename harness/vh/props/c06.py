"""C06 -- histories are append-only and generations are numbered without gaps"""
import copy

from .. import gen, oracles, world
from ._tree import make


def scenario(rng, i):
    """up to 12 create / create -sf runs (several per clock second -- the real clock runs), succeeding or ending with
    10 / 11, interleaved with tree edits, over flat and nested histories; info at the end"""
    tree = gen.gen_tree(rng, max_entries=10, max_depth=3, simple=(i % 2 == 0), ds_store=False)
    if not gen.all_files(tree):
        tree["a.txt"] = {"f": gen.gen_content(rng)}
    cur = copy.deepcopy(tree)
    steps = []
    dirs = gen.all_dirs(cur)
    for d in rng.sample(dirs, min(len(dirs), rng.choice([0, 0, 1, 2]))):
        steps.append({"op": "create", "root": d, "fmts": gen.gen_fmts(rng)})
    n = rng.choice([2, 3, 4, 6, 9, 12]) if i % 7 else 12
    for k in range(n):
        st = {"op": "create", "fmts": gen.gen_fmts(rng)}
        files = gen.all_files(cur)
        r = rng.random()
        if r < 0.25 and files:
            st["sf"] = rng.sample(files, min(len(files), rng.choice([1, 2])))
        elif r < 0.35 and gen.all_dirs(cur):
            st["root"] = rng.choice(gen.all_dirs(cur))
        steps.append(st)
        if rng.random() < 0.5:
            e = gen.gen_edit(rng, cur, kinds=("set", "add", "delete", "touch"))
            steps.append(e)
            cur = world.tree_apply(cur, e)
    steps.append({"op": "info"})
    if i % 6 == 1:
        # the history is continued under other time zones (the creation dates then carry different UTC offsets): generations
        # are ordered by their NUMBER
        zones = ["JST-9", "UTC0", "<-12>12", "<+14>-14", "EST5EDT"]
        k = 0
        for j in range(len(steps) - 1, -1, -1):
            if steps[j]["op"] == "create":
                steps.insert(j, {"op": "tz", "tz": zones[k % len(zones)]})
                k += 1
    scn = {"tree": tree, "steps": steps}
    if i % 4 == 2:
        scn["tz"] = rng.choice(["JST-9", "EST5EDT", "IST-5:30", "NST3:30"])       # the stamp in the file name is UTC wherever the tool runs
    return scn


RULE = ("sequences of 2-12 create / create -sf runs (real clock: several runs per second; runs end with 0, 10 or 11) interleaved with edits, flat and nested; before / "
        "after every run the c4 of every manifest's bytes and the parsed chain of every history are taken from disk with an independent reader; oracle: existing manifests "
        "byte-identical, at most one new manifest per history, numbered max+1, named NNNN_<folder>_<UTC>Z.mhl, chain = old entries unchanged + exactly one entry "
        "(number, file name, c4 of the new file's actual bytes), no stray file in ascmhl/, info lists 1..n ascending. Non-trivial: >= 3 create runs.")
# recorded inputs that run first on every run: a folder whose NAME contains a line feed, a dot, blanks, digits and underscores, or
# characters that other file systems reserve (the manifest is named after the folder AS IT IS CALLED) --
# the manifests of every generation must be found again (numbering continues, nothing is overwritten)
CORPUS = [{"root_name": rn, "tree": {"a.txt": {"f": "4141"}, "b": {"d": {"c.bin": {"f": "42"}}}},
           "steps": [{"op": "create", "fmts": ["md5"]}, {"op": "create", "fmts": ["md5"]}, {"op": "add", "path": "n.txt", "data": "4e"},
                     {"op": "create", "fmts": ["xxh64"]}, {"op": "verify"}] + ([] if any(c in rn for c in "\n\u2028\u2029\u0085") else [{"op": "info"}])}
          for rn in ("two\nlines", "A001.RDM 2 _0007_", "0001_x", 'Day 1: "Scene" 4?', "cam<1>|B*", "back\\slash & co", "a\u2028b", "x\u0085y \u2029z")]
check, replay = make("C06", oracles.oracle_c06, scenario, 40, 800, RULE, snap=True, corpus=CORPUS,
                     nontrivial=lambda scn, obs: sum(1 for s in scn["steps"] if s["op"] == "create") >= 3)
