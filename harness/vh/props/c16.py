"""C16 -- recorded size and timestamps describe the real file in any time zone.

The real tool runs in child processes whose TZ is set before the interpreter starts (harness/vh/tzrun.py): UTC, fixed
offsets of both signs (one with minutes, one with seconds), IANA zones with daylight saving in both hemispheres, and POSIX
rule strings whose switch dates are computed from TODAY, so that "now" lies before / after a switch -- and even inside
the repeated hour or just behind the skipped one -- without faking the clock.  Files get sizes {0, 1, 2^20+1, random} and
modification times on both sides of switches, inside the repeated hour, next to the skipped one, in January / July of
several years.

ORACLE (independent of the model): size attribute == os.stat size, present also for 0; every lastmodificationdate /
hashdate / <creationdate> is a well-formed ISO-8601 value (regex + datetime.fromisoformat), denotes the stat instant
(mtime floored to the second, as the tool truncates) resp. an instant inside the run's wall-clock window, and carries the
UTC offset the zone has AT THAT INSTANT (time.localtime(t).tm_gmtoff evaluated in a child with the same TZ -- the C
library's view of the zone -- cross-checked with zoneinfo for IANA names); the manifest's file name carries the UTC time.

CORRESPONDENCE: the same instants with the zone's transition table (derived from the C library, handed to Model/Time.v's
off_table) go through the EXTRACTED Coq model (ocaml/time_driver): the attribute texts the model prints must be
character-for-character what the tool wrote; model and tool must agree on datetime_isostring for arbitrary naive
values (both folds, inside gaps and folds), on the size attribute and on what the tool's parser reads back."""
import calendar
import datetime
import json
import os
import re
import subprocess
import time
import xml.etree.ElementTree as ET
from concurrent.futures import ThreadPoolExecutor
from fractions import Fraction

from .. import core

RULE = ("for every zone, file and date attribute: oracle (stat size / stat mtime / run window / zone offset at the instant, "
        "from libc) and extracted-model text must both equal what the tool wrote")
LEVEL_NOTE = ("proof: Coq theorems over an arbitrary offset function (regular around the instant), all instants, all sizes; "
              "tied to the code by running the extracted model on the instants of real runs in 12+ time zones")
EXTRA_TRUSTED = [
    "C16: the zone as the C library sees it (time.localtime().tm_gmtoff in a child process with the same TZ) is the reference for "
    "'offset in force at that instant'; its transition table is what the model's off_table receives",
    "C16: CPython datetime is modelled (fromtimestamp fold detection, local_to_seconds, gap rule variant probed at run time, "
    "format_utcoffset, ord_to_ymd, strftime %Y%m%d%H%M%S); float -> microsecond rounding of os.path.getmtime is not modelled "
    "(the harness sets whole-microsecond mtimes)",
    "C16: ocaml/time_driver.ml glue; harness/vh/tzrun.py child runner",
]

NS = "{urn:ASC:MHL:v2.0}"
TIME_DRIVER = os.path.join(core.VERIF, "ocaml", "time_driver")
ISO_RE = re.compile(r"^\d{4}-\d\d-\d\dT\d\d:\d\d:\d\d(\.\d{6})?[+-]\d\d:\d\d(:\d\d)?$")
NAME_RE = re.compile(r"^(\d{4})_(.*)_(\d{4})-(\d\d)-(\d\d)_(\d\d)(\d\d)(\d\d)Z\.mhl$", re.S)
EPOCH = datetime.datetime(1970, 1, 1, tzinfo=datetime.timezone.utc)
US = datetime.timedelta(microseconds=1)
SCAN_LO = calendar.timegm((1985, 1, 1, 0, 0, 0))
SCAN_HI = calendar.timegm((2040, 1, 1, 0, 0, 0))
MT_LO = calendar.timegm((1990, 1, 1, 0, 0, 0))
MT_HI = calendar.timegm((2037, 12, 1, 0, 0, 0))


# ------------------------------------------------------------------------------------------------ the model


class TimeModel:
    def __init__(self):
        self.p = subprocess.Popen([TIME_DRIVER], stdin=subprocess.PIPE, stdout=subprocess.PIPE, text=True, bufsize=1)

    def call(self, line):
        self.p.stdin.write(line + "\n")
        self.p.stdin.flush()
        out = self.p.stdout.readline()
        if not out.startswith("R "):
            raise RuntimeError(f"time driver: unexpected reply {out!r} to {line!r}")
        return out[2:].rstrip("\n")

    def close(self):
        try:
            self.p.stdin.close()
            self.p.wait(timeout=5)
        except Exception:  # noqa
            self.p.kill()


def build_driver():
    """Extract/ExtractTime.vo -> ocaml/time_model.ml -> ocaml/time_driver (rebuilt when the model changed)"""
    with core.BuildLock():
        coq = core.COQ
        if not os.path.exists(os.path.join(coq, "Makefile")):
            core.run(["coq_makefile", "-f", "_CoqProject", "-o", "Makefile"], 60, cwd=coq)
        rc, out, err = core.run(["make", "-j16", "Extract/ExtractTime.vo"], 1500, cwd=coq)
        if rc != 0:
            raise RuntimeError("extraction of the time model failed: " + (out + err)[-1200:])
        src = [os.path.join(core.VERIF, "ocaml", f) for f in ("time_model.ml", "time_driver.ml")]
        if not os.path.exists(TIME_DRIVER) or any(os.path.getmtime(s) > os.path.getmtime(TIME_DRIVER) for s in src):
            rc, out, err = core.run([os.path.join(core.VERIF, "ocaml", "build.sh")], 600)
            if rc != 0 or not os.path.exists(TIME_DRIVER):
                raise RuntimeError("time driver build failed: " + (out + err)[-1200:])


# ------------------------------------------------------------------------------------------------ children


def child(tz, ops):
    env = dict(os.environ)
    env["TZ"] = tz
    env["PYTHONPATH"] = core.REPO + os.pathsep + os.path.join(core.VERIF, "harness")
    p = subprocess.run([core.PY, "-m", "vh.tzrun"], input=json.dumps({"repo": core.REPO, "ops": ops}), capture_output=True, text=True, env=env,
                       timeout=600, cwd=os.path.join(core.VERIF, "harness"))
    if p.returncode != 0:
        raise RuntimeError(f"child with TZ={tz!r} failed: {(p.stdout + p.stderr)[-1500:]}")
    return json.loads(p.stdout)


# ------------------------------------------------------------------------------------------------ zones


def julian_no_leap(d):
    """the POSIX Jn day (1..365, 29 February never counted) of a date"""
    y = d.timetuple().tm_yday
    if calendar.isleap(d.year) and y >= 60:
        y -= 1
    return max(1, min(365, y))


def hms(d):
    return f"{d.hour}:{d.minute:02d}:{d.second:02d}"


def zone_list(tier, now, rng=None):
    """[(label, TZ string, IANA name or None)] -- `now` is an aware UTC datetime"""
    j = julian_no_leap(now)
    k = j - 40 if j > 182 else j + 40
    far = k
    # switches placed around this very moment (std = UTC+1, dst = UTC+2)
    back_20min_ago = now + datetime.timedelta(hours=2) - datetime.timedelta(minutes=20)     # local DST time of the end rule
    back_in_20min = now + datetime.timedelta(hours=2) + datetime.timedelta(minutes=20)
    fwd_5min_ago = now + datetime.timedelta(hours=1) - datetime.timedelta(minutes=5)        # local standard time of the start rule
    zs = [
        ("UTC", "UTC", "UTC"),
        ("fixed+05:45", "<+0545>-5:45", None),
        ("fixed-03:30", "<-0330>3:30", None),
        ("fixed+00:53:28", "<LMT>-0:53:28", None),
        ("Europe/Berlin", "Europe/Berlin", "Europe/Berlin"),
        ("America/New_York", "America/New_York", "America/New_York"),
        ("Australia/Sydney", "Australia/Sydney", "Australia/Sydney"),
        ("rule:now-after-dst", f"XXX-1YYY,J1,J{k}" if j > 182 else f"XXX-1YYY,J{k},J365", None),
        ("rule:now-in-dst", f"XXX-1YYY,J{k},J365" if j > 182 else f"XXX-1YYY,J1,J{k}", None),
        ("rule:now-in-repeated-hour-2nd", f"XXX-1YYY,J{far},J{julian_no_leap(back_20min_ago)}/{hms(back_20min_ago)}", None),
        ("rule:now-in-repeated-hour-1st", f"XXX-1YYY,J{far},J{julian_no_leap(back_in_20min)}/{hms(back_in_20min)}", None),
        ("rule:now-just-after-gap", f"XXX-1YYY,J{julian_no_leap(fwd_5min_ago)}/{hms(fwd_5min_ago)},J{far}", None),
        ("rule:southern-wrap", "SSS-10TTT,J300,J60", None),
        # a zone whose offset is exactly +00:00 for half of the year and +01:00 now (London, Lisbon), and the reverse
        ("rule:zero-offset-other-half", f"GGG0HHH,J{k},J365" if j > 182 else f"GGG0HHH,J1,J{k}", None),
        ("rule:zero-offset-now", f"GGG0HHH,J1,J{k}" if j > 182 else f"GGG0HHH,J{k},J365", None),
    ]
    if tier == "thorough":
        for n in ["Asia/Kolkata", "Asia/Kathmandu", "Pacific/Chatham", "America/St_Johns", "Australia/Lord_Howe", "Europe/Dublin",
                  "America/Sao_Paulo", "Antarctica/Troll", "Pacific/Apia", "Africa/Casablanca", "Europe/London", "Asia/Tehran",
                  "America/Santiago", "Pacific/Auckland", "Europe/Moscow"]:
            zs.append((n, n, n))
        try:
            import zoneinfo

            names = sorted(z for z in zoneinfo.available_timezones() if "/" in z and not z.startswith(("Etc/", "posix/", "right/", "SystemV/")))
            have = {z[0] for z in zs}
            for n in (rng.sample(names, min(20, len(names))) if rng else []):
                if n not in have:
                    zs.append((n, n, n))
        except Exception:  # noqa
            pass
        zs += [
            ("rule:negative-dst-30min", f"AAA3:30BBB3,J{k}/0,J{(k + 150) % 365 + 1}/0", None),
            ("rule:dst-2h", f"CCC-2DDD-4,J{(k + 100) % 365 + 1},J{k}", None),
        ]
    return zs


# ------------------------------------------------------------------------------------------------ scenario


def off_at(base, table, t):
    o = base
    for tt, oo in table:
        if t < tt:
            break
        o = oo
    return o


def pick_mtimes(rng, tier, base, table, now_s):
    """[(instant_us, tag)]"""
    out = []
    years = rng.sample(range(1991, 2037), 4 if tier == "quick" else 10) + [time.gmtime(now_s).tm_year]
    for y in years:
        for mo in (1, 7):
            out.append((calendar.timegm((y, mo, 15, rng.randrange(24), rng.randrange(60), rng.randrange(60))), f"month{mo:02d}"))
    inside = [(i, t, o) for i, (t, o) in enumerate(table) if MT_LO < t < MT_HI]
    chosen = []
    if inside:
        near = sorted(inside, key=lambda x: abs(x[1] - now_s))[:2]
        chosen = near + rng.sample(inside, min(len(inside), 3 if tier == "quick" else 8))
    for i, t, o in chosen:
        prev = table[i - 1][1] if i > 0 else base
        shift = abs(prev - o)
        kind = "fallback" if o < prev else "forward"
        pts = [t - shift - 1, t - shift, t - shift // 2, t - 1, t, t + 1, t + shift // 2, t + shift - 1, t + shift]
        if tier == "quick":
            pts = [t - 1, t] + rng.sample(pts, 4)
        for pnt in sorted(set(pts)):
            rel = "before" if pnt < t else "after"
            near_sw = (t - shift <= pnt < t + shift)
            out.append((pnt, f"{kind}:{rel}" + (":within-shift" if near_sw else "")))
    for _ in range(3 if tier == "quick" else 10):
        out.append((rng.randrange(MT_LO, MT_HI), "random"))
    out.append((now_s - 10, "recent"))
    if tier == "thorough":
        out.append((-86400 * 200 - 1, "before-epoch"))
    res = []
    for s, tag in out:
        us = rng.choice([0, 0, 1, 999999, rng.randrange(1000000)])
        res.append((s * 1000000 + us, tag))
    return res


def build_tree(rng, root, mtimes):
    """files in root and two sub-folders; -> (files {rel: (size, mtime_us, tag)}, dirs {rel: (mtime_us, tag)})"""
    os.makedirs(os.path.join(root, "sub", "deeper"))
    places = ["", "sub", os.path.join("sub", "deeper")]
    sizes_cycle = [0, 1, None, 0, None, None]
    files, big_done = {}, False
    file_m, dir_m = mtimes[:-2], mtimes[-2:]
    for i, (mt, tag) in enumerate(file_m):
        n = sizes_cycle[i % len(sizes_cycle)]
        if n is None:
            if not big_done:
                n, big_done = 2 ** 20 + 1, True
            else:
                n = rng.randrange(2, 5000)
        rel = os.path.join(places[i % 3], f"f{i:03d}.bin")
        with open(os.path.join(root, rel), "wb") as fh:
            fh.write(rng.randbytes(n))
        files[rel] = (n, mt, tag)
    for rel, (n, mt, tag) in files.items():
        os.utime(os.path.join(root, rel), ns=(mt * 1000, mt * 1000))
    # a file reached through a symbolic link: its record states the size and the modification time of the CONTENT that is hashed
    target = next((r for r, (n, _, _) in files.items() if n not in (0, 1) and os.path.dirname(r) == "sub"), None)
    if target is not None:
        os.symlink(os.path.basename(target), os.path.join(root, "sub", "zz_link.bin"))
        files[os.path.join("sub", "zz_link.bin")] = files[target]
    dirs = {}
    for rel, (mt, tag) in zip([os.path.join("sub", "deeper"), "sub"], dir_m):
        os.utime(os.path.join(root, rel), ns=(mt * 1000, mt * 1000))
        dirs[rel] = (mt, tag)
    return files, dirs


def read_manifest_raw(path):
    """independent reader (xml.etree): raw attribute texts"""
    root = ET.parse(path).getroot()
    out = {"creationdate": None, "files": {}, "dirs": {}, "hashdates": []}
    ci = root.find(NS + "creatorinfo")
    if ci is not None and ci.find(NS + "creationdate") is not None:
        out["creationdate"] = ci.find(NS + "creationdate").text
    pi = root.find(NS + "processinfo")
    if pi is not None:
        rh = pi.find(NS + "roothash")
        if rh is not None:
            for part in rh:
                for e in part:
                    if e.attrib.get("hashdate"):
                        out["hashdates"].append(("roothash", e.attrib["hashdate"]))
    hs = root.find(NS + "hashes")
    for h in (hs if hs is not None else []):
        pe = h.find(NS + "path")
        if pe is None:
            continue
        kind = "dirs" if h.tag == NS + "directoryhash" else "files"
        out[kind][pe.text] = {"size": pe.attrib.get("size"), "lastmod": pe.attrib.get("lastmodificationdate")}
        for e in h.iter():
            if e.attrib.get("hashdate"):
                out["hashdates"].append((pe.text, e.attrib["hashdate"]))
    return out


def parse_iso(txt):
    """-> (instant_us, offset_s) by the standard library, or None"""
    if txt is None or not ISO_RE.match(txt):
        return None
    try:
        d = datetime.datetime.fromisoformat(txt)
    except ValueError:
        return None
    if d.tzinfo is None:
        return None
    off = d.utcoffset()
    return (d - EPOCH) // US, off.days * 86400 + off.seconds


def stat_mtime_us(path):
    """the microsecond the tool's datetime.fromtimestamp(os.path.getmtime(p)) sees: round-half-even of the float"""
    f = Fraction(os.path.getmtime(path)) * 1000000
    fl = f.numerator // f.denominator
    r = f - fl
    if r > Fraction(1, 2) or (r == Fraction(1, 2) and fl % 2 == 1):
        fl += 1
    return fl


# ------------------------------------------------------------------------------------------------ one zone


class Events:
    """what one zone run found; merged into the Report by the main thread"""

    def __init__(self):
        self.cases, self.counts, self.disagree, self.violate, self.notes = [], {}, [], [], []
        self.now = None

    def count(self, k, n=1):
        self.counts[k] = self.counts.get(k, 0) + n


def run_zone(label, tz, iana, tier, seed, scratch_root, gap_rule):
    ev = Events()
    rng = core.rng_for(seed, "c16/" + label)
    now_s = int(time.time())
    # --- the zone as libc sees it
    r = child(tz, [{"op": "transitions", "lo": SCAN_LO, "hi": SCAN_HI}])
    base, table = r["replies"][0]["base"], [tuple(x) for x in r["replies"][0]["table"]]
    model = TimeModel()
    try:
        model.call(f"GAPRULE {gap_rule}")
        zline = "ZONE %d %s" % (base, ",".join(f"{t}:{o}" for t, o in table) if table else "-")
        regular = model.call(zline)
        ev.count("zone.table_ok=" + regular)
        ev.count("zone.transitions", len(table))
        if regular != "ok":
            ev.notes.append(f"{label}: transition table is outside table_ok (theorem hypothesis not established for this zone; correspondence and oracle still run)")
        # --- scenario
        root = os.path.join(scratch_root, re.sub(r"[^A-Za-z0-9]+", "_", label))
        os.makedirs(root)
        mts = pick_mtimes(rng, tier, base, table, now_s)
        rng.shuffle(mts)
        files, dirs = build_tree(rng, root, mts)
        # --- library-level probes of datetime_isostring: naive values around switches, both folds, inside gaps too
        probes = []
        inside = [(i, t, o) for i, (t, o) in enumerate(table) if MT_LO < t < MT_HI]
        for i, t, o in (rng.sample(inside, min(len(inside), 3 if tier == "quick" else 8)) if inside else []):
            prev = table[i - 1][1] if i > 0 else base
            lo_w, hi_w = sorted((t + prev, t + o))
            for w in {lo_w - 1, lo_w, (lo_w + hi_w) // 2, hi_w - 1, hi_w, hi_w + 1}:
                for fold in (0, 1):
                    probes.append((w, rng.choice([0, 7, 999999]), fold, rng.choice([0, 1])))
        for _ in range(4):
            probes.append((rng.randrange(MT_LO, MT_HI), rng.randrange(1000000), rng.choice([0, 1]), rng.choice([0, 1])))
        values = []
        for w, us, fold, keep in probes:
            g = time.gmtime(w)
            values.append([g.tm_year, g.tm_mon, g.tm_mday, g.tm_hour, g.tm_min, g.tm_sec, us, fold, keep])
        # --- run the real tool
        r = child(tz, [{"op": "create", "root": root, "args": ["-h", "md5", root]}, {"op": "isostring", "values": values}, {"op": "now_strings"}])
        run, iso_rep, now_rep = r["replies"]
        scen = {"zone": label, "TZ": tz}
        if run["outcome"] != ["exit", 0]:
            ev.disagree.append((scen, "exit 0", run["outcome"], "create did not succeed: " + run.get("output", "")))
            return ev
        d = os.path.join(root, "ascmhl")
        names = [f for f in os.listdir(d) if f.endswith(".mhl")]
        if len(names) != 1:
            ev.disagree.append((scen, "one manifest", names, "unexpected manifests"))
            return ev
        man = read_manifest_raw(os.path.join(d, names[0]))
        readable = "!error" not in run["sizes"]
        if not readable:
            if any(o % 60 for o in [base] + [o for _, o in table]):
                # no ISO-8601 / xs:dateTime form exists for an offset with seconds; Python prints +hh:mm:ss and the tool's
                # reader (dateutil) rejects it -- outside the statement, recorded, size read-back not compared in this zone
                ev.notes.append(f"{label}: the tool cannot re-read its own manifest ({run['sizes']['!error']}): the zone's offset is not a whole number of minutes")
                ev.count("zone.subminute-offset-manifest-unreadable-by-tool")
            else:
                ev.disagree.append((scen, "manifest parsed", run["sizes"]["!error"], "the tool's parser rejects the manifest it has just written"))
        # --- collect the instants whose zone offset the oracle needs, ask libc in a child with the same TZ
        want = set()
        parsed = {}
        for rel, rec in list(man["files"].items()) + list(man["dirs"].items()):
            parsed[("lastmod", rel)] = parse_iso(rec["lastmod"])
        for j, (rel, txt) in enumerate(man["hashdates"]):
            parsed[("hashdate", j)] = parse_iso(txt)
        parsed[("creationdate",)] = parse_iso(man["creationdate"])
        parsed[("now_iso",)] = parse_iso(now_rep["iso"])
        for v in parsed.values():
            if v is not None:
                want.add(v[0] // 1000000)
        for rel, (n, mt, tag) in files.items():
            want.add(mt // 1000000)
        for rel, (mt, tag) in dirs.items():
            want.add(mt // 1000000)
        want = sorted(want)
        r = child(tz, [{"op": "offsets", "instants": want}])
        gm = dict(zip(want, r["replies"][0]["gmtoff"]))
        isdst = dict(zip(want, r["replies"][0]["isdst"]))
        if iana:
            import zoneinfo

            zi = zoneinfo.ZoneInfo(iana)
            for s in want:
                o = datetime.datetime.fromtimestamp(s, datetime.timezone.utc).astimezone(zi).utcoffset()
                if o.days * 86400 + o.seconds != gm[s]:
                    ev.notes.append(f"{label}: zoneinfo and libc differ at {s}: {o} vs {gm[s]}")
        holes = {s for s in want if SCAN_LO < s < SCAN_HI and off_at(base, table, s) != gm[s]}
        if holes:
            # the 6-hourly scan missed a pair of transitions: those instants are judged by the oracle only
            ev.notes.append(f"{label}: scanned transition table differs from libc at {len(holes)} instant(s); not fed to the model")
            ev.count("zone.table-holes", len(holes))
        ev.now = {"creationdate": man["creationdate"], "manifest": names[0], "TZ": tz}
        now_side = "dst" if isdst.get(parsed[("creationdate",)][0] // 1000000 if parsed[("creationdate",)] else -1) else "std"
        ev.count(f"now.isdst={now_side}")

        def in_table(s):
            return SCAN_LO + 2 * 86400 < s < SCAN_HI and s not in holes and (s - 86400) not in holes

        # ------------------------------------------------------------ files and folders: size, lastmodificationdate
        for kind, entries in (("file", files), ("dir", dirs)):
            for rel, info in entries.items():
                n, mt, tag = info if kind == "file" else (None,) + info
                full = os.path.join(root, rel)
                rec = man["files" if kind == "file" else "dirs"].get(rel.replace(os.sep, "/"))
                sc = dict(scen, path=rel, kind=kind, mtime_us=mt, size=n, tag=tag)
                ev.cases.append(((label, rel), True, sc if tag.startswith("fallback") and kind == "file" else None))
                if rec is None:
                    ev.violate.append(("record-missing", sc, "a record", None, f"no record for {kind} {rel}"))
                    continue
                st = os.stat(full)
                if st.st_mtime_ns != mt * 1000:
                    raise RuntimeError(f"file system did not keep the mtime of {full}")
                seen_us = stat_mtime_us(full)
                exp_s = seen_us // 1000000
                if kind == "file":
                    ev.count("size=" + ("0" if n == 0 else "1" if n == 1 else "2^20+1" if n == 2 ** 20 + 1 else "random"))
                    # ORACLE size
                    if rec["size"] is None:
                        ev.violate.append(("size-missing" + ("-empty" if n == 0 else ""), sc, str(st.st_size), None, "the record has no size attribute"))
                    elif not re.fullmatch(r"[0-9]+", rec["size"]) or int(rec["size"]) != st.st_size:
                        ev.violate.append(("size-wrong", sc, str(st.st_size), rec["size"], "recorded size is not the file's size"))
                    # CORRESPONDENCE size: attribute text and the tool's own read-back
                    m_attr, m_back = model.call(f"SIZE {st.st_size}").split(" ")
                    if (rec["size"] if rec["size"] is not None else "NONE") != m_attr:
                        ev.disagree.append((sc, m_attr, rec["size"], "size attribute differs from the model's emit_size"))
                    tool_back = run["sizes"].get(rel)
                    m_parse = model.call("PARSESIZE " + ("NONE" if rec["size"] is None else rec["size"] or "-"))
                    if readable and ("NONE" if tool_back is None else str(tool_back)) != m_parse:
                        ev.disagree.append((sc, m_parse, tool_back, "what the tool's parser reads back from the size attribute differs from the model's parse_size"))
                else:
                    m_attr = model.call("DIRSIZE NONE")
                    if (rec["size"] if rec["size"] is not None else "NONE") != m_attr:
                        ev.disagree.append((sc, m_attr, rec["size"], "folder size attribute differs from the model"))
                # ORACLE lastmodificationdate
                side = "dst" if isdst.get(exp_s) else "std"
                ev.count(f"mtime.{tag}")
                ev.count(f"mtime.side={side}/now={now_side}")
                got = parsed[("lastmod", rel.replace(os.sep, "/"))]
                if got is None:
                    ev.violate.append(("lastmod-malformed", sc, "ISO-8601 with offset", rec["lastmod"], "lastmodificationdate is not a well-formed ISO-8601 value with offset"))
                else:
                    if got[0] != exp_s * 1000000:
                        ev.violate.append(("lastmod-instant", dict(sc, written=rec["lastmod"]), exp_s * 1000000, got[0], "lastmodificationdate does not denote the file's modification time"))
                    if got[1] != gm[exp_s]:
                        ev.violate.append(("lastmod-offset", dict(sc, written=rec["lastmod"]), gm[exp_s], got[1], "lastmodificationdate does not carry the UTC offset in force at the file's modification time"))
                # CORRESPONDENCE lastmodificationdate: character for character
                if in_table(exp_s):
                    m = model.call(f"LASTMOD {seen_us}").split(" ")
                    if m[0] != rec["lastmod"]:
                        ev.disagree.append((sc, m[0], rec["lastmod"], "lastmodificationdate text differs from the model"))
                    if got is not None:
                        mp = model.call("PARSEISO " + rec["lastmod"]).split(" ")
                        if mp[0] == "ERR" or (int(mp[0]), int(mp[1])) != got:
                            ev.disagree.append((sc, mp, got, "model reader and datetime.fromisoformat read the attribute differently"))
        # ------------------------------------------------------------ now: hashdate, creationdate, file name
        t0_us, t1_us = run["t0_ns"] // 1000, run["t1_ns"] // 1000 + 1
        for j, (rel, txt) in enumerate(man["hashdates"]):
            sc = dict(scen, path=rel, attr="hashdate", written=txt)
            ev.cases.append(((label, "hashdate", j), True, None))
            ev.count("hashdate")
            got = parsed[("hashdate", j)]
            if got is None:
                ev.violate.append(("hashdate-malformed", sc, "ISO-8601 with offset", txt, "hashdate is not a well-formed ISO-8601 value with offset"))
                continue
            if not (t0_us <= got[0] <= t1_us):
                ev.violate.append(("hashdate-instant", sc, [t0_us, t1_us], got[0], "hashdate does not denote an instant inside the run"))
            if got[1] != gm[got[0] // 1000000]:
                ev.violate.append(("hashdate-offset", sc, gm[got[0] // 1000000], got[1], "hashdate does not carry the UTC offset in force at that instant"))
            m = model.call(f"HASHDATE {got[0]}").split(" ")
            if in_table(got[0] // 1000000) and m[0] != txt:
                ev.disagree.append((sc, m[0], txt, "hashdate text differs from what the model writes for the instant it denotes"))
        for what, txt, lo_us, hi_us in (("creationdate", man["creationdate"], t0_us, t1_us), ("now_isostring", now_rep["iso"], now_rep["t0_ns"] // 1000, now_rep["t1_ns"] // 1000 + 1)):
            sc = dict(scen, attr=what, written=txt)
            ev.cases.append(((label, what), True, sc if what == "creationdate" else None))
            ev.count(what)
            got = parsed[("creationdate",) if what == "creationdate" else ("now_iso",)]
            if got is None:
                ev.violate.append((what + "-malformed", sc, "ISO-8601 with offset", txt, f"{what} is not a well-formed ISO-8601 value with offset"))
                continue
            if not (lo_us // 1000000 * 1000000 <= got[0] <= hi_us):
                ev.violate.append((what + "-instant", sc, [lo_us, hi_us], got[0], f"{what} does not denote the time of the run"))
            if got[1] != gm[got[0] // 1000000]:
                ev.violate.append((what + "-offset", sc, gm[got[0] // 1000000], got[1], f"{what} does not carry the UTC offset in force at that instant"))
            m = model.call(f"CREATION {got[0]}").split(" ")
            if in_table(got[0] // 1000000) and m[0] != txt:
                ev.disagree.append((sc, m[0], txt, f"{what} text differs from what the model writes for the instant it denotes"))
        for what, stamp, lo_us, hi_us in (("manifest-name", names[0], t0_us, t1_us), ("filename_string", "0001_x_" + now_rep["fname"] + ".mhl", now_rep["t0_ns"] // 1000, now_rep["t1_ns"] // 1000 + 1)):
            sc = dict(scen, attr=what, written=stamp)
            ev.cases.append(((label, what), True, None))
            ev.count(what)
            mm = NAME_RE.match(stamp)
            if not mm:
                ev.violate.append(("filename-malformed", sc, "NNNN_<folder>_YYYY-MM-DD_hhmmssZ.mhl", stamp, "manifest file name has no UTC time stamp"))
                continue
            y, mo, dd, hh, mi, ss = (int(x) for x in mm.groups()[2:])
            try:
                sec = calendar.timegm((y, mo, dd, hh, mi, ss))
            except Exception:  # noqa
                sec = None
            if sec is None or not (lo_us // 1000000 <= sec <= hi_us // 1000000):
                ev.violate.append(("filename-utc", sc, [lo_us // 1000000, hi_us // 1000000], sec, "the time in the manifest's file name is not the UTC time of the run"))
            else:
                m = model.call(f"FNAME {sec * 1000000}").split(" ")
                if m[0] != stamp[len(stamp) - len("YYYY-MM-DD_hhmmssZ.mhl"):-4] or m[1] != str(sec):
                    ev.disagree.append((sc, m, stamp, "file-name stamp differs from the model"))
        # ------------------------------------------------------------ the same history flattened in ANOTHER zone: the hash dates
        # copied into the packing list still denote the instants at which the digests were taken
        if readable:
            # ... a zone whose calendar day differs from the UTC day right now (the NAME of the packing list carries the UTC time)
            other = "<-12>12" if time.gmtime().tm_hour < 12 else "<+14>-14"
            f0 = time.gmtime()
            dest = os.path.join(scratch_root, re.sub(r"[^A-Za-z0-9]+", "_", label) + "_flat")
            os.makedirs(dest)
            fr = child(other, [{"op": "flatten", "root": root, "dest": dest}])["replies"][0]
            pls = [os.path.relpath(os.path.join(dp, f), dest) for dp, _, fs in os.walk(dest) for f in fs if f.endswith(".mhl")]
            if fr["outcome"] != ["exit", 0] or len(pls) != 1:
                ev.disagree.append((dict(scen, flatten_TZ=other), "exit 0 and one packing list", [fr["outcome"], pls], "flatten of the fresh history did not succeed"))
            else:
                f1 = time.gmtime()
                mname = re.search(r"_(\d{4}-\d{2}-\d{2})_(\d{6})Z\.mhl$", os.path.basename(pls[0]))
                ev.cases.append(((label, "flatten-name"), True, None))
                ev.count("flatten.name")
                days = {time.strftime("%Y-%m-%d", f0), time.strftime("%Y-%m-%d", f1)}
                if mname is None or mname.group(1) not in days:
                    ev.violate.append(("flatten-filename-not-utc", dict(scen, flatten_TZ=other, name=os.path.basename(pls[0])), sorted(days), os.path.basename(pls[0]),
                                       "the name of the packing list does not carry the UTC date of its creation"))
                pl = read_manifest_raw(os.path.join(dest, pls[0]))
                src = {}
                for rel, txt in man["hashdates"]:
                    if rel != "roothash" and rel in man["files"]:
                        src.setdefault(rel, []).append(txt)
                for rel, txt in pl["hashdates"]:
                    if rel not in src:
                        continue
                    ev.cases.append(((label, "flatten-hashdate", rel), True, None))
                    ev.count("flatten.hashdate")
                    got = parse_iso(txt)
                    want = sorted(x[0] for x in map(parse_iso, src[rel]) if x)
                    if got is None or got[0] not in want:
                        ev.violate.append(("flatten-hashdate-instant", dict(scen, flatten_TZ=other, path=rel, written=txt), src[rel], txt,
                                           "a hash date copied into the packing list no longer denotes the instant at which the digest was taken"))
        # ------------------------------------------------------------ datetime_isostring on arbitrary naive values
        for (w, us, fold, keep), txt in zip(probes, iso_rep["texts"]):
            sc = dict(scen, op="datetime_isostring", wall=w, usec=us, fold=fold, keep=keep)
            ev.cases.append(((label, "iso", w, us, fold, keep), True, None))
            ev.count("isostring.probe")
            m = model.call(f"ISO {w} {us} {fold} {keep}").split(" ")
            if m[0] != txt:
                ev.disagree.append((sc, m[0], txt, "utils.datetime_isostring differs from the model on a naive value"))
    finally:
        model.close()
    return ev


def probe_gap_rule():
    """which variant of astimezone() for naive values the interpreter running the tool implements (Model/Time.v resolve gr)"""
    r = child("Europe/Berlin", [{"op": "isostring", "values": [[2026, 3, 29, 2, 30, 0, 0, 0, 0], [2026, 3, 29, 2, 30, 0, 0, 1, 0]]}])
    texts = r["replies"][0]["texts"]
    if texts == ["2026-03-29T02:30:00+02:00", "2026-03-29T02:30:00+01:00"]:
        return 0, r["python"]
    if texts == ["2026-03-29T02:30:00+01:00", "2026-03-29T02:30:00+02:00"]:
        return 1, r["python"]
    return None, texts


# ------------------------------------------------------------------------------------------------- entry


def check(rep, tier, seed):
    build_driver()
    scratch = core.Scratch("c16")
    try:
        gr, info = probe_gap_rule()
        if gr is None:
            rep.disagree({"op": "gap-rule probe"}, "one of the two CPython variants", info, "datetime_isostring on a wall clock inside a gap matches neither variant of the model")
            gr = 0
        rep.notes.append(f"astimezone() gap-rule variant of the interpreter under test: gr={gr} (python {info})")
        now = datetime.datetime.now(datetime.timezone.utc)
        zones = zone_list(tier, now, core.rng_for(seed, "c16/zones"))
        rep.extra["zones"] = [{"label": a, "TZ": b} for a, b, _ in zones]
        with ThreadPoolExecutor(max_workers=6) as ex:
            futs = [(z, ex.submit(run_zone, z[0], z[1], z[2], tier, seed, scratch.root, gr)) for z in zones]
            results = [(z, f.result()) for z, f in futs]
        for (label, tz, _), ev in results:
            rep.count("zone:" + label)
            for k, v in ev.counts.items():
                rep.count(k, v)
            for canonical, nontrivial, sample in ev.cases:
                rep.case(canonical, nontrivial, sample)
            rep.traces += len(ev.cases)
            for sc, m, i, what in ev.disagree:
                rep.disagree(sc, m, i, what)
            for sig, sc, exp, act, what in ev.violate:
                rep.violate(sig, sc, exp, act, what)
            rep.notes.extend(ev.notes)
            rep.extra.setdefault("now_as_written", {})[label] = ev.now
        # model-only sweep of the formatter / reader pair on offsets the zones above do not reach (driver = extracted code)
        m = TimeModel()
        try:
            rng = core.rng_for(seed, "c16/offsets")
            for o in [0, 1, -1, 59, 60, -60, 3599, 3600, 86399, -86399, 20700, -12600] + [rng.randrange(-86399, 86400) for _ in range(40)]:
                txt, back = m.call(f"FMTOFF {o}").split(" ")
                rep.count("fmt_offset.sweep")
                tz = datetime.timezone(datetime.timedelta(seconds=o))
                py = datetime.datetime(2020, 1, 1, tzinfo=tz).isoformat()[19:]
                rep.case(("fmtoff", o), True, None)
                if txt != py or back != str(o):
                    rep.disagree({"op": "fmt_offset", "offset": o}, [txt, back], py, "offset text differs from CPython's isoformat")
        finally:
            m.close()
    finally:
        scratch.cleanup()
