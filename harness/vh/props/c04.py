"""C04 -- digests are always judged against the first recorded value"""
import copy
import itertools

from .. import defects, gen, oracles, world
from ._tree import make


def same_relative_name(rng):
    """two files with the SAME history-relative path in two different histories (x.txt at the root and N/x.txt below a
    folder with its own history), recorded at different times: what counts as 'first recorded' is decided per history"""
    name = rng.choice(["x.txt", "clip.mov", "a"])
    sub = rng.choice(["N", "Reel 2", "a b"])
    inner, outer = gen.gen_content(rng) or "11", gen.gen_content(rng) or "22"
    steps = []
    if rng.random() < 0.5:
        # the nested file is recorded first, the outer one appears later
        tree = {sub: {"d": {name: {"f": inner}}}, "other.bin": {"f": "0102"}}
        steps += [{"op": "create", "root": sub, "fmts": gen.gen_fmts(rng)}, {"op": "create", "fmts": gen.gen_fmts(rng)},
                  {"op": "add", "path": name, "data": outer}]
    else:
        # the outer file is recorded first (the folder gets its own history before it holds the file)
        tree = {sub: {"d": {"first.bin": {"f": "0304"}}}, name: {"f": outer}}
        steps += [{"op": "create", "root": sub, "fmts": gen.gen_fmts(rng)}, {"op": "create", "fmts": gen.gen_fmts(rng)},
                  {"op": "add", "path": sub + "/" + name, "data": inner}]
    if rng.random() < 0.5:
        steps.append({"op": "set", "path": rng.choice([name, sub + "/" + name]), "data": gen.gen_content(rng) or "33"})
    steps += [{"op": "create", "fmts": gen.gen_fmts(rng, kmax=6)}, {"op": "verify"}, {"op": "create", "fmts": gen.gen_fmts(rng, kmax=6)}]
    return {"tree": tree, "steps": steps}


def scenario(rng, i):
    """a file (alone, in a small tree, or inside a nested history) sealed over 2-6 generations with changing
    format subsets, its content kept / altered / restored in between, folder mode and -sf mode"""
    if i % 7 == 5:
        return same_relative_name(rng)
    if i % 11 == 3:
        # names that begin or end with a blank: the same file in every generation, read back under the same name
        t = {" lead.wav": {"f": gen.gen_content(rng) or "01"}, "trail.mov ": {"f": gen.gen_content(rng) or "02"}, " both ": {"d": {" x ": {"f": "03"}}}}
        st = [{"op": "create", "fmts": gen.gen_fmts(rng, kmax=3)} for _ in range(rng.choice([2, 3]))]
        if rng.random() < 0.5:
            st.insert(1, {"op": "set", "path": rng.choice([" lead.wav", "trail.mov ", " both / x "]), "data": "0a0b"})
        return {"tree": t, "steps": st + [{"op": "verify"}, {"op": "create", "fmts": gen.gen_fmts(rng, kmax=6)}]}
    if i % 3 == 0:
        tree = {"a.txt": {"f": gen.gen_content(rng)}}
    else:
        tree = gen.gen_tree(rng, max_entries=6, max_depth=2, simple=True, ds_store=False)
        tree.setdefault("a.txt", {"f": gen.gen_content(rng)})
    if not gen.all_files(tree):
        tree["f0.bin"] = {"f": gen.gen_content(rng)}
    files = gen.all_files(tree)
    target = rng.choice(files)
    original = gen._node(tree, target)["f"]
    steps = []
    dirs = [d for d in gen.all_dirs(tree) if target.startswith(d + "/")]
    if dirs and rng.random() < 0.4:
        steps.append({"op": "create", "root": rng.choice(dirs), "fmts": gen.gen_fmts(rng)})
    altered_mode = i % 2 == 1
    # every fifth scenario runs under a wall clock that jumps around between the runs (generations are ordered by their
    # number, never by their dates)
    clocks = i % 5 == 3
    for k in range(rng.choice([2, 3, 4, 5, 6])):
        if clocks:
            steps.append({"op": "clock", "t": "20%02d-0%d-1%d 0%d:00:00" % (rng.randrange(10, 30), rng.randrange(1, 10), rng.randrange(0, 9), rng.randrange(0, 10))})
        st = {"op": "create", "fmts": gen.gen_fmts(rng, kmax=6)}
        if rng.random() < 0.3:
            st["sf"] = [target]
        steps.append(st)
        if altered_mode and rng.random() < 0.5:
            cur = steps  # noqa
            data = original if rng.random() < 0.4 else gen.gen_content(rng)
            steps.append({"op": "set", "path": target, "data": data})
    return {"tree": tree, "steps": steps}


RULE = ("format-sequence scenarios (one in seven: two files with the same history-relative path in two different histories, recorded at different times): one file (alone / in a tree / in a nested history), 2-6 generations with random non-empty format subsets (1-6 of the six "
        "formats), content kept (half of the scenarios) or altered / restored between generations, folder mode and -sf; thorough adds every sequence of length "
        "<= 3 over a 3-format alphabet for unaltered content. Oracle: actions recomputed from the generations read back independently. Non-trivial: >= 3 generations.")


def extra(rep, tier, seed):
    from .. import core, treecheck

    fam = ["md5", "xxh64", "sha1"]
    subsets = [list(c) for k in (1, 2, 3) for c in itertools.combinations(fam, k)]
    seqs = list(itertools.product(subsets, repeat=3))
    if tier == "quick":
        rng = core.rng_for(seed, "C04/sweep")
        seqs = rng.sample(seqs, 40)
    corpus = [{"tree": {"a.txt": {"f": "68656c6c6f"}}, "steps": [{"op": "create", "fmts": s} for s in seq]} for seq in seqs]
    treecheck.run_scenarios(rep, tier, seed, "C04s", lambda rng, i: corpus[i], oracles.oracle_c04, len(corpus), len(corpus))
    rep.extra["format_sequence_sweep"] = {"alphabet": fam, "length": 3, "sequences": len(corpus), "exhaustive": tier == "thorough"}


# recorded inputs that run first on every run: generations are ordered by their number, not by their dates -- a later,
# failed generation written under an EARLIER wall clock must not become the reference
CORPUS = [
    {"tree": {"a.txt": {"f": "68656c6c6f"}, "b.bin": {"f": "00ff"}},
     "steps": [{"op": "clock", "t": "2024-05-02 10:00:00"}, {"op": "create", "fmts": ["xxh64"]},
               {"op": "set", "path": "a.txt", "data": "776f726c64"},
               {"op": "clock", "t": "2024-05-01 10:00:00"}, {"op": "create", "fmts": ["xxh64"]},
               {"op": "set", "path": "a.txt", "data": "68656c6c6f"},
               {"op": "clock", "t": "2024-05-03 10:00:00"}, {"op": "create", "fmts": ["xxh64", "md5"]},
               {"op": "set", "path": "a.txt", "data": "776f726c64"},
               {"op": "clock", "t": "2024-04-30 10:00:00"}, {"op": "create", "fmts": ["md5"]}, {"op": "verify"}]},
]
check, replay = make("C04", oracles.oracle_c04, scenario, 50, 1500, RULE, corpus_defects=[defects.d01_c04_format_sequence],
                     nontrivial=lambda scn, obs: sum(1 for s in scn["steps"] if s["op"] == "create") >= 3, extra=extra, corpus=CORPUS)
