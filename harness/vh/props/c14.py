"""C14 -- commands touch nothing beyond what they document"""
import copy

from .. import core, gen, oracles, treecheck, world

PATTERNS = ["*.tmp", "notes", "Sound/"]


def scenario(rng, i):
    tree = gen.gen_tree(rng, max_entries=10, max_depth=3, simple=(i % 2 == 0))
    if not gen.all_files(tree):
        tree["a.txt"] = {"f": gen.gen_content(rng)}
    cur = copy.deepcopy(tree)
    steps = []
    dirs = gen.all_dirs(cur)
    for d in rng.sample(dirs, min(len(dirs), rng.choice([0, 1, 2]))):
        steps.append({"op": "create", "root": d, "fmts": gen.gen_fmts(rng)})
    steps.append(gen.gen_create(rng, cur, nested_ok=False, sf_ok=False, patterns=PATTERNS if i % 3 == 0 else None))
    if i % 4 == 1:
        # leftovers of an interrupted run in the ascmhl folders (root and nested)
        steps.append({"op": "leftover", "hist": ""})
        for st0 in list(steps):
            if st0["op"] == "create" and st0.get("root"):
                steps.append({"op": "leftover", "hist": st0["root"]})
    for _ in range(rng.choice([3, 5, 8])):
        r = rng.random()
        files = gen.all_files(cur)
        if r < 0.25:
            steps.append(gen.gen_create(rng, cur, patterns=PATTERNS if i % 3 == 0 else None))
        elif r < 0.45:
            e = gen.gen_edit(rng, cur, kinds=("set", "add", "delete", "mkdir"))
            steps.append(e)
            cur = world.tree_apply(cur, e)
        elif r < 0.55:
            st = {"op": "verify"}
            if rng.random() < 0.4 and files:
                st["sf"] = rng.choice(files)
            steps.append(st)
        elif r < 0.62:
            steps.append({"op": "diff"})
        elif r < 0.72:
            steps.append({"op": "verifydh", **({"co": True} if rng.random() < 0.3 else {}), **({"ro": True} if rng.random() < 0.2 else {})})
        elif r < 0.78:
            steps.append({"op": "info"})
        elif r < 0.84 and files:
            steps.append({"op": "infosf", "file": rng.choice(files), **({"root": ""} if rng.random() < 0.5 else {})})
        elif r < 0.90 and files:
            steps.append({"op": "hash", "file": rng.choice(files), "fmt": rng.choice(gen.FORMATS)})
        elif r < 0.95:
            steps.append({"op": "xsdcheck"})
        else:
            steps.append({"op": "flatten", **({"rel_dest": True} if rng.random() < 0.5 else {})})
            steps.append({"op": "verifypl"})
    if i % 3 == 0:
        steps.append({"op": "flatten", "deep_dest": True})          # destination below folders that do not exist
    return {"tree": tree, "steps": steps}


def scenario_nested_sf(rng, i):
    """three levels of nested histories and create -sf on a file in a sibling history: only the histories on the path
    to the named file may be touched"""
    c = lambda: gen.gen_content(rng) or "0a"  # noqa
    tree = {"A": {"d": {"A1": {"d": {"f.bin": {"f": c()}, "g.bin": {"f": c()}}}, "a.txt": {"f": c()}}},
            "B": {"d": {"b.txt": {"f": c()}, "B1": {"d": {"x": {"f": c()}}}}}, "r.txt": {"f": c()}}
    steps = [{"op": "create", "root": d, "fmts": gen.gen_fmts(rng)} for d in ("A/A1", "A", "B")]
    if rng.random() < 0.5:
        steps.insert(2, {"op": "create", "root": "B/B1", "fmts": gen.gen_fmts(rng)})
    steps.append({"op": "create", "fmts": gen.gen_fmts(rng)})
    targets = ["B/b.txt", "r.txt", "A/a.txt", "A/A1/f.bin", "B/B1/x"]
    for t in rng.sample(targets, 3):
        steps.append({"op": "create", "fmts": gen.gen_fmts(rng), "sf": [t]})
        if rng.random() < 0.4:
            steps.append({"op": rng.choice(["verify", "diff", "info"])})
    return {"tree": tree, "steps": steps}


RULE = ("random command sequences (create in folder / -sf / nested / -n / patterns mode, verify, verify -sf, verify -dh [-co|-ro], verify -pl, diff, info, info -sf, hash, "
        "xsd-schema-check, flatten) interleaved with edits, ending with any exit code; for every command: full snapshot (type, bytes, mode, mtime) of the tree and of the "
        "flatten destination before / after, and the Python audit events open-for-write / mkdir / rename / remove / rmdir / utime / chmod / truncate / link / symlink / "
        "shutil.*; oracle: readers change nothing and raise no write event, flatten writes below its destination only, create changes only new manifests + chain + "
        "new ascmhl folders of histories that wrote, and its write sequence equals the model's op list. Non-trivial: the scenario contains a create after the first one.")


# recorded inputs that run first on every run: a MEDIA folder that happens to be called like the tool's folder in older
# documents (asc-mhl), at a root that has no history: no command may rename, move or change it
CORPUS = [{"tree": {"asc-mhl": {"d": {"notes.txt": {"f": "6e6f"}, "sub": {"d": {"x.bin": {"f": "01"}}}}}, "clip.mov": {"f": "0203"}},
           "steps": [{"op": "verify"}, {"op": "info"}, {"op": "diff"}, {"op": "verifydh"}, {"op": "infosf", "file": "clip.mov", "root": ""}, {"op": "flatten"},
                     {"op": "create", "fmts": ["md5"]}, {"op": "verify"}, {"op": "create", "fmts": ["md5"], "root": "asc-mhl"}, {"op": "info"}]}]


def check(rep, tier, seed):
    n = 40 if tier == "quick" else 800
    scratch = core.Scratch("C14")
    model = world.new_model()
    try:
        for i in range(-len(CORPUS), n):
            rng = core.rng_for(seed, f"C14/{i}")
            scn = CORPUS[i + len(CORPUS)] if i < 0 else scenario_nested_sf(rng, i) if i % 5 == 4 else scenario(rng, i)
            io, root = world.run_impl(scn, scratch, snap=True)
            mo = world.run_model(scn, model)
            for st, o in zip(scn["steps"], io):
                rep.count("step." + st["op"])
            rep.case(repr(scn), nontrivial=sum(1 for s in scn["steps"] if s["op"] == "create") >= 2,
                     sample={"steps": scn["steps"], "audit_of_first_create": next((o.get("_audit") for o in io if o.get("op") == "create"), None)} if len(rep.samples) < 2 else None)
            rep.traces += 1
            d = world.first_difference(scn, io, mo)
            if d is not None:
                rep.disagree({"scenario": scn, "step": d[0]}, d[2], d[1], f"model and implementation differ at step {d[0]} ({scn['steps'][d[0]]['op']})")

            def report(signature, step, expected, actual, what, _scn=scn):
                rep.violate(signature, {"scenario": _scn, "step": step}, expected, actual, what)

            oracles.oracle_c14(rep, scn, treecheck.Replay(scn).build(io), io, root, report, model_obs=mo)
    finally:
        model.close()
        scratch.cleanup()


def replay(rep, data):
    def orc(rep_, scn, rp, io, root, report):
        oracles.oracle_c14(rep_, scn, rp, io, root, report)

    r = treecheck.replay_scenario(rep, data, orc)
    return 0 if r is None else r
