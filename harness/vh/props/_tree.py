"""factory for the history-level property modules"""
from .. import core, defects, gen, treecheck


def make(prop, oracle, scenario, n_quick, n_thorough, rule, corpus_defects=(), nontrivial=None, extra=None, snap=False, corpus=()):
    def check(rep, tier, seed):
        sc = core.Scratch(prop + "c")
        try:
            for fn in corpus_defects:
                ok, detail = fn(sc)
                rep.case(("corpus", fn.__name__), sample=None)
                rep.count("corpus")
                if not ok:
                    rep.violate("corpus:" + fn.__name__, {"corpus": fn.__name__, "doc": "harness/vh/defects.py"}, "property holds on this recorded input", detail,
                                f"recorded defect scenario {fn.__name__} fails (again)")
        finally:
            sc.cleanup()
        treecheck.run_scenarios(rep, tier, seed, prop, scenario, oracle, n_quick, n_thorough, nontrivial=nontrivial, snap=snap, corpus=corpus)
        if extra:
            extra(rep, tier, seed)

    def replay(rep, data):
        r = treecheck.replay_scenario(rep, data, oracle)
        if r is None:
            name = (data.get("scenario") or {}).get("corpus")
            if name:
                sc = core.Scratch(prop + "r")
                try:
                    ok, detail = getattr(defects, name)(sc)
                    print(("HOLDS " if ok else "FAILS ") + name, detail)
                    return 0 if ok else 1
                finally:
                    sc.cleanup()
            print("replay: nothing to re-run in this record")
            return 0
        return r

    return check, replay
