"""C02 -- a sealed generation records exactly the tree that is on disk"""
from .. import defects, gen, oracles
from ._tree import make

PATTERNS = ["*.tmp", "a?", "[ab]*", "Sound/", "notes", "*.txt", "Clips"]


def big_tree(rng):
    """a tree whose generation holds well over a hundred records (write paths that batch or page must not lose or repeat any)"""
    tree = {}
    n_dirs = rng.choice([3, 5, 8])
    for d in range(n_dirs):
        kids = {}
        for f in range(rng.choice([12, 20, 35])):
            kids["f%03d.bin" % f] = {"f": "%02x%02x%02x" % (d, f, rng.randrange(256))}
        tree["D%02d" % d] = {"d": kids}
    for f in range(rng.choice([5, 30, 60])):
        tree["top%03d.dat" % f] = {"f": "ee%02x%02x" % (f, rng.randrange(256))}
    return tree


def prefix_siblings(rng):
    """a folder with its own history beside entries whose names merely begin with that folder's name (A002 / A002_proxy /
    A002.txt): which history a path belongs to is decided on whole path components, never on a string prefix"""
    base = rng.choice(["A002", "Clips", "r", "d.1", "Reel 7", "clips"])
    inner = {"c%d.mov" % k: {"f": "%02x%02x" % (k, rng.randrange(256))} for k in range(rng.choice([1, 2, 4]))}
    if rng.random() < 0.5:
        inner["sub"] = {"d": {"deep.bin": {"f": "0a0b"}, base: {"f": "77"}}}
    # names that differ in case only are different names (file beside file, folder beside folder with a history)
    inner["Take.mov"] = {"f": "6161"}
    inner["take.mov"] = {"f": "6262"}
    inner["._Take.mov"] = {"f": "6363"}          # named like an AppleDouble companion: an entry like any other
    inner["._orphan"] = {"f": ""}
    other_case = base.swapcase() if base.swapcase() != base else base + "_"
    tree = {base: {"d": inner},
            other_case: {"d": {"c0.mov": {"f": "7a7a"}, "Sub": {"d": {"x": {"f": "01"}}}, "sub": {"d": {"x": {"f": "02"}}}}},
            base + rng.choice(["_proxy", " 2", "x", "-b"]): {"d": {"sub dir": {"d": {base + "C002.mp4": {"f": "010203"}}}, "p.bin": {"f": "99"}}},
            base + rng.choice([".txt", ".", "~"]): {"f": "5a5a"},
            base[:-1] if len(base) > 1 else "q": {"f": "31"}}
    steps = [{"op": "create", "fmts": gen.gen_fmts(rng), "root": base}]
    if rng.random() < 0.5:
        steps.append({"op": "create", "fmts": gen.gen_fmts(rng), "root": base + "/sub"} if "sub" in inner else {"op": "verify"})
    steps += [{"op": "create", "fmts": gen.gen_fmts(rng)}, {"op": "verify"}, {"op": "create", "fmts": gen.gen_fmts(rng)}, {"op": "diff"}]
    return {"tree": tree, "steps": steps}


def deep_nesting(rng):
    """histories nested three and four levels deep, each sealed from inside first: every file goes to the deepest history
    containing it, however far below the command's folder that is"""
    c = lambda: gen.gen_content(rng) or "0d"  # noqa
    tree = {"top.bin": {"f": c()}, "AAA": {"d": {"a.txt": {"f": c()}, "BBB": {"d": {"b.txt": {"f": c()}, "CCC": {"d": {"c.txt": {"f": c()}, "DDD": {"d": {"d.txt": {"f": c()}}}}}}}}}}
    steps = []
    levels = ["AAA/BBB/CCC/DDD", "AAA/BBB/CCC", "AAA/BBB", "AAA"]
    for lv in levels[rng.choice([0, 1]):]:
        if rng.random() < 0.85:
            steps.append({"op": "create", "root": lv, "fmts": gen.gen_fmts(rng)})
    steps += [{"op": "create", "fmts": gen.gen_fmts(rng)}, {"op": "add", "path": "AAA/BBB/CCC/new.txt", "data": c()},
              {"op": "create", "fmts": gen.gen_fmts(rng)}, {"op": "verify"}, {"op": "info"}]
    return {"tree": tree, "steps": steps}


def scenario(rng, i):
    if i % 10 == 4:
        return prefix_siblings(rng)
    if i % 10 == 9:
        return deep_nesting(rng)
    if i % 20 == 7:
        tree = big_tree(rng)
        steps = [{"op": "create", "fmts": gen.gen_fmts(rng)}, {"op": "verify"}]
        if rng.random() < 0.5:
            steps.append({"op": "create", "fmts": gen.gen_fmts(rng), **({"n": True} if rng.random() < 0.5 else {})})
        return {"tree": tree, "steps": steps}
    # every third scenario uses patterns, incl. ones bound to a location (nested paths, globs below a folder, root-anchored names)
    pats = (lambda tree, r: PATTERNS + gen.path_patterns(tree, r, k=3)) if i % 3 == 0 else None
    return gen.gen_history_scenario(rng, n_steps=rng.choice([3, 5, 7]), patterns=pats)


RULE = ("random trees (0-14 entries; one in twenty with 100-400 entries in one generation, one in ten with a nested history beside entries whose names start with its folder's name, depth <= 4, empty files/dirs, names with spaces, non-ASCII, XML-special, glob characters, U+2028), "
        "prior histories from earlier create runs (root, nested, -sf, -n, patterns), then create; every scenario runs on the real tool and on the "
        "extracted model; oracle: records == os-independent walk of the abstract tree filtered by pathspec on root-relative paths, path form, "
        "digests recomputed. A scenario is non-trivial when at least one create wrote a generation with records.")
# recorded inputs that run first on every run: names that contain a line feed (file, folder, folder with a nested history
# is left out on purpose -- see DESIGN 10.4)
CORPUS = [{"tree": {"x\ny.txt": {"f": "414141"}, "d\ne": {"d": {"f.bin": {"f": "42"}, "g\n": {"f": "43"}}}, "z": {"f": ""}},
           "steps": [{"op": "create", "fmts": ["md5"]}, {"op": "verify"}, {"op": "create", "fmts": ["sha1", "c4"]}, {"op": "diff"}, {"op": "verifydh"},
                     {"op": "info"}]}]      # (info -sf prints the name: the line-wise reading of the output would split it)
check, replay = make("C02", oracles.oracle_c02, scenario, 60, 1500, RULE, corpus=CORPUS,
                     corpus_defects=[defects.d05_c10_line_separator_in_name, defects.d08_c12_sf_folder_ignores_patterns],
                     nontrivial=lambda scn, obs: any(g.get("records") for o in obs for g in o.get("written", [])))
