"""C19 -- info reports the recorded history truthfully"""
import copy

from .. import gen, oracles, world
from ._tree import make


def scenario(rng, i):
    tree = gen.gen_tree(rng, max_entries=12, max_depth=4, simple=(i % 2 == 0), ds_store=False)
    if not gen.all_files(tree):
        tree["a.txt"] = {"f": gen.gen_content(rng)}
    cur = copy.deepcopy(tree)
    steps = [{"op": "info"}] if i % 6 == 0 else []
    if i % 6 == 0:
        steps.append({"op": "infosf", "file": rng.choice(gen.all_files(cur))})
    dirs = gen.all_dirs(cur)
    # nested histories, also several levels deep (a chain d1 > d2 > d3 when the tree has one)
    chain = sorted((d for d in dirs), key=lambda d: -d.count("/"))
    picks = rng.sample(dirs, min(len(dirs), rng.choice([0, 1, 2, 3])))
    if chain and rng.random() < 0.5:
        deep = chain[0]
        parts = deep.split("/")
        picks += ["/".join(parts[:k]) for k in range(len(parts), 0, -1)]
    seen = set()
    for d in picks:
        if d not in seen:
            seen.add(d)
            steps.append({"op": "create", "root": d, "fmts": gen.gen_fmts(rng)})
    skew = i % 4 == 3          # the wall clock jumps around between the runs (set back, other zone): dates are not ascending
    for k in range(rng.choice([1, 2, 3, 4])):
        if skew:
            steps.append({"op": "clock", "t": "20%02d-%02d-%02d %02d:%02d:00" % (rng.randrange(19, 30), rng.randrange(1, 13), rng.randrange(1, 28), rng.randrange(0, 24), rng.randrange(0, 60))})
        st = {"op": "create", "fmts": gen.gen_fmts(rng, kmax=5)}
        if i % 3 == 1:
            # creator info in any combination (an author without a name included)
            fields = {"author_name": "Ann B.", "author_email": "ann@example.org", "author_phone": "+1 555 0100", "author_role": "DIT", "location": "Stage 4", "comment": "day 2"}
            st["creator"] = {f: fields[f] for f in rng.sample(sorted(fields), rng.choice([1, 1, 2, 3, 6]))}
        files = gen.all_files(cur)
        if rng.random() < 0.25:
            st["sf"] = rng.sample(files, 1)
        steps.append(st)
        if rng.random() < 0.5:
            e = gen.gen_edit(rng, cur, kinds=("set", "add"))
            steps.append(e)
            cur = world.tree_apply(cur, e)
    steps.append({"op": "info"})
    if i % 3 == 1:
        steps.append({"op": "info", "verbose": True})
    for d in rng.sample(dirs, min(len(dirs), 2)):
        steps.append({"op": "info", "root": d})
    files = gen.all_files(cur)
    for f in rng.sample(files, min(len(files), rng.choice([2, 3, 4]))):
        st = {"op": "infosf", "file": f}
        if rng.random() < 0.3:
            st["root"] = ""
        if i % 3 == 1 and rng.random() < 0.5:
            st["verbose"] = True
        if i % 3 == 2 and rng.random() < 0.6:
            st["sf_rel"] = True          # typed relative to the folder the file is in, which is the working directory
        steps.append(st)
    return {"tree": tree, "steps": steps}


RULE = ("histories with 1-4 root generations (a quarter of them written under a wall clock that jumps back and forth; changing formats, failed and new-format entries, -sf generations), nested histories incl. chains three and four levels deep; "
        "info on the root and on sub-folders, info -sf for files in the root folder, in sub-folders and inside nested histories (with and without ROOT argument), and on "
        "folders without history; oracle: every history below the folder listed exactly once with exactly its generations 1..n ascending and creation dates taken from the "
        "manifests; info -sf prints exactly one line per recorded digest (generation, format, digest, action) of the nearest enclosing history; exit 30 without history. "
        "Non-trivial: the scenario has a nested history.")
check, replay = make("C19", oracles.oracle_c19, scenario, 60, 1500, RULE,
                     nontrivial=lambda scn, obs: any(s["op"] == "create" and s.get("root") for s in scn["steps"]))
