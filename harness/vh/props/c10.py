"""C10 -- manifests and chain files read back exactly what was written.

correspondence (three ways, per random object):
  (a) the XML tree the model emits  (extracted emit_hashlist / emit_chain, Model/Emit.v)
      ==  the tree ElementTree/expat sees in the file the REAL writer produced from the same object
  (b) the object the REAL reader returns  ==  read (emit o) of the model (Model/Read.v)  ==  canon o of the model
  (c) manifests / chain files written by random command sequences: real reader == model reader run on the tree
      ElementTree sees in the file
oracle (independent of the model): the original object, modulo the documented equivalences (py_canon below: empty
  text == absent, format elements sorted, lastmodificationdate not read ...), equals field by field what the tool's
  reader returns, and equals what the independent reader (vh.impl.read_manifest / read_chain: xml.etree + expat)
  extracts from the same file."""
import datetime
import json
import os
import subprocess
import time
import xml.etree.ElementTree as ET

from .. import core, gen, impl, world

XML_DRIVER = os.path.join(core.VERIF, "ocaml", "xml_driver")
FORMATS = ["md5", "sha1", "xxh128", "xxh3", "xxh64", "c4"]
ACTIONS = ["original", "verified", "failed", "new"]
NS_MANIFEST = "urn:ASC:MHL:v2.0"
NS_CHAIN = "urn:ASC:MHL:DIRECTORY:v2.0"


def setup_env():
    # a fixed non-zero local offset without DST, so that naive datetimes get a non-trivial offset (C16 covers DST)
    os.environ["TZ"] = "VHT-5:30"
    time.tzset()


LOCAL_OFFSET_MIN = 330

# ------------------------------------------------------------------------------------------------ text generator
ALPHABET = [
    (30, "abcdefghijklmnopqrstuvwxyzABCXYZ0123456789._-"),
    (6, "&<>\"'"),                       # XML specials
    (4, " "),
    (5, "\u00e9\u00fc\u00df\u00ff\u00d7\u00bf"),                       # Latin-1
    (5, "\u6587\u4ef6\u65e5\u672c\u8a9e\ud55c"),                  # CJK
    (4, "\U0001F3AC\U0001D11E\U0010FFFD\U00010000"),   # astral
    (2, "\u00a0"),                       # NBSP
    (2, "\u200b"),                       # ZWSP
    (3, "\u2028\u2029"),                 # line / paragraph separator (str.splitlines boundaries, not Cc)
    (2, "\t"),                           # tab (inside only)
    (2, "\n"),                           # line feed (inside only): written as &#10; since the fix "write line feeds inside texts ..."
    (3, "\ufffd\ud7ff\u0100\u3000\ufeff\ue000\ue001"),
    (2, "\\#;=%+~^$*?[]{}()|!@`,:"),
]
_W = [w for w, _ in ALPHABET]


def gen_char(rng, no_tab=False, no_slash=True):
    while True:
        c = rng.choice(rng.choices(ALPHABET, weights=_W)[0][1])
        if no_tab and c in "\t\n":
            continue
        return c


def gen_text(rng, kind="text", allow_empty=True):
    """kind: 'text' any field, 'name' one path component (no '/', not '.', '..', not empty)"""
    r = rng.random()
    if kind == "text" and allow_empty and r < 0.06:
        return ""
    n = rng.choice([1, 1, 2, 3, 5, 8, 13]) if r < 0.95 else rng.choice([60, 200])
    if kind == "name":
        n = min(n, 40)
    while True:
        chars = [gen_char(rng) for _ in range(n)]
        if rng.random() < 0.15:
            chars.insert(0, rng.choice("  ​"))          # blanks at both ends
        if rng.random() < 0.15:
            chars.append(rng.choice("  ​"))
        if chars[0] in "\t\n":
            chars[0] = "t"
        if chars[-1] in "\t\n":
            chars[-1] = "t"
        s = "".join(chars)
        if kind == "name":
            if s in (".", "..") or len(s.encode("utf-8")) > 200:
                continue
        return s


def gen_path(rng, normal=False):
    """relative path text; sometimes not in pathlib normal form"""
    comps = [gen_text(rng, "name") for _ in range(rng.choice([1, 1, 2, 2, 3, 5]))]
    p = "/".join(comps)
    if normal:
        return p
    r = rng.random()
    if r < 0.05:
        p = p.replace("/", "//", 1) if "/" in p else p + "/"
    elif r < 0.09:
        p = "./" + p
    elif r < 0.12:
        p = p + "/"
    elif r < 0.14:
        p = "/" + p
    elif r < 0.15:
        p = "//" + p
    elif r < 0.16:
        p = "///" + p
    elif r < 0.18:
        p = p + "/."
    elif r < 0.21:
        p = p + "\\" + gen_text(rng, "name")       # a backslash is an ordinary character on POSIX
    elif r < 0.22:
        p = "../" + p
    return p


def gen_date(rng, naive_ok=True):
    """-> (tuple y mo d h mi s us off, python datetime)"""
    y = rng.choice([1, 99, 1970, 1999, 2020, 2021, 2024, 2026, 9999]) if rng.random() < 0.3 else rng.randrange(1, 10000)
    mo, d = rng.randrange(1, 13), rng.randrange(1, 29)
    h, mi, s = rng.randrange(24), rng.randrange(60), rng.randrange(60)
    us = rng.choice([0, 0, 1, 10, 500000, 999999, rng.randrange(1000000)])
    if naive_ok and y >= 2 and rng.random() < 0.3:      # (astimezone() of a naive date in year 1 leaves the datetime range)
        return (y, mo, d, h, mi, s, us, LOCAL_OFFSET_MIN), datetime.datetime(y, mo, d, h, mi, s, us)
    off = rng.choice([0, 0, 60, 120, -300, 330, -570, 840, -720, 1439, -1439, rng.randrange(-1439, 1440)])
    tz = datetime.timezone(datetime.timedelta(minutes=off))
    return (y, mo, d, h, mi, s, us, off), datetime.datetime(y, mo, d, h, mi, s, us, tzinfo=tz)


def gen_digest(rng, fmt):
    r = rng.random()
    if r < 0.04:
        return None
    if r < 0.08:
        return ""
    if r < 0.15:
        return gen_text(rng)
    if fmt == "c4":
        return "c4" + "".join(rng.choice(impl.C4_CHARSET) for _ in range(88))
    return rng.randbytes({"md5": 16, "sha1": 20, "xxh128": 16, "xxh3": 8, "xxh64": 8, "xxh32": 4}[fmt]).hex()


def gen_size(rng):
    r = rng.random()
    if r < 0.1:
        return None
    if r < 0.3:
        return 0
    if r < 0.45:
        return 1
    if r < 0.8:
        return rng.randrange(2, 5000)
    return rng.choice([2**31, 2**32 + 1, 2**53 + 1, 2**63, 2**64 - 1, 10**18, 10**25, rng.getrandbits(80)])


def opt(rng, f, p_none=0.3):
    return None if rng.random() < p_none else f()


def gen_entry(rng, fmt, directory, dates):
    date = None
    if rng.random() < 0.92:
        date, py = gen_date(rng)
        dates[date] = py
    act = rng.choice(ACTIONS + [None, None, ""]) if rng.random() < 0.9 else gen_text(rng)
    return {"fmt": fmt, "digest": gen_digest(rng, fmt), "action": act, "date": date,
            "struct": (gen_digest(rng, fmt) if directory else None)}


def gen_record(rng, dates, directory=None, root=False, nonwf=None):
    directory = (rng.random() < 0.3) if directory is None else directory
    k = rng.choice([0, 1, 1, 2, 2, 3, 6])
    fmts = rng.sample(FORMATS, k)
    if not directory and rng.random() < 0.2 and fmts:
        fmts = fmts + [rng.choice(fmts)]                       # the same format twice in a file record (create run twice)
    if nonwf == "xxh32":
        fmts = fmts + ["xxh32"]
    if nonwf == "dupfmt" and directory and fmts:
        fmts = fmts + [fmts[0]]
    lastmod = None
    if rng.random() < 0.6:
        lastmod, py = gen_date(rng)
        dates[lastmod] = py
    size = gen_size(rng)
    if directory:
        size = None if (size == 0 or rng.random() < 0.7) else size
        if nonwf == "dirsize0":
            size = 0
    path = gen_path(rng)
    if root:
        path = rng.choice([".", gen_path(rng), "/abs/root"])
    prev = rng.choice([None, None, None, "", gen_path(rng), gen_path(rng)])
    return {"path": path, "dir": directory, "size": size, "lastmod": lastmod,
            "entries": [gen_entry(rng, f, directory, dates) for f in fmts], "prev": prev}


def gen_hashlist(rng, dates, nonwf=None, n_records=None):
    authors = []
    for _ in range(rng.choice([0, 0, 1, 1, 2, 4])):
        name = rng.choice([None, "", gen_text(rng), gen_text(rng), gen_text(rng)])
        if name == "-":
            name = "--"
        authors.append({"name": name, "email": opt(rng, lambda: gen_text(rng), 0.4), "phone": opt(rng, lambda: gen_text(rng), 0.5),
                        "role": opt(rng, lambda: gen_text(rng), 0.5)})
    if nonwf == "dash" :
        authors.append({"name": "-", "email": None, "phone": None, "role": "x"})
    creator = {"date": gen_text(rng) if rng.random() < 0.3 else "2020-01-15T13:00:00+00:00", "host": gen_text(rng),
               "tool": (gen_text(rng) if rng.random() < 0.5 else "ascmhl", gen_text(rng) if rng.random() < 0.5 else "1.2"),
               "authors": authors, "location": opt(rng, lambda: gen_text(rng), 0.4), "comment": opt(rng, lambda: gen_text(rng), 0.4)}
    pats = []
    for _ in range(rng.choice([1, 2, 3, 3, 5, 9])):
        p = rng.choice([".DS_Store", "ascmhl", "ascmhl/", "*.tmp", "/a/b", gen_text(rng), gen_text(rng)])
        if p not in pats:
            pats.append(p)
    r = rng.random()
    if r < 0.04:
        pats = pats + [pats[0]]                                # a list no MHLIgnoreSpec can hold (set directly)
    elif r < 0.08:
        pats = []
    ignore = None if rng.random() < 0.03 else pats
    root = None
    if rng.random() < 0.6:
        root = gen_record(rng, dates, directory=True, root=True, nonwf=nonwf if nonwf == "dupfmt" else None)
    process = (rng.choice(["in-place", "flatten", "in-place", gen_text(rng)]), opt(rng, lambda: gen_text(rng), 0.7))
    n = rng.choice([0, 1, 1, 2, 3, 5, 8]) if rng.random() < 0.93 else 40
    n = n if n_records is None else n_records
    records = [gen_record(rng, dates, nonwf=nonwf) for _ in range(n)]
    if n_records is not None:
        # long path texts: wherever the reader's blocks end, some path text straddles the end of one
        for k, rec in enumerate(records):
            rec["path"] = gen_path(rng, normal=True) + "/" + "reel_%04d_" % k + gen_text(rng, "name") * 3 + "_take_" * rng.randrange(10, 30) + gen_text(rng, "name")
    if nonwf in ("xxh32", "dirsize0", "dupfmt") and not records:
        records = [gen_record(rng, dates, directory=(nonwf != "xxh32"), nonwf=nonwf)]
    refs = []
    for i in range(rng.choice([0, 0, 0, 1, 2, 4])):
        comps = [gen_text(rng, "name") for _ in range(rng.choice([1, 1, 2, 3]))] + ["ascmhl", f"{rng.randrange(1, 12000):04d}_{gen_text(rng, 'name')}.mhl"]
        refs.append({"path": "/".join(comps), "data": rng.randbytes(rng.choice([0, 1, 30]))})
    return {"creator": creator, "process": {"process": process, "root": root, "ignore": ignore}, "records": records, "refs": refs}


# --------------------------------------------------------------------------------------- token encoding (driver)
def T(s):
    return core.tok(s)


def OT(s):
    return ["N"] if s is None else ["S", T(s)]


def enc_date(d):
    return [str(x) for x in d]


def enc_odate(d):
    return ["N"] if d is None else ["S"] + enc_date(d)


def enc_entry(e):
    return [T(e["fmt"])] + OT(e["digest"]) + OT(e["action"]) + enc_odate(e["date"]) + OT(e["struct"])


def enc_record(r):
    out = OT(r["path"]) + ["1" if r["dir"] else "0"] + (["N"] if r["size"] is None else ["S", format(r["size"], "x")]) + enc_odate(r["lastmod"])
    out += [str(len(r["entries"]))]
    for e in r["entries"]:
        out += enc_entry(e)
    return out + OT(r["prev"])


def enc_hashlist(h):
    out = []
    c = h["creator"]
    if c is None:
        out += ["N"]
    else:
        out += ["S"] + OT(c["date"]) + OT(c["host"])
        out += ["N"] if c["tool"] is None else (["S"] + OT(c["tool"][0]) + OT(c["tool"][1]))
        out += [str(len(c["authors"]))]
        for a in c["authors"]:
            out += OT(a["name"]) + OT(a["email"]) + OT(a["phone"]) + OT(a["role"])
        out += OT(c["location"]) + OT(c["comment"])
    p = h["process"]
    out += ["N"] if p["process"] is None else (["S"] + OT(p["process"][0]) + OT(p["process"][1]))
    out += ["N"] if p["root"] is None else (["S"] + enc_record(p["root"]))
    if p["ignore"] is None:
        out += ["N"]
    else:
        out += ["S", str(len(p["ignore"]))]
        for x in p["ignore"]:
            out += OT(x)
    out += [str(len(h["records"]))]
    for r in h["records"]:
        out += enc_record(r)
    out += [str(len(h["refs"]))]
    for r in h["refs"]:
        out += OT(r["path"]) + OT(r["c4"])
    return out


def enc_seq(s):
    if s is None:
        return ["N"]
    if isinstance(s, int):
        return ["I", str(s)]
    return ["T", T(s)]


def enc_chain(c):
    out = [str(len(c))]
    for e in c:
        out += enc_seq(e["no"]) + OT(e["file"]) + OT(e["fmt"]) + OT(e["hash"])
    return out


def enc_tree(x):
    tag, attrs, text, kids = x
    out = ["E", T(tag), str(len(attrs))]
    for k, v in attrs:
        out += [T(k), T(v)]
    out += OT(text) + [str(len(kids))]
    for k in kids:
        out += enc_tree(k)
    return out


class Toks:
    def __init__(self, s):
        self.t = s.split(" ") if s else []
        self.i = 0

    def next(self):
        x = self.t[self.i]
        self.i += 1
        return x

    def text(self):
        return core.untok(self.next())

    def otext(self):
        return self.text() if self.next() == "S" else None

    def int(self):
        return int(self.next())

    def lst(self, f):
        return [f() for _ in range(self.int())]

    def odate(self):
        return tuple(self.int() for _ in range(8)) if self.next() == "S" else None

    def entry(self):
        return {"fmt": self.text(), "digest": self.otext(), "action": self.otext(), "date": self.odate(), "struct": self.otext()}

    def record(self):
        path = self.otext()
        d = self.next() == "1"
        size = int(self.next(), 16) if self.next() == "S" else None
        lastmod = self.odate()
        entries = self.lst(self.entry)
        return {"path": path, "dir": d, "size": size, "lastmod": lastmod, "entries": entries, "prev": self.otext()}

    def hashlist(self):
        c = None
        if self.next() == "S":
            c = {"date": self.otext(), "host": self.otext()}
            c["tool"] = (self.otext(), self.otext()) if self.next() == "S" else None
            c["authors"] = self.lst(lambda: {"name": self.otext(), "email": self.otext(), "phone": self.otext(), "role": self.otext()})
            c["location"], c["comment"] = self.otext(), self.otext()
        p = {"process": (self.otext(), self.otext()) if self.next() == "S" else None}
        p["root"] = self.record() if self.next() == "S" else None
        p["ignore"] = self.lst(self.otext) if self.next() == "S" else None
        records = self.lst(self.record)
        refs = self.lst(lambda: {"path": self.otext(), "c4": self.otext()})
        return {"creator": c, "process": p, "records": records, "refs": refs}

    def seq(self):
        k = self.next()
        return int(self.next()) if k == "I" else (self.text() if k == "T" else None)

    def chainent(self):
        return {"no": self.seq(), "file": self.otext(), "fmt": self.otext(), "hash": self.otext()}

    def chain(self):
        return self.lst(self.chainent)

    def tree(self):
        assert self.next() == "E"
        tag = self.text()
        attrs = self.lst(lambda: (self.text(), self.text()))
        text = self.otext()
        return (tag, attrs, text, self.lst(self.tree))

    def result(self, f):
        return f() if self.next() == "OK" else "ERR"


class XmlModel:
    def __init__(self):
        self.p = subprocess.Popen([XML_DRIVER], stdin=subprocess.PIPE, stdout=subprocess.PIPE, text=True, bufsize=1, preexec_fn=core._unlimit_stack)

    def call(self, words):
        self.p.stdin.write(" ".join(words) + "\n")
        self.p.stdin.flush()
        out = self.p.stdout.readline()
        if not out.startswith("R"):
            raise RuntimeError("xml model driver died")
        out = out[2:].rstrip("\n")
        if out.startswith("FAIL"):
            raise RuntimeError("xml model driver: " + out)
        return out

    def hashlist(self, h):
        parts = self.call(["hl"] + enc_hashlist(h)).split(" | ")
        return {"wf": parts[0] == "1", "tree": Toks(parts[1]).tree(), "tree_ok": parts[2] == "1",
                "read": _res(parts[3], "hashlist"), "canon": Toks(parts[4]).hashlist()}

    def chain(self, c):
        parts = self.call(["ch"] + enc_chain(c)).split(" | ")
        return {"wf": parts[0] == "1", "tree": Toks(parts[1]).tree(), "tree_ok": parts[2] == "1", "read": _res(parts[3], "chain"), "canon": Toks(parts[4]).chain()}

    def read_tree(self, x, chain=False):
        return _res(self.call(["rc" if chain else "rd"] + enc_tree(x)), "chain" if chain else "hashlist")

    def new_entry(self, file_name, c4, number):
        return Toks(self.call(["newent", T(file_name), T(c4), str(number)])).chainent()

    def close(self):
        try:
            self.p.stdin.close()
            self.p.wait(timeout=5)
        except Exception:  # noqa
            self.p.kill()


def _res(s, what):
    tk = Toks(s)
    if tk.next() != "OK":
        return "ERR"
    return getattr(tk, what)()


def build_xml_driver():
    """Extract/ExtractXml.vo -> ocaml/xml_model.ml -> ocaml/xml_driver (core.coq_step only builds the shared driver)"""
    with core.BuildLock():
        rc, out, err = core.run(["make", "-j16", "Extract/ExtractXml.vo"], 900, cwd=core.COQ)
        if rc != 0:
            raise RuntimeError("extraction of the xml model failed: " + (out + err)[-1500:])
        src = [os.path.join(core.VERIF, "ocaml", f) for f in ("xml_model.ml", "xml_driver.ml")]
        if not os.path.exists(XML_DRIVER) or any(os.path.getmtime(s) > os.path.getmtime(XML_DRIVER) for s in src):
            rc, out, err = core.run([os.path.join(core.VERIF, "ocaml", "build.sh")], 600)
            if rc != 0 or not os.path.exists(XML_DRIVER):
                raise RuntimeError("xml driver build failed: " + (out + err)[-1500:])


# ------------------------------------------------------------------------------------------- the real objects
def real_media_hash(H, r, dates):
    mh = H.MHLMediaHash()
    mh.path = r["path"]
    mh.is_directory = r["dir"]
    mh.file_size = r["size"]
    mh.last_modification_date = dates[r["lastmod"]] if r["lastmod"] is not None else None
    mh.previous_path = r["prev"]
    for e in r["entries"]:
        he = H.MHLHashEntry(e["fmt"], e["digest"], e["action"], dates[e["date"]] if e["date"] is not None else None)
        if e["date"] is None:
            he.hash_date = None          # the constructor substitutes now(); an entry without a date exists only this way
        he.structure_hash_string = e["struct"]
        mh.append_hash_entry(he)
    return mh


def real_hashlist(spec, dates, root_dir):
    """builds the MHLHashList the spec describes; files of the referenced child manifests are created below root_dir;
    fills in the c4 of each reference (independent codec) in the spec"""
    import ascmhl.hashlist as H
    from ascmhl.ignore import MHLIgnoreSpec

    hl = H.MHLHashList()
    c = spec["creator"]
    ci = H.MHLCreatorInfo()
    ci.creation_date, ci.host_name = c["date"], c["host"]
    ci.tool = H.MHLTool(c["tool"][0], c["tool"][1])
    for a in c["authors"]:
        ci.authors.append(H.MHLAuthor(a["name"], a["email"], a["phone"], a["role"]))
    ci.location, ci.comment = c["location"], c["comment"]
    hl.creator_info = ci
    p = spec["process"]
    pi = H.MHLProcessInfo()
    pi.process = H.MHLProcess(p["process"][0], p["process"][1])
    if p["ignore"] is None:
        pi.ignore_spec = None
    else:
        pi.ignore_spec = MHLIgnoreSpec()
        pi.ignore_spec._ignore_list = list(p["ignore"])
    hl.process_info = pi
    if p["root"] is not None:
        pi.root_media_hash = real_media_hash(H, p["root"], dates)
    for r in spec["records"]:
        hl.append_hash(real_media_hash(H, r, dates))
    for rf in spec["refs"]:
        child = H.MHLHashList()
        child.file_path = os.path.join(root_dir, rf["path"])
        os.makedirs(os.path.dirname(child.file_path), exist_ok=True)
        with open(child.file_path, "wb") as fh:
            fh.write(rf["data"])
        rf["c4"] = impl.digest_text("c4", rf["data"])
        hl.referenced_hash_lists.append(child)
    return hl


def date_tuple(dt):
    """datetime the reader produced -> model tuple; a naive one is the constructor's now() (no hashdate attribute)"""
    if dt is None or dt.tzinfo is None:
        return None
    off = dt.utcoffset()
    return (dt.year, dt.month, dt.day, dt.hour, dt.minute, dt.second, dt.microsecond, int(off.total_seconds() // 60)) if off.total_seconds() % 60 == 0 else ("odd-offset", str(dt))


def spec_of_media_hash(mh):
    return {"path": mh.path, "dir": bool(mh.is_directory), "size": mh.file_size,
            "lastmod": date_tuple(mh.last_modification_date) if mh.last_modification_date is not None else None,
            "entries": [{"fmt": e.hash_format, "digest": e.hash_string, "action": e.action, "date": date_tuple(e.hash_date), "struct": e.structure_hash_string}
                        for e in mh.hash_entries],
            "prev": mh.previous_path}


def spec_of_real(hl):
    import ascmhl.hashlist as H

    ci = hl.creator_info
    c = None
    if ci is not None:
        c = {"date": ci.creation_date, "host": ci.host_name, "tool": (ci.tool.name, ci.tool.version) if ci.tool is not None else None,
             "authors": [{"name": a.name, "email": a.email, "phone": a.phone, "role": a.role} for a in ci.authors],
             "location": ci.location, "comment": ci.comment}
    pi = hl.process_info
    pr = pi.process
    if isinstance(pr, H.MHLProcess):
        pr = (pr.process_type, pr.name)
    elif pr is not None:
        pr = (pr, None)                  # the reader stores the type string itself
    p = {"process": pr, "root": spec_of_media_hash(pi.root_media_hash) if pi.root_media_hash is not None else None,
         "ignore": pi.ignore_spec.get_pattern_list() if pi.ignore_spec is not None else None}
    return {"creator": c, "process": p, "records": [spec_of_media_hash(m) for m in hl.media_hashes],
            "refs": [{"path": r.path, "c4": r.reference_hash} for r in hl.hash_list_references]}


def path_index_of_real(hl):
    """media_hashes_path_map as {key: index into media_hashes | 'root'}"""
    idx = {id(m): i for i, m in enumerate(hl.media_hashes)}
    return {k: idx.get(id(v), "root") for k, v in hl.media_hashes_path_map.items()}


def expected_path_index(spec):
    """hashlist.append_hash, replayed over what was read: previous path (or path) and path point at the record, later
    records win; the root registers under '.'"""
    out = {}
    root = spec["process"]["root"]
    # the reader appends the root hash first (processinfo precedes hashes)
    if root is not None:
        out[root["prev"] or root["path"]] = "root"
        out[root["path"]] = "root"
    for i, r in enumerate(spec["records"]):
        out[r["prev"] or r["path"]] = i
        out[r["path"]] = i
    return out


# ---------------------------------------------------------------------------- independent view of the file (expat)
def et_tree(path, ns):
    """-> (tree as nested tuples (local tag, [(attr, value)], text|None, kids), list of complaints)"""
    problems = []

    def conv(el):
        if not el.tag.startswith("{" + ns + "}"):
            problems.append(f"element {el.tag} outside namespace {ns}")
        kids = [conv(k) for k in el]
        text = el.text
        if kids:
            if text is not None and text.strip(" \n\t\r") != "":
                problems.append(f"mixed content in {el.tag}: {text!r}")
            text = None
            for k in el:
                if k.tail is not None and k.tail.strip(" \n\t\r") != "":
                    problems.append(f"text after {k.tag}: {k.tail!r}")
        elif text == "":
            text = None
        return (impl.lname(el.tag), list(el.attrib.items()), text, kids)

    return conv(ET.parse(path).getroot()), problems


def iso_tuple(s):
    """independent of dateutil: datetime.fromisoformat"""
    if s is None:
        return None
    dt = datetime.datetime.fromisoformat(s)
    return date_tuple(dt) if dt.tzinfo is not None else ("naive", s)


def spec_of_independent(m):
    """vh.impl.read_manifest dict -> the comparable part of a spec (records, root, patterns, refs, process, creator)"""
    recs = []
    for r in m["records"]:
        if r["is_dir"]:
            ents = [{"fmt": f, "digest": c, "action": a, "date": iso_tuple(hd), "struct": s}
                    for (f, c, _, _, s), (_, a, hd) in zip(r["entries"], r["dir_attrs"])]
        else:
            ents = [{"fmt": f, "digest": d, "action": a, "date": iso_tuple(hd), "struct": None} for (f, d, a, hd, _) in r["entries"]]
        recs.append({"path": r["path"], "dir": r["is_dir"], "size": r["size"], "lastmod": None, "entries": ents, "prev": r["previous"]})
    root = None
    if m["root"] is not None:
        root = {"path": ".", "dir": True, "size": None, "lastmod": None, "prev": m.get("root_previous"),
                "entries": [{"fmt": f, "digest": c, "action": a, "date": iso_tuple(hd), "struct": s} for (f, c, s), (_, a, hd) in zip(m["root"], m["root_attrs"])]}
    cr = m["creator"]
    c = {"date": cr.get("creationdate"), "host": cr.get("hostname"), "tool": cr.get("tool"),
         "authors": [{"name": a.get("name"), "email": a.get("email"), "phone": a.get("phone"), "role": a.get("role")} for a in cr.get("authors", [])],
         "location": cr.get("location"), "comment": cr.get("comment")}
    return {"creator": c, "process": {"process": (m["process"], None) if m["process"] is not None else None, "root": root,
                                      "ignore": [p if p != "" else None for p in (m["patterns"] or [])]},
            "records": recs, "refs": [{"path": p, "c4": c4} for p, c4 in m["refs"]]}


# ------------------------------------------------------------------------------- the property's own equivalences
def _nt(s):
    return None if s == "" else s


def _posix(p):
    """what a POSIX path means, written out independently of pathlib: collapse '//' and '/./', no trailing slash"""
    if p is None:
        return None
    lead = "//" if (p.startswith("//") and not p.startswith("///")) else ("/" if p.startswith("/") else "")
    parts = [c for c in p.split("/") if c not in ("", ".")]
    return (lead + "/".join(parts)) or "."


def py_canon_entry(e, directory):
    return {"fmt": e["fmt"], "digest": _nt(e["digest"]), "action": e["action"] or None, "date": e["date"],
            "struct": _nt(e["struct"]) if directory else None}


def py_canon_record(r):
    ents = r["entries"] if r["dir"] else sorted(r["entries"], key=lambda e: e["fmt"])
    return {"path": _posix(r["path"]), "dir": r["dir"], "size": r["size"], "lastmod": None,
            "entries": [py_canon_entry(e, r["dir"]) for e in ents], "prev": _posix(r["prev"]) if r["prev"] else None}


def py_ignore(pats):
    out = []
    for p in (pats or [".DS_Store", "ascmhl", "ascmhl/"]):
        if p not in out:
            out.append(p)
    return out


def py_canon(h):
    c = h["creator"]
    root = h["process"]["root"]
    if root is not None:
        root = None if not root["entries"] else dict(py_canon_record(dict(root, dir=True)), path=".", size=None)
    pats = [_nt(p) for p in (h["process"]["ignore"] or [])]
    return {"creator": {"date": _nt(c["date"]), "host": _nt(c["host"]), "tool": (_nt(c["tool"][0]), c["tool"][1]),
                        "authors": [dict(a, name=_nt(a["name"])) for a in c["authors"]], "location": _nt(c["location"]), "comment": _nt(c["comment"])},
            "process": {"process": (h["process"]["process"][0], None) if _nt(h["process"]["process"][0]) is not None else None, "root": root,
                        "ignore": py_ignore(pats)},
            "records": [py_canon_record(r) for r in h["records"]], "refs": [{"path": _posix(r["path"]), "c4": _nt(r["c4"])} for r in h["refs"]]}


def first_diff(a, b, where=""):
    if type(a) != type(b) and not (isinstance(a, (list, tuple)) and isinstance(b, (list, tuple))):
        return f"{where}: {a!r} != {b!r}"
    if isinstance(a, dict):
        for k in sorted(set(a) | set(b)):
            if a.get(k) != b.get(k):
                return first_diff(a.get(k), b.get(k), f"{where}.{k}")
    if isinstance(a, (list, tuple)):
        if len(a) != len(b):
            return f"{where}: length {len(a)} != {len(b)}: {str(a)[:300]} != {str(b)[:300]}"
        for i, (x, y) in enumerate(zip(a, b)):
            if x != y:
                return first_diff(x, y, f"{where}[{i}]")
    return f"{where}: {a!r} != {b!r}" if a != b else None


def _short(x, n=1200):
    s = repr(x)
    return s if len(s) <= n else s[:n] + "..."


# ----------------------------------------------------------------------------------------------- one object case
def classify_texts(rep, spec):
    blob = "".join(str(v) for v in _all_texts(spec))
    for name, pred in (("xml-special", lambda s: any(c in s for c in "&<>\"'")), ("u2028/9", lambda s: "\u2028" in s or "\u2029" in s),
                       ("astral", lambda s: any(ord(c) > 0xFFFF for c in s)), ("cjk", lambda s: any(0x3000 <= ord(c) <= 0xD7A3 for c in s)),
                       ("latin1", lambda s: any(0xA1 <= ord(c) <= 0xFF for c in s)), ("tab", lambda s: "\t" in s), ("nbsp/zwsp", lambda s: "\u00a0" in s or "\u200b" in s),
                       ("backslash", lambda s: "\\" in s)):
        if pred(blob):
            rep.count("text." + name)


def _all_texts(x):
    if isinstance(x, str):
        yield x
    elif isinstance(x, dict):
        for v in x.values():
            yield from _all_texts(v)
    elif isinstance(x, (list, tuple)):
        for v in x:
            yield from _all_texts(v)


def hashlist_case(rep, model, scratch, spec, dates, tag, nonwf=None):
    import ascmhl.hashlist_xml_parser as P

    root_dir = scratch.new("h")
    file_path = os.path.join(root_dir, "ascmhl", "0001_x_2020-01-01_000000Z.mhl")
    hl = real_hashlist(spec, dates, root_dir)
    scn = {"op": "hashlist", "case": tag, "object": spec}
    try:
        P.write_hash_list(hl, file_path)
    except Exception as e:  # noqa
        rep.disagree(scn, "the writer accepts every object the generator makes", f"{type(e).__name__}: {e}", "write_hash_list raised")
        return None
    m = model.hashlist(spec)
    rep.count("hashlist.wf" if m["wf"] else "hashlist.nonwf." + str(nonwf))
    if not m["tree_ok"]:
        rep.disagree(scn, "tree_ok", None, "generator produced text outside the domain of the trusted premise")
    if nonwf is None and not m["wf"]:
        rep.disagree(scn, "wf = true", "wf = false", "the generator's well-formed object is not wf in the model")
    # (a) tree the model emits == tree expat sees in the real file
    tree, problems = et_tree(file_path, NS_MANIFEST)
    for pr in problems:
        rep.violate("c10-file-shape", scn, "elements in the manifest namespace, no mixed content", pr, "the written manifest is not the element tree the object describes")
    if tree != m["tree"]:
        rep.disagree(scn, _short(m["tree"]), _short(tree), "emit_hashlist differs from the file write_hash_list produced: " + str(first_diff(m["tree"], tree, "tree")))
    # (b) real reader == read (emit o) == canon o
    try:
        back = P.parse(file_path)
        got = spec_of_real(back)
    except Exception as e:  # noqa
        back, got = None, "ERR"
        if m["read"] != "ERR":
            rep.violate("c10-reader-raises", scn, "the reader accepts what the writer wrote", f"{type(e).__name__}: {e}", "hashlist_xml_parser.parse raised on a file written by write_hash_list")
    if got != m["read"]:
        rep.disagree(scn, _short(m["read"]), _short(got), "read_hashlist (emit_hashlist o) differs from what the real reader returns: " + str(first_diff(m["read"], got, "object")))
    if m["wf"] and m["read"] != m["canon"]:
        rep.disagree(scn, _short(m["canon"]), _short(m["read"]), "model: read (emit o) <> canon o on a wf object (contradicts hashlist_roundtrip)")
    if got == "ERR":
        return file_path
    # derived lookup index
    if path_index_of_real(back) != expected_path_index(got):
        rep.violate("c10-path-index", scn, expected_path_index(got), path_index_of_real(back), "media_hashes_path_map does not map path and previous path to the record read")
    # oracle 1: original object == what the reader returns, modulo the documented equivalences
    if m["wf"]:
        want = py_canon(spec)
        if got != want:
            d = first_diff(want, got, "object")
            rep.violate("c10-roundtrip:" + (d or "").split(":")[0].split("[")[0], scn, _short(want), _short(got), "the tool's reader does not return what was written: " + str(d))
    # oracle 2: the independent reader extracts the same values from the same file
    ind = spec_of_independent(impl.read_manifest(file_path))
    cmp_got = dict(got, process=dict(got["process"], ignore=None), creator=dict(got["creator"] or {}))
    cmp_ind = dict(ind, process=dict(ind["process"], ignore=None))
    if m["wf"] and cmp_got != cmp_ind:
        d = first_diff(cmp_ind, cmp_got, "object")
        rep.violate("c10-independent:" + (d or "").split(":")[0].split("[")[0], scn, _short(cmp_ind), _short(cmp_got), "the tool's reader and the independent XML reader disagree on the same file: " + str(d))
    if m["wf"] and py_ignore(ind["process"]["ignore"]) != got["process"]["ignore"]:
        rep.violate("c10-independent-patterns", scn, py_ignore(ind["process"]["ignore"]), got["process"]["ignore"], "ignore patterns: reader vs independent reader")
    return file_path


def chain_case(rep, model, scratch, rng, manifest_path, tag):
    import ascmhl.chain as C
    import ascmhl.chain_xml_parser as CP
    import ascmhl.hashlist as H

    d = os.path.dirname(manifest_path)
    chain_path = os.path.join(d, "ascmhl_chain.xml")
    n = rng.choice([0, 1, 2, 3, 5, 12, 15])
    gens, start = [], rng.choice([1, 1, 1, 7, 98])
    for i in range(n):
        r = rng.random()
        no = start + i
        if r < 0.5:
            no = str(no) if rng.random() < 0.5 else no
        elif r < 0.6:
            no = f"{no:04d}"
        elif r < 0.7:
            no = rng.choice([-1, 0, 10**12, gen_text(rng), ""])
        elif r < 0.8:
            no = rng.randrange(0, 30)
        gens.append({"no": no, "file": rng.choice([f"{i:04d}_{gen_text(rng, 'name')}.mhl", gen_path(rng)]), "fmt": "c4", "hash": gen_digest(rng, "c4") or "c4x"})
    nonwf = None
    if gens and rng.random() < 0.05:
        gens[rng.randrange(len(gens))]["fmt"] = rng.choice(["md5", "xxh64"])
        nonwf = "non-c4"
    chain = C.MHLChain(chain_path)
    for g in gens:
        chain.append_generation(C.MHLChainGeneration(g["no"], g["file"], g["fmt"], g["hash"]))
    new = H.MHLHashList()
    new.file_path = manifest_path
    new.generation_number = rng.choice([1, 2, 10, len(gens) + 1, 12345])
    with open(manifest_path, "rb") as fh:
        c4 = impl.digest_text("c4", fh.read())
    spec = gens + [model.new_entry(os.path.basename(manifest_path), c4, new.generation_number)]
    scn = {"op": "chain", "case": tag, "object": spec}
    CP.write_chain(chain, new)
    m = model.chain(spec)
    rep.count("chain.wf" if m["wf"] else "chain.nonwf")
    rep.count(f"chain.entries.{min(len(spec), 10)}{'+' if len(spec) > 10 else ''}")
    if nonwf is None and not m["wf"]:
        rep.disagree(scn, "wf_chain = true", "false", "the generator's well-formed chain is not wf in the model")
    tree, problems = et_tree(chain_path, NS_CHAIN)
    for pr in problems:
        rep.violate("c10-chain-shape", scn, "elements in the chain namespace, no mixed content", pr, "the written chain file is not the element tree the object describes")
    if tree != m["tree"]:
        rep.disagree(scn, _short(m["tree"]), _short(tree), "emit_chain differs from the file write_chain produced: " + str(first_diff(m["tree"], tree, "tree")))
    try:
        back = CP.parse(chain_path)
    except Exception as e:  # noqa
        rep.violate("c10-chain-reader-raises", scn, "the chain reader accepts what write_chain wrote", f"{type(e).__name__}: {e}", "chain_xml_parser.parse raised on a file written by write_chain")
        return
    got = [{"no": g.generation_number, "file": g.ascmhl_filename, "fmt": g.hash_format, "hash": g.hash_string} for g in back.generations]
    if got != m["read"]:
        rep.disagree(scn, _short(m["read"]), _short(got), "read_chain (emit_chain c) differs from what the real reader returns: " + str(first_diff(m["read"], got, "chain")))
    if m["wf"] and m["read"] != m["canon"]:
        rep.disagree(scn, _short(m["canon"]), _short(m["read"]), "model: read_chain (emit_chain c) <> canon_chain c on a wf chain")
    if m["wf"]:
        want = [{"no": str(e["no"]), "file": _posix(e["file"]), "fmt": "c4", "hash": _nt(e["hash"])} for e in spec]
        if got != want:
            dd = first_diff(want, got, "chain")
            rep.violate("c10-chain-roundtrip", scn, _short(want), _short(got), "the chain reader does not return the entries that were written, in order: " + str(dd))
        ind = [{"no": s, "file": f, "fmt": "c4", "hash": h} for (s, f, h) in impl.read_chain(chain_path)]
        if got != ind:
            rep.violate("c10-chain-independent", scn, _short(ind), _short(got), "chain: the tool's reader and the independent XML reader disagree: " + str(first_diff(ind, got, "chain")))
    rep.case(("chain", tag, repr(spec)), nontrivial=len(spec) > 1, sample={"chain_entries": len(spec), "numbers": [e["no"] for e in spec][:14]} if len(spec) > 10 else None)


# ------------------------------------------------------------------------------------- command-sequence manifests
RICH_NAMES = ["a b.txt", "p q", "x&y<z>.mov", "q'\"r", " lead", "trail ", "tab\tin", "nb\u00a0sp", "zw\u200bsp", "back\\slash",
              "\U0001F3AC clip.mov", "\u6587\u4ef6", "\u00fc", "#;=%", "a\u2028b", "p\u2029q", "&amp;", "]]>", "<!--"]


def sequence_scenario(rng):
    scn = gen.gen_history_scenario(rng, n_steps=rng.choice([3, 5, 7]), max_entries=8, max_depth=3, ds_store=False,
                                   edit_kinds=("set", "add", "delete", "mkdir", "touch", "rename"))
    tree = scn["tree"]
    for _ in range(rng.choice([1, 2, 4])):
        name = rng.choice(RICH_NAMES) if rng.random() < 0.7 else gen_text(rng, "name")
        if name in tree or name in ("ascmhl", ".DS_Store"):
            continue
        tree[name] = {"f": gen.gen_content(rng)} if rng.random() < 0.75 else {"d": {gen_text(rng, "name"): {"f": gen.gen_content(rng)}}}
    steps = []
    for st in scn["steps"]:
        if st["op"] == "create":
            st = dict(st)
            if rng.random() < 0.6:
                cr = {}
                if rng.random() < 0.8:
                    cr["author_name"] = gen_text(rng, allow_empty=False)
                if rng.random() < 0.4:
                    cr["author_email"] = rng.choice(["a@b.cd", "x.y@z-w.org"])
                if rng.random() < 0.4:
                    cr["author_phone"] = gen_text(rng, allow_empty=False)
                if rng.random() < 0.4:
                    cr["author_role"] = gen_text(rng, allow_empty=False)
                if rng.random() < 0.5:
                    cr["location"] = gen_text(rng, allow_empty=False)
                if rng.random() < 0.5:
                    cr["comment"] = gen_text(rng, allow_empty=False)
                cr = {k: v for k, v in cr.items() if not v.startswith("-") and v != ""}
                st["creator"] = cr
            if rng.random() < 0.4:
                st["dr"] = True
            if rng.random() < 0.25:
                st["i"] = (st.get("i") or []) + [gen_text(rng, allow_empty=False).lstrip("-") or "x"]
        steps.append(st)
    # a rename that create -dr records as previousPath
    files = [f for f in gen.all_files(tree) if ".DS_Store" not in f]
    if files and rng.random() < 0.7:
        src = rng.choice(files)
        steps.append({"op": "create", "fmts": gen.gen_fmts(rng)})
        steps.append({"op": "rename", "path": src, "to": rng.choice(RICH_NAMES[:6]) + "_moved"})
        steps.append({"op": "create", "fmts": gen.gen_fmts(rng), "dr": True})
    return {"tree": tree, "steps": steps}


def sequence_case(rep, model, scratch, rng, i):
    import ascmhl.chain_xml_parser as CP
    import ascmhl.hashlist_xml_parser as P

    scn = sequence_scenario(rng)
    try:
        obs, root = world.run_impl(scn, scratch)
    except Exception as e:  # noqa  (edits that do not apply to the evolving tree)
        rep.count("sequence.skipped:" + type(e).__name__)
        return
    pub = {"op": "sequence", "tree": scn["tree"], "steps": scn["steps"]}
    n_files = 0
    for d, _, files in os.walk(os.path.dirname(root)):
        for f in sorted(files):
            p = os.path.join(d, f)
            if f.endswith(".mhl"):
                n_files += 1
                where = dict(pub, file=os.path.relpath(p, os.path.dirname(root)))
                tree, problems = et_tree(p, NS_MANIFEST)
                for pr in problems:
                    rep.violate("c10-file-shape", where, "elements in the manifest namespace, no mixed content", pr, "a manifest written by the tool is not a plain element tree")
                want = model.read_tree(tree)
                try:
                    back = P.parse(p)
                    got = spec_of_real(back)
                except Exception as e:  # noqa
                    got = "ERR"
                    rep.violate("c10-reader-raises", where, "readable", f"{type(e).__name__}: {e}", "the tool cannot read a manifest it wrote")
                    continue
                if got != want:
                    rep.disagree(where, _short(want), _short(got), "tool-written manifest: real reader differs from the model reader run on the tree expat sees: " + str(first_diff(want, got, "object")))
                ind = spec_of_independent(impl.read_manifest(p))
                cmp_got = dict(got, process=dict(got["process"], ignore=None))
                cmp_ind = dict(ind, process=dict(ind["process"], ignore=None))
                if cmp_got != cmp_ind:
                    dd = first_diff(cmp_ind, cmp_got, "object")
                    rep.violate("c10-independent:" + (dd or "").split(":")[0].split("[")[0], where, _short(cmp_ind), _short(cmp_got), "tool-written manifest: the tool's reader and the independent XML reader disagree: " + str(dd))
                if py_ignore(ind["process"]["ignore"]) != got["process"]["ignore"]:
                    rep.violate("c10-independent-patterns", where, py_ignore(ind["process"]["ignore"]), got["process"]["ignore"], "ignore patterns: reader vs independent reader")
                if path_index_of_real(back) != expected_path_index(got):
                    rep.violate("c10-path-index", where, expected_path_index(got), path_index_of_real(back), "media_hashes_path_map does not map path and previous path to the record read")
                rep.count("sequence.manifests")
                if any(r["prev"] for r in got["records"]):
                    rep.count("sequence.manifests.with-previousPath")
                if got["process"]["root"] is not None:
                    rep.count("sequence.manifests.with-roothash")
                if got["refs"]:
                    rep.count("sequence.manifests.with-references")
                if any(r["dir"] for r in got["records"]):
                    rep.count("sequence.manifests.with-directoryhash")
                if got["creator"] and got["creator"]["authors"]:
                    rep.count("sequence.manifests.with-author")
            elif f == "ascmhl_chain.xml":
                n_files += 1
                where = dict(pub, file=os.path.relpath(p, os.path.dirname(root)))
                tree, problems = et_tree(p, NS_CHAIN)
                for pr in problems:
                    rep.violate("c10-chain-shape", where, "elements in the chain namespace", pr, "a chain file written by the tool is not a plain element tree")
                want = model.read_tree(tree, chain=True)
                try:
                    back = CP.parse(p)
                except Exception as e:  # noqa
                    rep.violate("c10-chain-reader-raises", where, "readable", f"{type(e).__name__}: {e}", "the tool cannot read a chain file it wrote")
                    continue
                got = [{"no": g.generation_number, "file": g.ascmhl_filename, "fmt": g.hash_format, "hash": g.hash_string} for g in back.generations]
                if got != want:
                    rep.disagree(where, _short(want), _short(got), "tool-written chain: real reader differs from the model reader: " + str(first_diff(want, got, "chain")))
                ind = [{"no": s, "file": fn, "fmt": "c4", "hash": h} for (s, fn, h) in impl.read_chain(p)]
                if got != ind:
                    rep.violate("c10-chain-independent", where, _short(ind), _short(got), "tool-written chain: the tool's reader and the independent XML reader disagree")
                # every chained manifest exists and its c4 is the one recorded; numbers ascend in file order
                nums = [int(g["no"]) for g in got]
                if nums != sorted(nums):
                    rep.violate("c10-chain-order", where, sorted(nums), nums, "chain entries are not in ascending order of their sequence number")
                for g in got:
                    mp = os.path.join(d, g["file"])
                    if os.path.exists(mp):
                        with open(mp, "rb") as fh:
                            c4 = impl.digest_text("c4", fh.read())
                        if c4 != g["hash"]:
                            rep.violate("c10-chain-hash", where, c4, g["hash"], "chain entry does not carry the c4 of the manifest it names")
                rep.count("sequence.chains")
                rep.count(f"sequence.chain.entries.{len(got)}")
    rep.case(("sequence", i, repr(scn["steps"])[:4000]), nontrivial=n_files > 0,
             sample={"sequence_steps": [s["op"] for s in scn["steps"]], "files_checked": n_files} if i < 2 else None)
    rep.traces += 1


# -------------------------------------------------------------------------------------------------------- check
def run_object(rep, model, scratch, rng, i, nonwf=None, n_records=None):
    dates = {}
    spec = gen_hashlist(rng, dates, nonwf=nonwf, n_records=n_records)
    tag = f"{i}" + (f"/{nonwf}" if nonwf else "")
    classify_texts(rep, spec)
    rep.count(f"hashlist.records.{min(len(spec['records']), 9)}{'+' if len(spec['records']) > 9 else ''}")
    rep.count(f"hashlist.refs.{len(spec['refs'])}")
    rep.count(f"hashlist.authors.{len(spec['creator']['authors'])}")
    rep.count("hashlist.patterns." + ("none" if spec["process"]["ignore"] is None else str(min(len(spec["process"]["ignore"]), 9))))
    rep.count("hashlist.root." + ("absent" if spec["process"]["root"] is None else ("empty" if not spec["process"]["root"]["entries"] else "present")))
    for r in spec["records"]:
        rep.count("record." + ("directory" if r["dir"] else "file"))
        rep.count("record.size." + ("none" if r["size"] is None else ("0" if r["size"] == 0 else ("1" if r["size"] == 1 else ("big" if r["size"] >= 2**31 else "n")))))
        rep.count(f"record.formats.{len(r['entries'])}")
        if r["prev"]:
            rep.count("record.previousPath")
        if r["path"] != _posix(r["path"]):
            rep.count("record.path.not-normal")
        for e in r["entries"]:
            rep.count("entry.action." + (e["action"] if e["action"] in ACTIONS else ("none" if e["action"] is None else ("empty" if e["action"] == "" else "other"))))
            rep.count("entry.date." + ("none" if e["date"] is None else ("us" if e["date"][6] else "whole-second")))
    path = hashlist_case(rep, model, scratch, spec, dates, tag, nonwf=nonwf)
    rep.case(("hashlist", tag, repr(spec)), nontrivial=bool(spec["records"]),
             sample={"records": [(r["path"], r["size"], [e["fmt"] for e in r["entries"]]) for r in spec["records"][:3]], "authors": spec["creator"]["authors"][:1]} if i < 3 else None)
    return path


SUBMINUTE_SCRIPT = r"""
import os, sys, json
sys.path.insert(0, os.environ["VERIF_REPO"])
from click.testing import CliRunner
import ascmhl.commands as c
import ascmhl.hashlist_xml_parser as hp
root = sys.argv[1]
out = []
for cmd, args in ((c.create, [root, "-h", "md5"]), (c.create, [root, "-h", "md5", "-h", "xxh64"]), (c.verify, [root]), (c.info, [root])):
    r = CliRunner().invoke(cmd, args)
    out.append([r.exit_code, type(r.exception).__name__ if r.exception is not None and not isinstance(r.exception, SystemExit) else None])
dates = []
d = os.path.join(root, "ascmhl")
for f in sorted(os.listdir(d)):
    if f.endswith(".mhl"):
        hl = hp.parse(os.path.join(d, f))
        for mh in hl.media_hashes:
            for e in mh.hash_entries:
                dates.append([f, mh.path, e.hash_format, e.hash_date.isoformat() if e.hash_date is not None else None])
print("RESULT " + json.dumps({"outcomes": out, "dates": dates}))
"""


def subminute_zone(rep, scratch):
    """hash dates are written with the utc offset in force; in a zone whose offset is not a whole number of minutes that
    offset has seconds (+00:53:28).  What the tool wrote must be read back by the tool (the following commands load the
    history) and the value recovered unchanged."""
    import re
    import subprocess

    base = scratch.new("lmt")
    root = os.path.join(base, "r")
    os.mkdir(root)
    with open(os.path.join(root, "a.txt"), "wb") as fh:
        fh.write(b"abc")
    env = dict(os.environ, TZ="<LMT>-0:53:28", VERIF_REPO=core.REPO, PYTHONPATH=core.REPO)
    p = subprocess.run([core.PY, "-c", SUBMINUTE_SCRIPT, root], capture_output=True, text=True, env=env, timeout=120)
    res = None
    for ln in p.stdout.splitlines():
        if ln.startswith("RESULT "):
            res = json.loads(ln[7:])
    rep.case(("subminute-zone",), sample=None)
    rep.count("subminute_zone_run")
    if res is None:
        rep.violate("reader-aborts-on-own-hashdate", {"scenario": "TZ=<LMT>-0:53:28: create; create; verify; info", "stderr": p.stderr[-600:]},
                    "every command loads what the tool wrote", "the run died: " + p.stderr[-300:], "the tool cannot read back the hash dates it wrote in a zone with a sub-minute utc offset")
        return
    bad = [o for o in res["outcomes"] if o[1] is not None or o[0] != 0]
    if bad:
        rep.violate("reader-aborts-on-own-hashdate", {"scenario": "TZ=<LMT>-0:53:28: create; create; verify; info"}, [[0, None]] * 4, res["outcomes"],
                    "a command aborts / fails on a history whose hash dates carry a utc offset with seconds (written by the tool itself)")
    written = {}
    d = os.path.join(root, "ascmhl")
    for f in sorted(os.listdir(d)):
        if f.endswith(".mhl"):
            txt = open(os.path.join(d, f), encoding="utf-8").read()
            written[f] = re.findall(r'hashdate="([^"]*)"', txt)
    for f, path, fmt, got in res["dates"]:
        if got not in written.get(f, []):
            rep.violate("hashdate-not-recovered", {"scenario": "TZ=<LMT>-0:53:28", "file": f, "path": path}, written.get(f), got, "the reader does not recover the hash date that was written")


def check(rep, tier, seed):
    build_xml_driver()
    rng = core.rng_for(seed, "C10")
    scratch = core.Scratch("C10")
    model = XmlModel()
    try:
        n_obj = 400 if tier == "quick" else 4000
        n_seq = 40 if tier == "quick" else 400
        for i in range(n_obj):
            path = run_object(rep, model, scratch, rng, i)
            if path is not None and i % 2 == 0:
                chain_case(rep, model, scratch, rng, path, str(i))
        # objects outside wf: the model must still predict what the real writer + reader do (no oracle)
        for j, kind in enumerate(["xxh32", "dash", "dirsize0", "dupfmt"] * (2 if tier == "quick" else 10)):
            run_object(rep, model, scratch, rng, 100000 + j, nonwf=kind)
        # manifests far larger than any read block of the streaming reader (hundreds of KB): every record comes back
        for j, nrec in enumerate([700] if tier == "quick" else [700, 2500, 2500]):
            run_object(rep, model, scratch, core.rng_for(seed, f"C10big{j}"), 200000 + j, n_records=nrec)
            rep.count("hashlist.big")
        for i in range(n_seq):
            sequence_case(rep, model, scratch, core.rng_for(seed, f"C10seq{i}"), i)
        subminute_zone(rep, scratch)
    finally:
        model.close()
        scratch.cleanup()


RULE = ("random MHLHashList / MHLChain objects: text of every field from a weighted alphabet (ASCII, Latin-1, CJK, astral, & < > \" ', blanks at both ends, NBSP, ZWSP, "
        "U+2028/2029, inner tabs, backslash), lengths 0/1/../200; sizes None/0/1/n/2^31..10^25; every subset of the six formats (plus a repeated one), actions "
        "original/verified/failed/new/None/''/free text, hash dates aware (offsets -23:59..+23:59) and naive, with and without microseconds, or absent; directory records "
        "with content+structure; previous paths; paths in and out of pathlib normal form; root hash absent/empty/present; 0..9 patterns; 0..4 authors with optional "
        "email/phone/role; one object (thorough: three) with 700-2500 records, i.e. a file of several hundred KB; location/comment; 0..4 references (real child files); chains of 0..15 entries with int / string / odd sequence numbers. Each object goes through "
        "the REAL writer and REAL reader and through xml.etree; compared with the extracted emit/read/canon. Plus manifests and chain files written by random command "
        "sequences (create with -dr/-i/creator options, nested, -sf, flatten; rich file names incl. U+2028) through reader-vs-model-reader-vs-independent-reader. "
        "Non-trivial: object has >= 1 record / chain has > 1 entry / sequence wrote >= 1 file.")
LEVEL_NOTE = ("proof of read (emit o) = canon o on abstract XML trees for all wf objects; serialisation + libxml2/expat parsing are a trusted premise (stated in Model/Read.v) "
              "supported by the three-way comparison on generated objects and tool-written files")
EXTRA_TRUSTED = [
    "C10 premise: for trees whose text is XML Char minus category Cc (plus TAB), lxml tostring + the '\\n'-only indentation + lxml iterparse deliver exactly `events x` (Model/Read.v header)",
    "C10: dateutil.parser.parse agrees with iso_parse on strings written by datetime.isoformat(); pathlib.Path(p).as_posix() agrees with posix_norm (both exercised by the correspondence run)",
    "C10: ocaml/xml_driver.ml glue and the token codec of harness/vh/props/c10.py",
]
