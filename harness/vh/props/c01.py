"""C01 -- file digests are the standard algorithms over the exact file bytes.
correspondence: real hasher.py (codecs, read loops, multi-format pass, hash command, create) vs extracted model
oracle: coreutils md5sum/sha1sum/sha512sum + independent C4 codec, reference XXH32/XXH64, published empty-input
answers, evaluated on what the implementation returns / records / prints."""
import itertools
import os
import subprocess

from .. import core, impl, xxref

ALL7 = ["md5", "sha1", "xxh32", "xxh64", "xxh3", "xxh128", "c4"]
MiB = 1024 * 1024


def independent_digest(fmt, path, data):
    """the 'standard algorithm' by a code base other than the one the tool uses, where one is available"""
    if fmt in ("md5", "sha1", "c4"):
        tool = {"md5": "md5sum", "sha1": "sha1sum", "c4": "sha512sum"}[fmt]
        hexd = subprocess.run([tool, path], capture_output=True, text=True, check=True).stdout.split()[0].lstrip("\\")
        return impl.c4_from_digest(bytes.fromhex(hexd)) if fmt == "c4" else hexd
    if fmt == "xxh32" and len(data) <= 1 << 16:
        return format(xxref.xxh32(data), "08x")
    if fmt == "xxh64" and len(data) <= 1 << 16:
        return format(xxref.xxh64(data), "016x")
    if len(data) == 0:
        return xxref.EMPTY[fmt]
    return impl.digest_text(fmt, data)  # library one-shot (trusted primitive)


class Tracer:
    """stands in for a hashlib object: records the sizes of update() calls"""

    def __init__(self):
        self.sizes = []
        self.h = __import__("hashlib").md5()

    def update(self, b):
        self.sizes.append(len(b))
        self.h.update(b)

    def hexdigest(self):
        return self.h.hexdigest()

    def digest(self):
        return self.h.digest()


class FixedDigest:
    """stands in for a finished hashlib object with a chosen value (whatever accessor the codec uses)"""

    digest_size = 64
    name = "sha512"

    def __init__(self, hexd):
        self._hex = hexd

    def hexdigest(self):
        return self._hex

    def digest(self):
        return bytes.fromhex(self._hex)

    def update(self, b):
        raise AssertionError("the codec must not feed a finished digest")

    def copy(self):
        return FixedDigest(self._hex)


def check(rep, tier, seed):
    import ascmhl.hasher as H

    rng = core.rng_for(seed, "C01")
    scratch = core.Scratch("C01")
    model = core.Model({"H": core.hash_oracle})
    try:
        # ---------------------------------------------------------------- (i) codecs
        n_rand = 300 if tier == "quick" else 4000
        vals = [0, 1, 57, 58, 59, 58**2 - 1, 58**87 - 1, 58**87, 58**87 + 1, 2**511, 2**512 - 1, 2**512 - 58, 255, 256]
        vals += [rng.getrandbits(512) for _ in range(n_rand)]
        vals += [rng.randrange(58**k) for k in range(1, 88) for _ in range(2 if tier == "quick" else 12)]
        for v in vals:
            hexd = format(v, "0128x")
            c = H.C4()
            c.hasher = FixedDigest(hexd)
            got = c.string_digest()
            want = core.untok(model.call(f"c4enc {hexd}"))
            rep.case(("c4enc", v), sample={"c4enc": hexd[:16] + "...", "text": got} if v in (57, 2**512 - 1) else None)
            rep.count("codec.c4enc")
            if v < 58**87:
                rep.count("codec.c4enc.padded")
            if got != want:
                rep.disagree({"op": "c4enc", "digest_hex": hexd}, want, got, "C4.string_digest differs from the model")
            # oracle: 90 chars, prefix, alphabet, left-padded with '1', value-preserving
            ok = len(got) == 90 and got[:2] == "c4" and all(ch in impl.C4_CHARSET for ch in got[2:]) and got == impl.c4_from_digest(bytes.fromhex(hexd))
            if not ok:
                rep.violate("c4-text-form", {"op": "c4enc", "digest_hex": hexd}, impl.c4_from_digest(bytes.fromhex(hexd)), got, "C4 text form of a SHA-512 value is not the 90-char '1'-padded base-58 rendering")
            try:
                back = H.C4.bytes_from_string_digest(got).hex()
            except Exception as e:  # noqa
                back = "EXC " + type(e).__name__
            mback = model.call(f"c4dec {core.tok(got)}")
            if (mback if mback != "ERR" else "EXC") != (back if not back.startswith("EXC") else "EXC"):
                rep.disagree({"op": "c4dec", "text": got}, mback, back, "C4.bytes_from_string_digest differs from the model")
            if back != hexd and ok:
                rep.violate("c4-roundtrip", {"op": "c4dec", "text": got}, hexd, back, "C4 id does not decode to the digest it was made from")
        # malformed / adversarial ids: the model must predict the same accept / reject
        good = impl.c4_from_digest(bytes.fromhex(format(rng.getrandbits(512), "0128x")))
        bad = [good[:89], good[:50], "", "c4", good + "zz", "xx" + good[2:], good[:10] + "0" + good[11:], good[:10] + "l" + good[11:],
               good[:30] + "O" + good[31:], good[:30] + "I" + good[31:], "c4" + "z" * 88, "c4" + "1" * 88, good[:40] + " " + good[41:], good[:40] + "é" + good[41:]]
        for s in bad:
            try:
                back = H.C4.bytes_from_string_digest(s).hex()
            except Exception as e:  # noqa
                back = "ERR"
            mback = model.call(f"c4dec {core.tok(s)}")
            rep.case(("c4dec-malformed", s), sample={"c4dec": s[:24], "impl": back[:16], "model": mback[:16]} if s == "c4" + "z" * 88 else None)
            rep.count("codec.c4dec.malformed")
            if back != mback:
                rep.disagree({"op": "c4dec", "text": s}, mback, back, "C4 decode of a malformed id differs from the model")
        for fmt in ALL7:
            if fmt == "c4":
                continue
            cls = H.HashType[fmt].value
            for _ in range(20 if tier == "quick" else 200):
                data = rng.randbytes(rng.choice([0, 1, 2, 15, 64]))
                dg = core.primitive(fmt)(data)
                got = dg.hexdigest()
                h = cls()
                h.update(data)
                got2 = h.string_digest()
                want = core.untok(model.call(f"enc {fmt} {core.hx(dg.digest())}"))
                rep.case(("hexenc", fmt, data))
                rep.count("codec.hex")
                if got2 != want:
                    rep.disagree({"op": "enc", "fmt": fmt, "data": data.hex()}, want, got2, "string_digest differs from the model")
                if got2 != got or got2 != got2.lower():
                    rep.violate("hex-text-form", {"op": "enc", "fmt": fmt, "data": data.hex()}, got, got2, "hex digest is not the lower-case hex of the standard algorithm")
                for variant in (got, got.upper(), got[:-1], got[:-1] + "g", " " + got):
                    try:
                        b = cls.bytes_from_string_digest(variant).hex() or "-"
                    except Exception:  # noqa
                        b = "ERR"
                    mb = model.call(f"dec {fmt} {core.tok(variant)}")
                    rep.count("codec.hexdec")
                    if b != mb:
                        rep.disagree({"op": "dec", "fmt": fmt, "text": variant}, mb, b, "bytes_from_string_digest differs from the model")

        # ---------------------------------------------------------------- (ii) read loops on real files
        sizes = [0, 1, 15, 4095, MiB - 1, MiB, MiB + 1, 2 * MiB, 2 * MiB + 17]
        # lengths at which hash primitives switch between internal code paths (xxh3: 16 / 128 / 240, block sizes 64 / 128) and a few in between
        sizes += [3, 8, 16, 17, 63, 64, 65, 127, 128, 129, 200, 240, 241, 256, 1000] + [rng.randrange(130, 241) for _ in range(2)] + [rng.randrange(1, 4096) for _ in range(3)]
        if tier == "thorough":
            sizes += [3 * MiB + 17, 4 * MiB] + [rng.randrange(1, 3 * MiB) for _ in range(6)]
        folder = scratch.new("media")
        files = []
        for i, n in enumerate(sizes):
            p = os.path.join(folder, f"f{i:02d}_{n}.bin")
            data = rng.randbytes(n)
            with open(p, "wb") as fh:
                fh.write(data)
            files.append((p, data))
        subsets = [[f] for f in ALL7] + [ALL7, list(reversed(ALL7)), ["md5", "md5"], ["c4", "xxh64", "c4"]]
        if tier == "thorough":
            subsets = [list(c) for k in range(1, 8) for c in itertools.combinations(ALL7, k)] + subsets[-3:]
        else:
            subsets += [rng.sample(ALL7, rng.randrange(2, 7)) for _ in range(10)]
            # pairs: a format may borrow from another one that shares the pass
            subsets = subsets[:9] + [list(c) for c in itertools.combinations(["xxh32", "xxh64", "xxh3", "xxh128"], 2)] + [["md5", "sha1"], ["c4", "md5"], ["xxh3", "c4"]] + subsets[9:]
        orig_new = H.new_hasher_for_hash_type
        for p, data in files:
            n = len(data)
            small = n <= 4096
            # trace of update() calls: single-format loop
            TraceH = type("TraceH", (H.HexHasher,), {"hashlib_type": staticmethod(lambda: Tracer)})
            tr = []
            orig_init = TraceH.__init__

            def init(self, _tr=tr, _oi=orig_init):
                _oi(self)
                _tr.append(self.hasher)

            TraceH.__init__ = init
            TraceH.hash_file(p)
            got = ",".join(["chunks"] + [str(x) for x in tr[0].sizes])
            want = model.call(f"chunks single {p}")
            rep.case(("chunks", n), sample={"file_size": n, "update_calls": got} if n == MiB + 1 else None)
            rep.count("loop.trace.single")
            rep.traces += 1
            if got != want:
                rep.disagree({"op": "chunks single", "size": n}, want, got, "sequence of update() calls of Hasher.hash_file differs from the model loop")
            # multi-format loop trace
            tr2 = {}

            def fake_new(fmt, _tr2=tr2):
                h = TraceH()
                _tr2[fmt] = h.hasher
                return h

            H.new_hasher_for_hash_type = fake_new
            try:
                H.AggregateHasher.hash_file(p, ["md5", "sha1"])
            finally:
                H.new_hasher_for_hash_type = orig_new
            want = model.call(f"chunks multi {p}")
            for fmt, tracer in tr2.items():
                got = ",".join(["chunks"] + [str(x) for x in tracer.sizes])
                rep.count("loop.trace.multi")
                rep.traces += 1
                if got != want:
                    rep.disagree({"op": "chunks multi", "size": n, "fmt": fmt}, want, got, "sequence of update() calls of AggregateHasher.hash_file differs from the model loop")
            # results: every entry point, every format
            for fmt in ALL7:
                expect = independent_digest(fmt, p, data)
                got = {"hash_file": H.hash_file(p, fmt), "hash_data": H.hash_data(data, fmt),
                       "multi1": H.multiple_format_hash_file(p, [fmt])[fmt]}
                if small:
                    want = core.untok(model.call(f"hashfile {fmt} {p}"))
                else:
                    want = core.untok(model.call(f"enc {fmt} {core.hx(core.primitive(fmt)(data).digest())}"))
                rep.case(("file", n, fmt))
                rep.count("loop.result")
                for ep, g in got.items():
                    if g != want:
                        rep.disagree({"op": ep, "fmt": fmt, "size": n}, want, g, f"{ep} differs from the model")
                    if g != expect:
                        rep.violate(f"digest-{ep}", {"op": ep, "fmt": fmt, "size": n, "file": os.path.basename(p)}, expect, g, f"{ep}({fmt}) of a {n}-byte file is not the standard digest")
            for ss in subsets if (small or tier == "thorough") else subsets[:9]:
                got = H.multiple_format_hash_file(p, ss)
                gotd = H.multiple_format_hash_data(data, ss)
                rep.case(("multi", n, tuple(ss)))
                rep.count("loop.multi")
                if small:
                    want = model.call(f"multifile {p} " + " ".join(ss))
                    want = [(kv.split("=")[0], core.untok(kv.split("=")[1])) for kv in want.split(" ")] if want not in ("", "ERR") else []
                    if list(got.items()) != want:
                        rep.disagree({"op": "multiple_format_hash_file", "fmts": ss, "size": n}, want, list(got.items()), "multi-format pass differs from the model")
                    if list(gotd.items()) != want:
                        rep.disagree({"op": "multiple_format_hash_data", "fmts": ss, "size": n}, want, list(gotd.items()), "multi-format hash_data differs from the model")
                for fmt in set(ss):
                    expect = independent_digest(fmt, p, data)
                    if got.get(fmt) != expect or gotd.get(fmt) != expect:
                        rep.violate("digest-multi", {"op": "multi", "fmts": ss, "fmt": fmt, "size": n}, expect, [got.get(fmt), gotd.get(fmt)], "digest depends on the formats sharing the pass")
        # relative names: the file hashed is the one the name denotes NOW (working directory changed after import)
        here = os.getcwd()
        try:
            for k in range(3):
                d = scratch.new("cwd%d" % k)
                data = rng.randbytes(rng.choice([0, 5, 300, 5000]))
                os.mkdir(os.path.join(d, "sub"))
                for name in ("same.bin", os.path.join("sub", "same.bin")):
                    with open(os.path.join(d, name), "wb") as fh:
                        fh.write(data + name.encode())
                os.chdir(d)
                for name in ("same.bin", os.path.join("sub", "same.bin"), os.path.join(".", "sub", "..", "same.bin")):
                    content = data + os.path.normpath(name).encode()
                    fmt = rng.choice(ALL7)
                    ss = rng.sample(ALL7, 2)
                    try:
                        got = [H.hash_file(name, fmt), H.multiple_format_hash_file(name, ss)]
                    except Exception as e:  # noqa
                        got = ["EXC " + type(e).__name__]
                    expect = [independent_digest(fmt, os.path.join(d, name), content), {f: independent_digest(f, os.path.join(d, name), content) for f in ss}]
                    rep.case(("relative-name", k, name))
                    rep.count("loop.relative_name")
                    if got != expect:
                        rep.violate("digest-relative-name", {"op": "hash_file", "name": name, "fmt": fmt, "fmts": ss, "size": len(content)}, expect, got,
                                    "a relative file name is not hashed as the file it denotes in the current working directory")
        finally:
            os.chdir(here)
        # short reads: a file object may return fewer bytes than requested
        import builtins

        class ShortReader:
            def __init__(self, fh, plan):
                self.fh, self.plan, self.used = fh, list(plan), []

            def read(self, n=-1):
                k = self.plan.pop(0) if self.plan else n
                k = max(1, min(k, n))
                b = self.fh.read(k)
                self.used.append(k)
                return b

            def __enter__(self):
                return self

            def __exit__(self, *a):
                self.fh.close()

        for p, data in files[:6]:
            for _ in range(3 if tier == "quick" else 10):
                plan = [rng.choice([1, 2, 7, 4096, MiB, MiB // 2]) for _ in range(rng.randrange(1, 6))]
                readers = []
                real_open = builtins.open

                def short_open(path, mode="r", *a, _plan=plan, _readers=readers, **kw):
                    fh = real_open(path, mode, *a, **kw)
                    if path == p and "b" in mode:
                        r = ShortReader(fh, _plan)
                        _readers.append(r)
                        return r
                    return fh

                H.open = short_open  # module-level name shadows the builtin inside hasher.py only
                try:
                    got = H.hash_file(p, "md5")
                finally:
                    del H.open
                rep.case(("short", len(data), tuple(plan)))
                rep.count("loop.short_reads")
                expect = independent_digest("md5", p, data)
                if got != expect:
                    rep.violate("digest-short-reads", {"op": "hash_file", "size": len(data), "read_plan": plan}, expect, got, "digest depends on how read() chunks the file")

        # ---------------------------------------------------------------- (ii-b) bytes are bytes, whatever the file is called
        # media folders hold XML sidecars and manifests of other tools: CR LF, a byte-order mark, a trailing NUL are hashed as they are
        odd = []
        for name, data in (("sidecar.xml", b"<?xml version='1.0'?>\r\n<a>\r\n</a>\r\n"), ("legacy.mhl", b"\xef\xbb\xbf<hashlist>\r\n</hashlist>\r"),
                           ("notes.txt", b"one\r\ntwo\n\x00"), ("ascmhl_chain.xml", b"\r\n\r\n")):
            p = os.path.join(folder, name)
            with open(p, "wb") as fh:
                fh.write(data)
            odd.append((p, data))
            for fmt in ALL7:
                expect = independent_digest(fmt, p, data)
                got = {"hash_file": H.hash_file(p, fmt), "multi1": H.multiple_format_hash_file(p, [fmt])[fmt]}
                rep.case(("odd-name", name, fmt))
                rep.count("loop.oddname")
                for ep, g in got.items():
                    if g != expect:
                        rep.violate(f"digest-{ep}-by-name", {"op": ep, "fmt": fmt, "file": name, "size": len(data)}, expect, g,
                                    f"{ep}({fmt}) of {name} is not the digest of its bytes")
        files += odd
        # ---------------------------------------------------------------- (ii-c) the same path with other bytes
        # a digest is a function of the bytes that are in the file NOW: rewrite files in place (same inode, same length,
        # time stamps put back) and hash them again through every entry point of the same process
        for p, data in [f for f in files if 0 < len(f[1]) <= 4096][:8]:
            st = os.stat(p)
            new = bytes(b ^ 0x5A for b in data)
            with open(p, "r+b") as fh:
                fh.write(new)
            os.utime(p, ns=(st.st_atime_ns, st.st_mtime_ns))
            for fmt in ALL7:
                expect = independent_digest(fmt, p, new)
                got = {"hash_file": H.hash_file(p, fmt), "multi1": H.multiple_format_hash_file(p, [fmt])[fmt]}
                rep.case(("rewritten", len(new), fmt))
                rep.count("loop.rewritten")
                for ep, g in got.items():
                    if g != expect:
                        rep.violate(f"digest-{ep}-stale", {"op": ep, "fmt": fmt, "size": len(new), "file": os.path.basename(p), "rewritten_in_place": True},
                                    expect, g, f"{ep}({fmt}) of a file rewritten in place (same length, same time stamps) is not the digest of its present bytes")
            files[files.index((p, data))] = (p, new)
        # ---------------------------------------------------------------- (iii) commands
        small_files = [(p, d) for p, d in files if len(d) <= MiB + 1]
        for p, data in small_files:
            for fmt in impl.FORMATS:
                outc, out = impl.run_cli("hash", [p, "-h", fmt])
                expect = independent_digest(fmt, p, data)
                rep.case(("hashcmd", len(data), fmt))
                rep.count("cmd.hash")
                if outc != ("exit", 0) or f"{fmt} ({p}) = {expect}" not in out:
                    rep.violate("digest-hash-command", {"op": "hash", "fmt": fmt, "size": len(data)}, f"{fmt} ({p}) = {expect}", out.strip(), "hash command prints a different digest")
        proj = scratch.new("proj")
        sub = os.path.join(proj, "sub")
        os.makedirs(sub)
        contents = {}
        for i, (p, data) in enumerate(small_files):
            rel = (f"sub/g{i}.bin" if i % 2 else f"g{i}.bin")
            with open(os.path.join(proj, rel), "wb") as fh:
                fh.write(data)
            contents[rel] = data
        args = [proj]
        for f in impl.FORMATS:
            args += ["-h", f]
        outc, out = impl.run_cli("create", args)
        rep.count("cmd.create")
        if outc != ("exit", 0):
            rep.violate("create-fails", {"op": "create", "args": args[1:]}, "exit 0", [outc, out[-400:]], "create of a fresh folder fails")
        else:
            gens = impl.list_manifests(proj)
            man = impl.read_manifest(os.path.join(proj, "ascmhl", gens[-1][1]))
            for rec in man["records"]:
                if rec["is_dir"]:
                    continue
                data = contents[rec["path"]]
                for fmt, digest, action, _, _ in rec["entries"]:
                    rep.case(("create", rec["path"], fmt))
                    expect = independent_digest(fmt, os.path.join(proj, rec["path"]), data)
                    if digest != expect:
                        rep.violate("digest-create", {"op": "create", "path": rec["path"], "fmt": fmt, "size": len(data)}, expect, digest, "create records a different digest")
            outc, out = impl.run_cli("verify", [proj])
            rep.count("cmd.verify")
            if outc != ("exit", 0):
                rep.violate("verify-unchanged", {"op": "verify after create"}, "exit 0", [outc, out[-400:]], "verify of the untouched tree fails")
    finally:
        model.close()
        scratch.cleanup()


RULE = ("cases: C4 encode/decode of boundary + random 512-bit values (incl. every count of leading zero digits) and malformed ids; hex "
        "codec incl. upper-case / odd / non-hex strings; real files of sizes around the 1 MiB chunk through hash_file, hash_data, "
        "multiple_format_hash_file/_data for format subsets, with the sequence of update() calls compared with the model loop; short-read "
        "file objects; the hash command, create + independent manifest read, verify.  A case is counted once per distinct canonical input; "
        "all are non-trivial (each exercises a codec or loop path).")
