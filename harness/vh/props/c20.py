"""C20 -- the background update check can never change or stall a command.

correspondence: the REAL click groups (ascmhl.cli.ascmhl:mhltool_cli, ascmhl.cli.ascmhl_debug:mhldebugtool_cli) run in
subprocesses whose `requests.get` was replaced (sitecustomize, before ascmhl.cli is imported) by a scripted update
server; (exit status, notice yes/no, "thread died with a traceback" yes/no, time spent waiting) are compared with
`predict` of coq/Model/Update.v evaluated by vm_compute on the same (server, installed version, command) data.
(History: these runs found that the pinned code could end with status 134 -- a checker thread dying of an unhandled
exception while the interpreter shut down; repaired by `except Exception` in cli/update.py.  Such a run is now an ordinary
exit-code VIOLATION, and a traceback of the checker thread on stderr is a disagreement with the model.)
oracle (independent of the model): against a reference run of the same command with a refused connection --
same exit status, same stdout except for ONE optional trailing notice line, wall-clock <= reference + join_timeout +
slack, process terminates on its own."""
import concurrent.futures
import json
import os
import re
import shutil
import statistics
import subprocess
import sys
import time

from .. import core

ABOUT_ONE_SECOND = 1.0
SLACK = 1.5          # seconds of scheduling / start-up noise tolerated on top of join_timeout
KILL_AFTER = 15.0    # a process that is still alive after this many seconds counts as hanging
WORKERS = 12

SITECUSTOMIZE = r'''
import json, os, time
_spec = os.environ.get("VH_C20")
if _spec:
    _spec = json.loads(_spec)
    if _spec.get("current") is not None:
        import importlib.metadata as _md
        _orig_version = _md.version
        _md.version = lambda name: _spec["current"] if name == "ascmhl" else _orig_version(name)
    import requests
    def _exc(name):
        import socket
        table = {
            "requests.ConnectionError": requests.exceptions.ConnectionError, "requests.Timeout": requests.exceptions.Timeout,
            "requests.ConnectTimeout": requests.exceptions.ConnectTimeout, "requests.ReadTimeout": requests.exceptions.ReadTimeout,
            "requests.SSLError": requests.exceptions.SSLError, "requests.TooManyRedirects": requests.exceptions.TooManyRedirects,
            "requests.ChunkedEncodingError": requests.exceptions.ChunkedEncodingError, "requests.InvalidURL": requests.exceptions.InvalidURL,
            "ValueError": ValueError, "RuntimeError": RuntimeError, "OSError": OSError, "TimeoutError": TimeoutError,
            "KeyError": KeyError, "MemoryError": MemoryError, "UnicodeDecodeError": lambda m: UnicodeDecodeError("utf-8", b"\xff", 0, 1, m),
        }
        return table[name]
    def _get(url, *args, **kwargs):
        if _spec.get("delay"):
            time.sleep(_spec["delay"])
        if _spec["kind"] == "raise":
            raise _exc(_spec["exc"])("scripted failure")
        r = requests.models.Response()
        r.status_code = _spec.get("status", 200)
        r._content = _spec.get("body", "").encode("utf-8")
        r.encoding = "utf-8"
        r.url = url
        return r
    requests.get = _get
'''

GROUPS = {
    "ascmhl": ("ascmhl.cli.ascmhl", "mhltool_cli", False),
    "ascmhl-debug": ("ascmhl.cli.ascmhl_debug", "mhldebugtool_cli", True),
}

REFUSED = {"name": "refused", "kind": "raise", "exc": "requests.ConnectionError", "delay": 0}

REQUEST_EXCEPTIONS = {"requests.ConnectionError", "requests.Timeout", "requests.ConnectTimeout", "requests.ReadTimeout", "requests.SSLError",
                      "requests.TooManyRedirects", "requests.ChunkedEncodingError", "requests.InvalidURL"}

# ------------------------------------------------------------------------------------------ PEP 440 (own reader)

_VRE = re.compile(
    r"""^\s*v?(?:(?P<epoch>[0-9]+)!)?(?P<release>[0-9]+(?:\.[0-9]+)*)
    (?:[-_.]?(?P<pre_l>alpha|a|beta|b|preview|pre|c|rc)[-_.]?(?P<pre_n>[0-9]+)?)?
    (?:(?:-(?P<post_n1>[0-9]+))|(?:[-_.]?(?P<post_l>post|rev|r)[-_.]?(?P<post_n2>[0-9]+)?))?
    (?:[-_.]?(?P<dev_l>dev)[-_.]?(?P<dev_n>[0-9]+)?)?
    (?:\+(?P<local>[a-z0-9]+(?:[-_.][a-z0-9]+)*))?\s*$""",
    re.X | re.I,
)
_PRE = {"alpha": "a", "a": "a", "beta": "b", "b": "b", "c": "rc", "rc": "rc", "pre": "rc", "preview": "rc"}


def parse_version(s):
    """str -> dict(epoch, release, pre, post, dev, local) or None; written from PEP 440, cross-checked against packaging"""
    m = _VRE.match(s)
    if not m:
        return None
    v = {"epoch": int(m.group("epoch") or 0), "release": [int(x) for x in m.group("release").split(".")], "pre": None, "post": None, "dev": None, "local": None}
    if m.group("pre_l"):
        v["pre"] = (_PRE[m.group("pre_l").lower()], int(m.group("pre_n") or 0))
    if m.group("post_n1") is not None:
        v["post"] = int(m.group("post_n1"))
    elif m.group("post_l"):
        v["post"] = int(m.group("post_n2") or 0)
    if m.group("dev_l"):
        v["dev"] = int(m.group("dev_n") or 0)
    if m.group("local"):
        v["local"] = [int(p) if p.isdigit() else p.lower() for p in re.split(r"[-_.]", m.group("local"))]
    return v


def crosscheck_version(s):
    """our reader against packaging (the library the tool uses): a difference is a harness bug, reported loudly"""
    from packaging import version as pv

    mine = parse_version(s) if isinstance(s, str) else None
    try:
        lib = pv.Version(s)
        theirs = {"epoch": lib.epoch, "release": list(lib.release), "pre": tuple(lib.pre) if lib.pre else None, "post": lib.post, "dev": lib.dev,
                  "local": [p for p in lib._version.local] if lib._version.local else None}
    except (pv.InvalidVersion, TypeError):
        theirs = None
    if mine != theirs:
        raise RuntimeError(f"harness version reader disagrees with packaging on {s!r}: {mine} vs {theirs}")
    return mine


def coq_opt(x, f=str):
    return "None" if x is None else f"(Some {f(x)})"


def coq_version(v):
    pre = coq_opt(v["pre"], lambda p: "(%s, %d)" % ({"a": "PreA", "b": "PreB", "rc": "PreRC"}[p[0]], p[1]))
    loc = coq_opt(v["local"], lambda l: "[" + "; ".join(f"LNum {p}" if isinstance(p, int) else "LStr [" + "; ".join(str(ord(c)) for c in p) + "]" for p in l) + "]")
    return f"(mkVer {v['epoch']} [{'; '.join(map(str, v['release']))}] {pre} {coq_opt(v['post'])} {coq_opt(v['dev'])} {loc})"


def server_term(b):
    """the scripted behaviour as a Model/Update.v `server` -- derived from the spec alone (json + our version reader)"""
    after = f"(Some {int(round(b.get('delay', 0) * 1000))})"
    if b["kind"] == "raise":
        return f"(mkServer {after} {'RRequestExc' if b['exc'] in REQUEST_EXCEPTIONS else 'ROtherExc'})"
    status_ok = "false" if 400 <= b.get("status", 200) < 600 else "true"
    try:
        j = json.loads(b.get("body", ""))
    except ValueError:
        return f"(mkServer {after} (RResponse {status_ok} None))"
    if not isinstance(j, dict):
        body = "JNonDict"
    elif "tag_name" not in j:
        body = "(JDict TagMissing)"
    elif j["tag_name"] is None:
        body = "(JDict TagNull)"
    elif not isinstance(j["tag_name"], str):
        body = "(JDict TagOther)"
    else:
        v = crosscheck_version(j["tag_name"])
        body = f"(JDict (TagText {coq_opt(v, coq_version)}))"
    return f"(mkServer {after} (RResponse {status_ok} (Some {body})))"


# ------------------------------------------------------------------------------------------------ behaviours


def tag(s, **kw):
    return dict({"kind": "response", "status": 200, "body": json.dumps({"tag_name": s}), "delay": 0}, **kw)


def fixed_behaviours():
    B = []

    def add(name, spec):
        spec = dict(spec)
        spec["name"] = name
        B.append(spec)

    add("newer", tag("v1.3"))
    add("newer-delayed-0.5s", tag("v1.3", delay=0.5))
    add("newer-delayed-3s", tag("v1.3", delay=3))
    add("newer-hanging-30s", tag("v1.3", delay=30))
    add("older", tag("v1.1.9"))
    add("equal", tag("1.2.0"))
    add("equal-short", tag("v1.2"))
    add("prerelease", tag("v1.3rc1"))
    add("prerelease-alpha-spelling", tag("v1.3-alpha.2"))
    add("devrelease", tag("1.3.dev4"))
    add("postrelease", tag("1.2.0.post1"))
    add("epoch", tag("1!0.1"))
    add("local", tag("1.2.0+build.7"))
    add("malformed-nightly", tag("nightly"))
    add("malformed-nightly-delayed-0.5s", tag("nightly", delay=0.5))
    add("empty-tag", tag(""))
    add("missing-tag", {"kind": "response", "status": 200, "body": json.dumps({"name": "v1.3"}), "delay": 0})
    add("null-tag", {"kind": "response", "status": 200, "body": '{"tag_name": null}', "delay": 0})
    add("number-tag", {"kind": "response", "status": 200, "body": '{"tag_name": 13}', "delay": 0})
    add("list-tag", {"kind": "response", "status": 200, "body": '{"tag_name": ["v1.3"]}', "delay": 0})
    add("not-json", {"kind": "response", "status": 200, "body": "<html>rate limited</html>", "delay": 0})
    add("empty-body", {"kind": "response", "status": 200, "body": "", "delay": 0})
    add("truncated-json", {"kind": "response", "status": 200, "body": '{"tag_name": "v1.', "delay": 0})
    add("json-list", {"kind": "response", "status": 200, "body": '[{"tag_name": "v1.3"}]', "delay": 0})
    add("json-string", {"kind": "response", "status": 200, "body": '"v1.3"', "delay": 0})
    add("json-null", {"kind": "response", "status": 200, "body": "null", "delay": 0})
    add("http-404-with-newer", tag("v1.3", status=404))
    add("http-500", {"kind": "response", "status": 500, "body": "oops", "delay": 0})
    add("http-503-delayed-0.5s", tag("v1.3", status=503, delay=0.5))
    add("http-304-with-newer", tag("v1.3", status=304))
    add("connection-error", {"kind": "raise", "exc": "requests.ConnectionError", "delay": 0})
    add("connect-timeout-after-3s", {"kind": "raise", "exc": "requests.ConnectTimeout", "delay": 3})
    add("ssl-error", {"kind": "raise", "exc": "requests.SSLError", "delay": 0})
    add("value-error", {"kind": "raise", "exc": "ValueError", "delay": 0})
    add("runtime-error-delayed-0.5s", {"kind": "raise", "exc": "RuntimeError", "delay": 0.5})
    add("os-error", {"kind": "raise", "exc": "OSError", "delay": 0})
    add("unicode-error", {"kind": "raise", "exc": "UnicodeDecodeError", "delay": 0})
    return B


def gen_version_text(rng):
    """structured random PEP 440 strings in assorted spellings, around the installed 1.2.0"""
    rel = rng.choice([[1, 2], [1, 2, 0], [1, 2, 0, 0], [1, 2, 1], [1, 3], [1, 10], [2], [0, 9, 9], [1, 1, 99], [1, 2, 0, 1], [rng.randrange(4), rng.randrange(20)]])
    s = rng.choice(["", "v", "V"]) + (rng.choice(["", "", "", "1!", "0!"])) + ".".join(map(str, rel))
    r = rng.random()
    if r < 0.25:
        s += rng.choice(["a", "b", "rc", "-alpha.", ".beta", "c", "-preview-", "_rc_"]) + rng.choice(["", "0", "1", "12"])
    r = rng.random()
    if r < 0.2:
        s += rng.choice([".post", "-", ".rev", "-r", "post"]) + rng.choice(["1", "0", "3"])
    r = rng.random()
    if r < 0.2:
        s += rng.choice([".dev", "-dev", "dev", "_dev_"]) + rng.choice(["", "0", "7"])
    if rng.random() < 0.15:
        s += "+" + rng.choice(["abc", "1", "g435d5e02a", "Ubuntu-2", "1.abc.2"])
    if rng.random() < 0.1:
        s = rng.choice([" " + s, s + " ", s + "\n"])
    return s


def gen_behaviour(rng, i):
    delay = rng.choice([0, 0, 0, 0.1, 0.3, 0.5, 2.6, 3, 30])
    r = rng.random()
    if r < 0.6:
        b = tag(gen_version_text(rng), delay=delay)
        what = "random-version"
    elif r < 0.72:
        b = tag(rng.choice(["nightly", "latest", "1.2.x", "v", "1..2", "1.2.0-", "release-1.3", "1.3 final", "٣.١", "1.3rc", "1.3.post"]), delay=delay)
        what = "random-tagtext"
    elif r < 0.84:
        body = rng.choice(['{"tag_name": 1.3}', '{"tag_name": true}', '{"tag_name": {}}', '{"tag_name": null}', "{}", "[]", "0", "true", '"x"', "{", "", "﻿{}",
                           '{"tag_name": "v1.3", "tag_name": "v1.0"}', '{"TAG_NAME": "v1.3"}', "NaN"])
        b = {"kind": "response", "status": 200, "body": body, "delay": delay}
        what = "random-body"
    elif r < 0.92:
        b = tag(gen_version_text(rng), status=rng.choice([301, 400, 401, 403, 404, 429, 500, 502, 599, 204, 600]), delay=delay)
        what = "random-status"
    else:
        b = {"kind": "raise", "exc": rng.choice(sorted(REQUEST_EXCEPTIONS) + ["ValueError", "RuntimeError", "OSError", "TimeoutError", "KeyError", "MemoryError"]), "delay": delay}
        what = "random-exception"
    b["name"] = f"{what}-{i}"
    return b


# -------------------------------------------------------------------------------------------------- commands


def commands(trees):
    good, bad, nohist = trees["good"], trees["bad"], trees["nohist"]
    return [
        # label, program, argv, how the sub-command ends according to click: "returns" (callback runs) / "raises" (skipped)
        {"label": "info", "prog": "ascmhl", "args": ["info", good], "end": "returns"},
        {"label": "info -sf", "prog": "ascmhl", "args": ["info", "-sf", os.path.join(good, "a.txt"), good], "end": "returns"},
        {"label": "diff", "prog": "ascmhl", "args": ["diff", good], "end": "returns"},
        {"label": "debug verify", "prog": "ascmhl-debug", "args": ["verify", good], "end": "returns"},
        {"label": "debug hash", "prog": "ascmhl-debug", "args": ["hash", "-h", "md5", os.path.join(good, "a.txt")], "end": "returns"},
        # verbose runs: whatever the checker thread does must not show up among the command's own lines
        {"label": "info -v", "prog": "ascmhl", "args": ["info", "-v", good], "end": "returns"},
        {"label": "diff -v", "prog": "ascmhl", "args": ["diff", "-v", good], "end": "returns"},
        {"label": "debug verify -v", "prog": "ascmhl-debug", "args": ["verify", "-v", good], "end": "returns"},
        {"label": "info no history (exit 30)", "prog": "ascmhl", "args": ["info", nohist], "end": "raises"},
        {"label": "diff no history (exit 30)", "prog": "ascmhl", "args": ["diff", nohist], "end": "raises"},
        {"label": "debug verify altered (exit 11)", "prog": "ascmhl-debug", "args": ["verify", bad], "end": "raises"},
        {"label": "usage error (exit 2)", "prog": "ascmhl", "args": ["info", "--no-such-option", good], "end": "raises"},
        {"label": "unknown command (exit 2)", "prog": "ascmhl-debug", "args": ["bogus"], "end": "raises"},
        {"label": "--version", "prog": "ascmhl", "args": ["--version"], "end": "raises"},
        {"label": "info --help", "prog": "ascmhl", "args": ["info", "--help"], "end": "raises"},
        {"label": "crash (info without path, exit 1)", "prog": "ascmhl", "args": ["info"], "end": "raises"},
    ]


class Env:
    def __init__(self, scratch):
        self.scratch = scratch
        self.site = scratch.new("site")
        with open(os.path.join(self.site, "sitecustomize.py"), "w") as fh:
            fh.write(SITECUSTOMIZE)
        self.pycache = scratch.new("pyc")
        self.cwd = scratch.new("cwd")

    def run(self, cmd, beh, current):
        mod, grp, _ = GROUPS[cmd["prog"]]
        code = f"import sys; sys.argv[0] = {cmd['prog']!r}; from {mod} import {grp} as g; sys.exit(g())"
        spec = {k: v for k, v in beh.items() if k != "name"}
        spec["current"] = current
        env = {
            "PATH": os.environ.get("PATH", "/usr/bin:/bin"), "HOME": self.cwd, "TZ": "UTC", "LC_ALL": "C.UTF-8", "PYTHONHASHSEED": "0",
            "PYTHONPATH": self.site + os.pathsep + core.REPO, "PYTHONPYCACHEPREFIX": self.pycache, "VH_C20": json.dumps(spec),
        }
        t0 = time.monotonic()
        p = subprocess.Popen([core.PY, "-c", code] + cmd["args"], cwd=self.cwd, env=env, stdin=subprocess.DEVNULL, stdout=subprocess.PIPE, stderr=subprocess.PIPE)
        try:
            out, err = p.communicate(timeout=KILL_AFTER)
            killed = False
        except subprocess.TimeoutExpired:
            p.kill()
            out, err = p.communicate()
            killed = True
        wall = time.monotonic() - t0
        return {"exit": p.returncode, "stdout": out.decode("utf-8", "replace"), "stderr": err.decode("utf-8", "replace"), "wall": wall, "killed": killed}


def build_trees(env):
    trees = {}
    for name in ("good", "bad", "nohist"):
        d = env.scratch.new(name)
        with open(os.path.join(d, "a.txt"), "w") as fh:
            fh.write("hello\n")
        os.makedirs(os.path.join(d, "sub"))
        with open(os.path.join(d, "sub", "b.bin"), "wb") as fh:
            fh.write(bytes(range(256)) * 8)
        trees[name] = d
    for name in ("good", "bad"):
        r = env.run({"prog": "ascmhl", "args": ["create", "-h", "md5", trees[name]]}, REFUSED, "1.2.0")
        if r["exit"] != 0:
            raise RuntimeError(f"cannot seal the test tree: {r}")
    with open(os.path.join(trees["bad"], "a.txt"), "w") as fh:
        fh.write("HELLO\n")
    return trees


# ---------------------------------------------------------------------------------------------------- model


def generated_constants():
    """join timeouts and the notice text from the regenerated Gen/Generated.v"""
    with open(os.path.join(core.COQ, "Gen", "Generated.v"), encoding="utf-8") as fh:
        src = fh.read()
    out = {}
    for key in ("update_notice", "update_notice_debug"):
        m = re.search(rf"Definition {key} : list N := \[([0-9; ]*)\]%N\.", src)
        out[key] = "".join(chr(int(x)) for x in m.group(1).split(";") if x.strip()) if m else None
    for key in ("join_timeout", "join_timeout_debug"):
        m = re.search(rf"Definition {key} : N := ([0-9]+)%N\.", src)
        out[key] = int(m.group(1)) if m else None
    return out


def model_predict(cases):
    """cases: list of (debug, current dict|None, server term, work_ms, n_lines, end, exit) -> list of dict(exit, notice, delay, died) or None"""
    bdir = os.path.join(core.VERIF, "build", f"c20_{os.getpid()}")
    os.makedirs(bdir, exist_ok=True)
    try:
        rows = []
        for debug, cur, srv, work, n_lines, end, code in cases:
            steps = "; ".join([f"Work {work}"] + [f"Emit {i + 1}" for i in range(n_lines)])
            cend = "Returns" if end == "returns" else f"(Raises {code})"
            rows.append(f"  real_config {'true' if debug else 'false'} {coq_opt(cur, coq_version)} {srv} (mkCommand [{steps}] {cend})")
        src = (
            "From Coq Require Import List NArith Bool.\nFrom MHL Require Import Gen.Generated Model.Update.\nImport ListNotations.\nLocal Open Scope N_scope.\n"
            "Definition show (k : config) := match predict k with\n"
            "  | None => (999, false, 0, 0, 0)\n"
            "  | Some o => (o_exit o, o_notice o, o_delay o, N.of_nat (length (o_err o)), N.of_nat (length (o_chunks o))) end.\n"
            "Definition cases : list config := [\n" + ";\n".join(rows) + "\n].\n"
            "Eval vm_compute in (map show cases).\n"
        )
        with open(os.path.join(bdir, "cases.v"), "w") as fh:
            fh.write(src)
        rc, out, err = core.run(["coqc", "-Q", core.COQ, "MHL", "-w", "-notation-overridden", "cases.v"], 300, cwd=bdir)
        if rc != 0:
            raise RuntimeError("coqc cases.v failed: " + (out + err)[-1500:])
        flat = " ".join(out.split())
        got = re.findall(r"\(\s*(\d+),\s*(true|false),\s*(\d+),\s*(\d+),\s*(\d+)\s*\)", flat)
        if len(got) != len(cases):
            raise RuntimeError(f"cannot read the model's answers ({len(got)} of {len(cases)}): {flat[:400]}")
        # "died": the model's stderr is empty in every run that ends (Props/C20.v: C20_prediction_sound) -- in particular no traceback of the checker thread
        return [{"ended": g[0] != "999", "exit": int(g[0]), "notice": g[1] == "true", "delay": int(g[2]), "died": g[3] != "0", "lines": int(g[4])} for g in got]
    finally:
        shutil.rmtree(bdir, ignore_errors=True)


# ---------------------------------------------------------------------------------------------------- check


def split_notice(stdout, ref_stdout, notice):
    """-> (ok, has_notice): stdout must be the reference stdout, optionally followed by exactly one notice line"""
    if stdout == ref_stdout:
        return True, False
    if notice is not None and stdout == ref_stdout + notice + "\n":
        return True, True
    return False, (notice is not None and notice in stdout)


def plan(tier, seed, cmds):
    """list of (command index, behaviour, installed version) -- deterministic in (tier, seed)"""
    rng = core.rng_for(seed, "C20")
    fixed = fixed_behaviours()
    by = {c["label"]: i for i, c in enumerate(cmds)}
    runs = []
    main_cmds = [by["info"], by["debug hash"], by["info no history (exit 30)"]]
    for b in fixed:
        for ci in (main_cmds if tier == "quick" else range(len(cmds))):
            runs.append((ci, b, "1.2.0"))
    key = [b for b in fixed if b["name"] in ("newer", "newer-delayed-0.5s", "newer-hanging-30s", "malformed-nightly", "json-list", "value-error", "equal")]
    if tier == "quick":
        for b in key:
            for ci in range(len(cmds)):
                if ci not in main_cmds:
                    runs.append((ci, b, "1.2.0"))
    verbose = [by["info -v"], by["diff -v"], by["debug verify -v"]]
    for b in fixed:
        if b["name"] in ("newer", "malformed-nightly-delayed-0.5s", "http-503-delayed-0.5s", "runtime-error-delayed-0.5s", "connection-error", "not-json", "newer-delayed-0.5s") or tier != "quick":
            for ci in verbose:
                runs.append((ci, b, "1.2.0"))
    # other installed versions: the real one of this environment (a dev build), a pre-release, one equal to / above the answer
    for cur in (None, "2.0rc1", "1.3", "9.9", "1.3.dev1", "0.0.1"):
        for b in (key if tier == "quick" else fixed):
            for ci in ([by["info"]] if tier == "quick" else [by["info"], by["debug hash"], by["debug verify altered (exit 11)"]]):
                runs.append((ci, b, cur))
    n_rand = 60 if tier == "quick" else 700
    for i in range(n_rand):
        b = gen_behaviour(rng, i)
        ci = rng.choice(main_cmds + [by["diff"], by["debug verify"], by["debug verify altered (exit 11)"], by["usage error (exit 2)"]])
        cur = rng.choice(["1.2.0", "1.2.0", "1.2.0", "1.2", "1.3", None, "1.2.1rc1", "1.2.0.post1"])
        runs.append((ci, b, cur))
    return runs


def delay_class(b):
    d = b.get("delay", 0)
    return "immediate" if d == 0 else "short(<=0.5s)" if d <= 0.5 else "late(2.6-3s)" if d < 10 else "hanging(30s)"


def evaluate(rep, env, cmds, runs, consts, installed):
    notice = consts["update_notice"]
    # ---- reference runs (refused connection), three per (command, installed version)
    ref_keys = sorted({(ci, cur) for ci, _, cur in runs}, key=lambda k: (k[0], str(k[1])))
    with concurrent.futures.ThreadPoolExecutor(WORKERS) as ex:
        futs = {(k, j): ex.submit(env.run, cmds[k[0]], REFUSED, k[1]) for k in ref_keys for j in range(3)}
        refs = {}
        for k in ref_keys:
            rs = [futs[(k, j)].result() for j in range(3)]
            r0 = rs[0]
            for r in rs[1:]:
                if (r["exit"], r["stdout"]) != (r0["exit"], r0["stdout"]) or r["killed"]:
                    raise RuntimeError(f"reference runs of {cmds[k[0]]['label']} are not reproducible: {rs}")
            refs[k] = dict(r0, wall=statistics.median(r["wall"] for r in rs), wall_max=max(r["wall"] for r in rs), wall_min=min(r["wall"] for r in rs))
        # ---- the scripted runs
        t0 = time.time()
        results = list(ex.map(lambda r: env.run(cmds[r[0]], r[1], r[2]), runs))
        rep.extra["c20_parallel_wall_s"] = round(time.time() - t0, 1)
    # ---- model predictions for all runs (one coqc call)
    cases = []
    for (ci, b, cur), res in zip(runs, results):
        ref = refs[(ci, cur)]
        curv = crosscheck_version(cur if cur is not None else installed)
        # how long the command itself took in THIS run is only known to lie between the fastest reference run and the slower of
        # (slowest reference run, this run): the model is asked for both ends; where the two answers differ (an answer arriving
        # about when the join ends) either is accepted
        for work in (ref["wall_min"], max(ref["wall_max"], res["wall"])):
            cases.append((GROUPS[cmds[ci]["prog"]][2], curv, server_term(b), int(round(work * 1000)), ref["stdout"].count("\n"), cmds[ci]["end"], ref["exit"]))
    try:
        flat_preds = model_predict(cases)
        preds = [(flat_preds[2 * i], flat_preds[2 * i + 1]) for i in range(len(runs))]
    except Exception as e:  # noqa -- the oracle below still runs; the missing tie is reported
        preds = [None] * len(runs)
        rep.disagree({"op": "model_predict"}, None, str(e)[-1200:], "the model's predictions could not be computed")
    # ---- compare
    for (ci, b, cur), res, pred in zip(runs, results, preds):
        cmd, ref = cmds[ci], refs[(ci, cur)]
        timeout_s = consts["join_timeout_debug" if GROUPS[cmd["prog"]][2] else "join_timeout"] or 1
        scen = {"command": cmd["label"], "prog": cmd["prog"], "args": [a.replace(env.scratch.root, "<scratch>") for a in cmd["args"]], "behaviour": b,
                "installed_version": cur if cur is not None else f"(real) {installed}"}

        def rerun(bad, n=2):
            """a timing-dependent failure is counted only if it shows again in two quiet (sequential) re-runs"""
            last = None
            for _ in range(n):
                last = env.run(cmd, b, cur)
                if not bad(last):
                    return None
            return last

        rep.count("server." + ("-".join(b["name"].split("-")[:2]) if b["name"].startswith("random") else "fixed"))
        rep.count("timing." + delay_class(b))
        rep.count("command." + cmd["label"])
        rep.count("installed." + ("real-dev-build" if cur is None else cur))
        # oracle 1: terminates
        if res["killed"]:
            rep.violate("process-hangs", scen, f"process ends by itself (reference: {ref['wall']:.2f}s)", f"still alive after {KILL_AFTER}s, killed", "the update check keeps the process from terminating")
            rep.case((cmd["label"], b["name"], cur))
            continue
        ok_out, has_notice = split_notice(res["stdout"], ref["stdout"], notice)
        # oracle 2: exit status
        if res["exit"] != ref["exit"]:
            aborted = res["exit"] in (-6, 134) and "_enter_buffered_busy" in res["stderr"]
            rep.violate("exit-code", scen, {"exit": ref["exit"]}, {"exit": res["exit"], "stderr_tail": res["stderr"][-600:]},
                        "exit status differs from the run of the same command without an update server"
                        + (" (interpreter aborted at shutdown while a dying checker thread held stderr)" if aborted else ""))
        # oracle 3: stdout
        if not ok_out:
            rep.violate("stdout", scen, {"stdout": ref["stdout"], "optional_suffix": (notice or "") + "\n"}, {"stdout": res["stdout"]},
                        "stdout is not the command's own output followed by at most one update notice")
        # oracle 4: added delay
        limit = ref["wall_max"] + ABOUT_ONE_SECOND + SLACK     # the property's own bound, not the regenerated constant
        if res["wall"] > limit:
            again = rerun(lambda r: r["killed"] or r["wall"] > limit)
            if again is not None:
                rep.violate("delay", scen, f"wall-clock <= {limit:.2f}s (reference {ref['wall_max']:.2f}s + {ABOUT_ONE_SECOND}s + {SLACK}s slack)",
                            f"{res['wall']:.2f}s, again {again['wall']:.2f}s", "the update check delays termination by more than about one second")
        # correspondence with the model
        died = "Exception in thread" in res["stderr"]
        impl_obs = {"exit": res["exit"], "notice": has_notice, "died": died}
        nontrivial = b["name"] != "refused"
        if pred is None:
            pass
        elif not (pred[0]["ended"] and pred[1]["ended"]):
            rep.disagree(scen, None, impl_obs, "the model's eager run does not end in Exit")
        else:
            keys = ("exit", "notice", "died")
            alternatives = [{k: p[k] for k in keys} for p in pred]
            if alternatives[0] != alternatives[1]:
                rep.count("model.timing-ambiguous (either answer accepted)")
            mod_obs = alternatives[0] if impl_obs != alternatives[1] else alternatives[1]
            delay_lo, delay_hi = min(p["delay"] for p in pred), max(p["delay"] for p in pred)
            pred = dict(pred[0], delay=delay_hi, notice=mod_obs["notice"])
            if impl_obs not in alternatives and ok_out:
                # a late thread start can lose a race that the nominal timing wins: look again before counting
                again = rerun(lambda r: {k: v for k, v in {"exit": r["exit"], "notice": split_notice(r["stdout"], ref["stdout"], notice)[1],
                                                            "died": "Exception in thread" in r["stderr"]}.items() if k in keys} not in alternatives)
                if again is not None:
                    rep.disagree(scen, mod_obs, impl_obs, "exit status / notice / death of the checker thread differ from the model's prediction")
            # the wait in the join is part of the run's wall-clock time (lower bound, robust against load), and the run may
            # not take longer than the slowest reference run plus the predicted wait plus slack
            def off(r):
                return r["wall"] > ref["wall_max"] + delay_hi / 1000 + SLACK or r["wall"] < 0.9 * delay_lo / 1000

            if off(res):
                again = rerun(off)
                if again is not None:
                    rep.disagree(scen, {"delay_ms": [delay_lo, delay_hi]}, {"wall_s": round(res["wall"], 2), "again_wall_s": round(again["wall"], 2), "reference_wall_s": round(ref["wall_max"], 2)},
                                 "time added by the update check differs from the model's join delay")
            rep.count("model.notice" if pred["notice"] else "model.no-notice")
            rep.count("impl.checker-traceback" if died else "impl.no-checker-traceback")
            rep.count("model.join-wait." + ("0" if pred["delay"] == 0 else "partial" if pred["delay"] < 1000 * timeout_s else "full-timeout"))
        rep.case((cmd["label"], b["name"], cur, res["exit"], has_notice), nontrivial=nontrivial,
                 sample={"command": cmd["label"], "server": b["name"], "installed": cur, "exit": res["exit"], "notice": has_notice, "checker_died": died,
                         "wall_s": round(res["wall"], 2), "reference_wall_s": round(ref["wall"], 2), "model": pred}
                 if (b["name"], cmd["label"]) in (("newer-hanging-30s", "info"), ("newer", "debug hash"), ("malformed-nightly", "info"), ("newer", "info no history (exit 30)"),
                                                  ("newer-delayed-0.5s", "info"), ("equal-short", "info")) and cur == "1.2.0" else None)


def installed_version():
    r = subprocess.run([core.PY, "-c", "import importlib.metadata as m; print(m.version('ascmhl'))"], capture_output=True, text=True)
    return r.stdout.strip()


def check(rep, tier, seed):
    scratch = core.Scratch("C20")
    try:
        env = Env(scratch)
        trees = build_trees(env)
        cmds = commands(trees)
        consts = generated_constants()
        if consts["update_notice"] is None:
            rep.notes.append("Generated.v has no update_notice: any trailing text counts as a stdout difference")
        installed = installed_version()
        rep.extra["c20_installed_version"] = installed
        rep.extra["c20_notice_text"] = consts["update_notice"]
        runs = plan(tier, seed, cmds)
        evaluate(rep, env, cmds, runs, consts, installed)
    finally:
        scratch.cleanup()


def replay(rep, data):
    """re-runs the recorded (command, behaviour, installed version) against a fresh reference run"""
    scen = data.get("scenario") or {}
    if "behaviour" not in scen:
        if data.get("kind") in ("proof", "translator", "extraction"):
            rep.coq = core.coq_step("C20")
            print("replay: proof step now " + ("passes" if rep.coq["ok"] else "fails: " + str(rep.coq.get("detail"))[:1500]))
            return 0 if rep.coq["ok"] else 1
        print("replay: nothing to re-run in this record")
        return 0
    scratch = core.Scratch("C20r")
    try:
        env = Env(scratch)
        cmds = commands(build_trees(env))
        ci = [i for i, c in enumerate(cmds) if c["label"] == scen["command"]][0]
        cur = scen["installed_version"]
        cur = None if str(cur).startswith("(real)") else cur
        rep.known = []
        evaluate(rep, env, cmds, [(ci, scen["behaviour"], cur)], generated_constants(), installed_version())
        hits = rep.violations if data.get("kind") == "oracle" else rep.disagreements
        for h in hits[:3]:
            print("REPRODUCED:", json.dumps(h, default=str)[:1500])
        print(f"replay: {len(hits)} matching failure(s)")
        return 1 if hits else 0
    finally:
        scratch.cleanup()


RULE = ("subprocess runs of the real click groups with requests.get scripted through sitecustomize: 37 fixed server behaviours (immediate / 0.5 s / 3 s / 30 s answers; "
        "newer, older, equal, pre-, dev-, post-release, epoch, local, malformed, empty, missing, null, number, list tag_name; non-JSON, empty, truncated, list, string, null "
        "bodies; HTTP 304/404/500/503; requests ConnectionError/ConnectTimeout/SSLError; ValueError, RuntimeError, OSError, UnicodeDecodeError) plus seeded random ones "
        "(structured PEP 440 strings in assorted spellings, odd bodies, statuses, exceptions, delays) x 16 commands (8 succeeding, three of them with -v, 8 ending in exit 30 / 11 / 2 / 1 / --help "
        "/ --version) x installed versions (1.2.0, the real dev build, pre-release, equal, above, below); every run is compared with a reference run (refused connection) "
        "and with the model's prediction.  Non-trivial: every run whose server is not the reference one.")
LEVEL_NOTE = ("proof over the two-thread model for all servers and all schedules; the real scheduler, interpreter shutdown with a live daemon thread and wall-clock "
              "behaviour are sampled by the subprocess runs (1.5 s slack), click's result-callback rule and packaging's parser are transcribed / cross-checked")
EXTRA_TRUSTED = [
    "C20: the scripted server (sitecustomize replacing requests.get and importlib.metadata.version), Python's json module and the harness's own PEP 440 reader (cross-checked "
    "against packaging on every string used) decide which Model/Update.v `server` value a behaviour is; `coqc` evaluates `predict` by vm_compute on a generated cases.v",
    "C20: premises that are data of a configuration: click runs the result callback only after a normal return; Thread.join(timeout) returns at thread end or at the timeout; "
    "the interpreter does not wait for daemon threads; the installed version string is a PEP 440 version",
]
