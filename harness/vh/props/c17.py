"""C17 -- renamed files keep their identity when rename detection is on"""
import copy

from .. import gen, oracles, world
from ._tree import make


def mixed_formats(rng):
    """files first recorded in DIFFERENT formats (generation 1 vs generation 2) renamed at the same time, -dr run in a third format"""
    distinct = set()
    tree = {}
    for k in range(rng.choice([2, 3, 4])):
        tree["old%d.bin" % k] = {"f": gen.gen_content(rng, distinct) or "a%d55" % k}
    fa, fb, fc = rng.sample(gen.FORMATS, 3)
    cur = copy.deepcopy(tree)
    steps = [{"op": "create", "fmts": [fa]}]
    for k in range(rng.choice([1, 2])):
        e = {"op": "add", "path": "late%d.bin" % k, "data": gen.gen_content(rng, distinct) or "b%d66" % k}
        steps.append(e)
        cur = world.tree_apply(cur, e)
    steps.append({"op": "create", "fmts": [fb]})
    ren = {}
    for old in sorted(gen.all_files(cur)):
        if rng.random() < 0.8:
            new = "moved_" + old
            st = {"op": "rename", "path": old, "to": new}
            steps.append(st)
            cur = world.tree_apply(cur, st)
            ren[old] = new
    if not ren:
        old = sorted(gen.all_files(cur))[0]
        st = {"op": "rename", "path": old, "to": "moved_" + old}
        steps.append(st)
        cur = world.tree_apply(cur, st)
        ren[old] = "moved_" + old
    rnd = {"map": ren, "dr": True, "create": len(steps)}
    steps.append({"op": "create", "fmts": [rng.choice([fa, fb, fc, fc])], "dr": True})
    acc = []
    for op in ["verify", "diff", "create"]:
        acc.append(len(steps))
        steps.append({"op": op, **({"fmts": [fc]} if op == "create" else {})})
    rnd["accept"] = acc
    return {"tree": tree, "steps": steps, "rounds": [rnd]}


def late_dr(rng):
    """the renamed tree is first sealed WITHOUT -dr (old names missing, new names recorded as new files, exit 10); only the
    following run uses -dr, on the untouched tree: the former paths are still recorded as previous paths and nothing is missing"""
    distinct = set()
    tree = {"keep.bin": {"f": gen.gen_content(rng, distinct) or "0c0c"}, "D": {"d": {}}}
    for k in range(rng.choice([1, 2, 3])):
        tree["D" if k % 2 else "old%d.bin" % k] = tree["D"] if k % 2 else {"f": gen.gen_content(rng, distinct) or "a%d77" % k}
        if k % 2:
            tree["D"]["d"]["in%d.bin" % k] = {"f": gen.gen_content(rng, distinct) or "d%d88" % k}
    cur = copy.deepcopy(tree)
    steps = [{"op": "create", "fmts": gen.gen_fmts(rng)}]
    ren = {}
    for old in sorted(f for f in gen.all_files(cur) if f != "keep.bin"):
        new = ("moved/" if rng.random() < 0.5 else "") + "new_" + old.replace("/", "_")
        st = {"op": "rename", "path": old, "to": new}
        steps.append(st)
        cur = world.tree_apply(cur, st)
        ren[old] = new
    steps.append({"op": "create", "fmts": gen.gen_fmts(rng)})                     # without -dr: exit 10
    rnd = {"map": ren, "dr": True, "create": len(steps)}
    steps.append({"op": "create", "fmts": gen.gen_fmts(rng), "dr": True})
    acc = []
    for op in ["verify", "diff", "create"]:
        acc.append(len(steps))
        steps.append({"op": op, **({"fmts": gen.gen_fmts(rng)} if op == "create" else {})})
    rnd["accept"] = acc
    return {"tree": tree, "steps": steps, "rounds": [rnd]}


def rename_back(rng):
    """a file gets a FORMER name back: a -> b recorded with -dr, then b -> a (and for a second file a -> b -> c -> a) recorded
    with -dr, one step per generation; the tree is accepted after each round like after any other rename"""
    distinct = set()
    tree = {"keep.bin": {"f": gen.gen_content(rng, distinct) or "0c0c"}, "A001.mov": {"f": gen.gen_content(rng, distinct) or "a177"},
            "D": {"d": {"in.bin": {"f": gen.gen_content(rng, distinct) or "d188"}}}}
    victims = ["A001.mov"] + (["D/in.bin"] if rng.random() < 0.5 else [])
    steps = [{"op": "create", "fmts": gen.gen_fmts(rng)}]
    rounds = []
    names = {v: [v, v + ".renamed"] + ([("moved/" + v.replace("/", "_"))] if rng.random() < 0.4 else []) + [v] for v in victims}
    for k in range(max(len(n) for n in names.values()) - 1):
        ren = {}
        for v, seq in names.items():
            if k + 1 < len(seq):
                steps.append({"op": "rename", "path": seq[k], "to": seq[k + 1]})
                ren[seq[k]] = seq[k + 1]
        rnd = {"map": ren, "dr": True, "create": len(steps)}
        steps.append({"op": "create", "fmts": gen.gen_fmts(rng), "dr": True})
        acc = []
        for op in rng.sample(["verify", "diff", "create"], rng.choice([2, 3])):
            acc.append(len(steps))
            steps.append({"op": op, **({"fmts": gen.gen_fmts(rng)} if op == "create" else {})})
        rnd["accept"] = acc
        rounds.append(rnd)
    steps.append({"op": "create", "fmts": gen.gen_fmts(rng), "dr": True})
    steps.append({"op": "verify"})
    return {"tree": tree, "steps": steps, "rounds": rounds}


def scenario(rng, i):
    if i % 6 == 4:
        return mixed_formats(rng)
    if i % 8 == 3:
        return rename_back(rng)
    if i % 8 == 7:
        return late_dr(rng)
    distinct = set()
    tree = gen.gen_tree(rng, max_entries=12, max_depth=3, simple=(i % 2 == 0), distinct=distinct, ds_store=False)
    while len(gen.all_files(tree)) < 3:
        tree[gen.gen_name(rng, set(tree), simple=True)] = {"f": gen.gen_content(rng, distinct)}
    # contents pairwise distinct and non-empty (the property's domain: identity by content)
    for f in gen.all_files(tree):
        node = gen._node(tree, f)
        if node["f"] == "":
            node["f"] = gen.gen_content(rng, distinct) or "aa55"
    if i % 3 == 2:
        # ... except that ONE file may be empty (it is still different from all others)
        gen._node(tree, rng.choice(gen.all_files(tree)))["f"] = ""
    cur = copy.deepcopy(tree)
    steps = [{"op": "create", "fmts": gen.gen_fmts(rng)}]
    rounds = []
    renamed_before = set()
    ever = set(gen.all_files(cur)) | set(gen.all_dirs(cur))          # a new name never re-uses a path that was recorded before
    fresh = set()                                                     # files added since the last generation that covers the whole tree
    for rnd_no in range(rng.choice([1, 1, 2, 3])):
        # a file renamed in an earlier round may be renamed again (one step per generation): after a -> b -> c the tree
        # must be accepted just the same
        files = [f for f in gen.all_files(cur) if (f not in renamed_before or (i % 3 != 0)) and f not in fresh]     # only recorded files are renamed
        if not files:
            break
        k = min(len(files), rng.choice([1, 1, 2, 3, 4]))
        ren = {}
        for old in rng.sample(files, k):
            dirs = [""] + gen.all_dirs(cur)
            d = rng.choice(dirs + ["newdir%d" % rnd_no])
            here = set(gen._node(cur, d)["d"]) if d in dirs and d else (set(cur) if d == "" else set())
            keep_name = rng.random() < 0.3 and old.rsplit("/", 1)[-1] not in here
            n = old.rsplit("/", 1)[-1] if keep_name else gen.gen_name(rng, here | {x.rsplit("/", 1)[-1] for x in ren.values()}, simple=True)
            new = (d + "/" if d else "") + n
            if new == old or new in ren.values() or new in ever or any(e == new or e.startswith(new + "/") or new.startswith(e + "/") and e not in gen.all_dirs(cur) for e in ever):
                continue
            ever.add(new)
            st = {"op": "rename", "path": old, "to": new}
            steps.append(st)
            cur = world.tree_apply(cur, st)
            ren[old] = new
        for _ in range(rng.choice([0, 0, 1, 2])):
            e = gen.gen_edit(rng, cur, kinds=("add",))
            e["data"] = gen.gen_content(rng, distinct) or "bb66"
            if e["path"] in ever:
                continue
            ever.add(e["path"])
            fresh.add(e["path"])
            steps.append(e)
            cur = world.tree_apply(cur, e)
        if not ren:
            continue
        dr = rng.random() < 0.75
        rnd = {"map": ren, "dr": dr}
        if dr:
            rnd["create"] = len(steps)
            steps.append({"op": "create", "fmts": gen.gen_fmts(rng), "dr": True})
            fresh.clear()
            acc = []
            for op in rng.sample(["verify", "diff", "create"], rng.choice([2, 3])):
                acc.append(len(steps))
                steps.append({"op": op, **({"fmts": gen.gen_fmts(rng)} if op == "create" else {})})
            rnd["accept"] = acc
            renamed_before |= set(ren.values())
            if rng.random() < 0.4:
                victim = rng.choice(sorted(ren.values()))
                steps.append({"op": "set", "path": victim, "data": gen.gen_content(rng, distinct) or "cc77"})
                cur = world.tree_apply(cur, steps[-1])
                rnd["altered"], rnd["altered_verify"] = victim, len(steps)
                steps.append({"op": "verify"})
                rounds.append(rnd)
                break
        else:
            rej = []
            for op in ["verify", "diff", "create"]:
                rej.append(len(steps))
                steps.append({"op": op, **({"fmts": gen.gen_fmts(rng)} if op == "create" else {})})
            rnd["create"] = rej[-1]
            rnd["reject"] = rej
            rounds.append(rnd)
            break
        rounds.append(rnd)
    return {"tree": tree, "steps": steps, "rounds": rounds}


RULE = ("trees with pairwise distinct non-empty contents; 1-3 rounds (a file may be renamed again in a later round) of 1-4 simultaneous file renames / moves between directories of one history (also into new folders, also keeping "
        "the base name) plus unrelated new files; each round is followed by create -dr (same or other formats) then verify / diff / create, optionally by altering a renamed "
        "file and verify -- or by verify / diff / create WITHOUT -dr; one scenario in six renames files first recorded in different formats (generations 1 and 2) at the same time and runs -dr in a third format; one in eight gives a file a former name back (a -> b -> a, a -> b -> c -> a); oracle: exit codes, <previousPath> of every renamed file, nothing reported missing, old+new paths "
        "reported without -dr. Non-trivial: at least one round with -dr and >= 2 renames or a second round.")
check, replay = make("C17", oracles.oracle_c17, scenario, 60, 1500, RULE,
                     nontrivial=lambda scn, obs: any(r["dr"] and (len(r["map"]) >= 2) for r in scn["rounds"]) or len(scn["rounds"]) >= 2)
