"""bin/check <Cnn> --tier quick|thorough [--replay FILE]"""
import argparse
import importlib
import json
import os
import sys
import traceback

from . import core

TRUSTED_BASE = [
    "Coq 8.16.1 kernel; vm_compute (bytecode VM) only, no native_compute, no disabled guard/positivity/universe checks",
    "axioms: none -- every Print Assumptions of Props/<id>.v must answer 'Closed under the global context' (checked on every run); thorough tier: coqchk -o must report 'Axioms: <none>'",
    "premises that are explicit hypotheses of theorems (not axioms): streaming law of hashlib/xxhash objects (upd_app, upd_nil), digest widths (Hlen), byte range of digests, the listed collision disjuncts",
    "translator/gen.py (Python ast, fail-closed) copying constants/tables/schemas and statement shapes from /repo into coq/Gen/Generated.v, and translating four functions of history.py, the format-selection block of commands.seal_file_path the exit decisions of verify / diff / create and the chain check of load_from_path (os.path.exists / hash_file mapped to the model's manifest lookup / cdig) (fixed loop shapes / a list-building statement fragment, conditions as expressions) into coq/Gen/GeneratedFns.v",
    "extraction: ExtrOcamlBasic only (Extract Inductive bool=>bool, option=>option, unit=>unit, list=>list, prod=>( * ), sumbool=>bool, sumor=>option; Extract Inlined Constant andb=>(&&), orb=>(||)); no directive of our own; OCaml 4.13.1; ocaml/driver.ml + world_driver.ml glue",
    "correspondence harness (harness/vh): generators, canonicalisers, independent readers (xml.etree/expat, own hex/C4 codec), oracle answers from hashlib/xxhash/pathspec",
    "modelled rather than verified: CPython semantics of the transcribed code, hashlib/OpenSSL, xxhash, lxml/libxml2, pathspec, click, the kernel VFS",
]


def main(argv=None):
    ap = argparse.ArgumentParser()
    ap.add_argument("prop")
    ap.add_argument("--tier", default=os.environ.get("VERIF_TIER", "quick"), choices=["quick", "thorough"])
    ap.add_argument("--replay", default=None)
    ap.add_argument("--no-coq", action="store_true", help="development only: skip the proof step (never used by MANIFEST commands)")
    a = ap.parse_args(argv)
    seed = int(os.environ.get("VERIF_SEED", "20260926"))
    core.setup_env()
    prop = a.prop.upper()
    mod = importlib.import_module(f"vh.props.{prop.lower()}")
    if hasattr(mod, "setup_env"):
        mod.setup_env()
    rep = core.Report(prop, a.tier, seed)
    if a.replay:
        data = json.load(open(a.replay if os.path.isabs(a.replay) else os.path.join(core.VERIF, a.replay)))
        print(json.dumps({k: v for k, v in data.items() if k != "log"}, indent=1, default=str)[:4000])
        if hasattr(mod, "replay"):
            return mod.replay(rep, data)
        if data.get("kind") in ("proof", "translator", "extraction"):
            rep.coq = core.coq_step(prop)
            print("replay: proof step now " + ("passes" if rep.coq["ok"] else "fails: " + str(rep.coq.get("detail"))[:1500]))
            return 0 if rep.coq["ok"] else 1
        # generic replay: every scenario is a deterministic function of (seed, tier); re-run and look for the
        # recorded signature / disagreement
        rep = core.Report(prop, data.get("tier", "quick"), int(data.get("seed", seed)))
        rep.known = []
        mod.check(rep, rep.tier, rep.seed)
        sig = data.get("signature")
        hits = [v for v in rep.violations if sig is None or v["signature"] == sig] if data.get("kind") == "oracle" else rep.disagreements
        for h in hits[:3]:
            print("REPRODUCED:", json.dumps(h, default=str)[:1500])
        print(f"replay: {len(hits)} matching failure(s)")
        return 1 if hits else 0
    if a.no_coq:
        rep.coq = {"ok": True, "theorems": [], "assumptions": {}, "translator": None}
    else:
        rep.coq = core.coq_step(prop, thorough=(a.tier == "thorough"))
    search = None
    if rep.coq["ok"] or os.path.exists(core.DRIVER):
        try:
            mod.check(rep, a.tier, seed)
        except Exception:
            rep.coq = dict(rep.coq)
            tb = traceback.format_exc()
            rep.notes.append("harness exception: " + tb[-1500:])
            # a harness that cannot run to completion has not shown the property: treat as tie broken
            rep.disagree({"op": "harness"}, None, tb[-1500:], "the correspondence run aborted")
        if hasattr(mod, "search"):
            search = lambda: mod.search(rep, a.tier, seed)  # noqa
    return rep.finish(
        level_note=getattr(mod, "LEVEL_NOTE", "see MANIFEST level_note"),
        rule=getattr(mod, "RULE", ""),
        trusted_base=TRUSTED_BASE + getattr(mod, "EXTRA_TRUSTED", []),
        checker_cmd=f"make -C coq Props/{prop}.vo && coqc -Q coq MHL coq/Props/{prop}.v  (Print Assumptions parsed; thorough: from-clean build + coqchk -o)",
        search=search,
    )


if __name__ == "__main__":
    sys.exit(main())
