"""Runs `ascmhl create` in THIS process and kills it (os._exit(137), no flushing, no atexit) at a chosen point.

usage: crashrun.py <scratch base> <kill spec json> <argv json>
kill spec: {"kind": "count"}                      run to completion, print the number of kill points of each kind
           {"kind": "event", "k": n}              die immediately BEFORE the n-th write-type audit event (mkdir / open-for-write / rename) executes
           {"kind": "write", "k": n, "flush": b}  die at the n-th write() into a file opened for writing below the base: before it (flush=false: what is
                                                   still in Python's buffer is lost) or after it with the buffer flushed (flush=true: a prefix of the file is on disk)
           {"kind": "close", "k": n}              die immediately before the n-th close() of such a file (buffer not flushed)
"""
import builtins
import io
import json
import os
import sys

base, spec, argv = os.path.realpath(sys.argv[1]), json.loads(sys.argv[2]), json.loads(sys.argv[3])
counts = {"event": 0, "write": 0, "close": 0}
trace = []


def die():
    os._exit(137)


def under(p):
    try:
        p = os.path.realpath(os.fsdecode(p))
    except Exception:  # noqa
        return False
    return p == base or p.startswith(base + os.sep)


def hook(event, args):
    if event == "open":
        path, mode, flags = args[0], args[1], args[2]
        if not isinstance(path, (str, bytes)) or not under(path):
            return
        wr = (isinstance(mode, str) and any(c in mode for c in "wax+")) or (isinstance(flags, int) and flags & (os.O_WRONLY | os.O_RDWR | os.O_CREAT | os.O_TRUNC | os.O_APPEND))
        if not wr:
            return
        name = "open-w"
        paths = [os.fsdecode(path)]
    elif event in ("os.mkdir", "os.rename", "os.remove", "os.rmdir", "os.truncate"):
        paths = [os.fsdecode(a) for a in args if isinstance(a, (str, bytes))]
        if not any(under(p) for p in paths):
            return
        name = event
    else:
        return
    counts["event"] += 1
    trace.append([name] + [os.path.relpath(os.path.realpath(p), base) for p in paths])
    if spec["kind"] == "event" and counts["event"] == spec["k"]:
        die()


class Proxy:
    def __init__(self, f):
        object.__setattr__(self, "_f", f)

    def write(self, data):
        counts["write"] += 1
        if spec["kind"] == "write" and counts["write"] == spec["k"]:
            if spec.get("flush"):
                # half of this write reaches the disk
                self._f.write(data[: max(1, len(data) // 2)])
                self._f.flush()
            die()
        return self._f.write(data)

    def close(self):
        counts["close"] += 1
        if spec["kind"] == "close" and counts["close"] == spec["k"]:
            die()
        return self._f.close()

    def __getattr__(self, n):
        return getattr(self._f, n)

    def __enter__(self):
        return self

    def __exit__(self, *a):
        self.close()
        return False


_open = builtins.open


def open_(file, mode="r", *a, **kw):
    f = _open(file, mode, *a, **kw)
    if isinstance(file, (str, bytes, os.PathLike)) and any(c in mode for c in "wax+") and under(file):
        return Proxy(f)
    return f


sys.addaudithook(hook)
builtins.open = open_
io.open = open_

import ascmhl.commands as commands  # noqa: E402

code = 0
try:
    commands.create.main(args=argv, standalone_mode=False)
except SystemExit as e:  # noqa
    code = e.code if isinstance(e.code, int) else 1
except Exception as e:  # noqa
    code = getattr(e, "exit_code", 1)
sys.stdout.flush()
print("CRASHRUN " + json.dumps({"counts": counts, "trace": trace, "code": code}))
sys.stdout.flush()
os._exit(0)
