#!/usr/bin/env python3
"""Fail-closed translator: /repo source  ->  coq/Gen/Generated.v

Re-reads the repository on every run and emits, as Coq *values only* (no logic), every constant, table and
schema the theorems depend on.  Each item is located by an explicit `ast` pattern; when a pattern is not
found the translator stops with a non-zero exit status naming the item (the caller then treats the
model/code tie as broken).  Uses only the Python standard library (ast, xml.etree) so that it can run
under any interpreter.

usage: gen.py <repo> <out.v>      (writes <out.v> only when its text changes; prints a JSON summary)
"""
import ast
import json
import os
import sys
import xml.etree.ElementTree as ET


class TranslateError(Exception):
    pass


def fail(item, why):
    raise TranslateError(f"translator: item '{item}' not found / not in the expected shape: {why}")


WARNINGS = []


def soft(item, why):
    """a *shape* the model was transcribed from has drifted, but no constant depends on it: recorded as a warning
    (the behavioural correspondence check is what ties the shape to the code), never a failure"""
    WARNINGS.append(f"{item}: {why}")


# ---------------------------------------------------------------------------------------------- helpers


def parse(repo, rel):
    p = os.path.join(repo, rel)
    try:
        with open(p, "r", encoding="utf-8") as fh:
            src = fh.read()
    except OSError as e:
        fail(rel, f"cannot read ({e})")
    try:
        return ast.parse(src, filename=p)
    except SyntaxError as e:
        fail(rel, f"syntax error ({e})")


def find_class(mod, name, item):
    for n in mod.body:
        if isinstance(n, ast.ClassDef) and n.name == name:
            return n
    fail(item, f"class {name}")


def find_func(body, name, item):
    for n in body:
        if isinstance(n, (ast.FunctionDef, ast.AsyncFunctionDef)) and n.name == name:
            return n
    fail(item, f"function {name}")


def module_assign(mod, name, item):
    for n in mod.body:
        if isinstance(n, ast.Assign) and len(n.targets) == 1 and isinstance(n.targets[0], ast.Name):
            if n.targets[0].id == name:
                return n.value
    fail(item, f"module-level assignment {name} = ...")


def class_assign(cls, name, item):
    for n in cls.body:
        if isinstance(n, ast.Assign) and len(n.targets) == 1 and isinstance(n.targets[0], ast.Name):
            if n.targets[0].id == name:
                return n.value
        if isinstance(n, ast.AnnAssign) and isinstance(n.target, ast.Name) and n.target.id == name and n.value:
            return n.value
    fail(item, f"class-level assignment {cls.name}.{name}")


def local_assigns(fn, name):
    """all `name = <expr>` statements anywhere in the function body (in source order)"""
    out = []
    for n in ast.walk(fn):
        if isinstance(n, ast.Assign) and len(n.targets) == 1 and isinstance(n.targets[0], ast.Name):
            if n.targets[0].id == name:
                out.append(n)
    out.sort(key=lambda n: (n.lineno, n.col_offset))
    return out


def const_str(node, item):
    if isinstance(node, ast.Constant) and isinstance(node.value, str):
        return node.value
    fail(item, "string literal expected")


def const_int(node, item):
    """integer literal or a product / sum / difference of integer literals (constant folded)"""
    if isinstance(node, ast.Constant) and isinstance(node.value, int) and not isinstance(node.value, bool):
        return node.value
    if isinstance(node, ast.BinOp) and isinstance(node.op, (ast.Mult, ast.Add, ast.Sub)):
        a, b = const_int(node.left, item), const_int(node.right, item)
        return a * b if isinstance(node.op, ast.Mult) else a + b if isinstance(node.op, ast.Add) else a - b
    fail(item, "integer literal (or product of literals) expected")


def str_list(node, item):
    if isinstance(node, ast.List):
        return [const_str(e, item) for e in node.elts]
    fail(item, "list of string literals expected")


# ------------------------------------------------------------------------------------------ Coq printing


def stmts_of(fn):
    """source text of the statements of a function body, doc string dropped"""
    return [
        ast.unparse(s)
        for s in fn.body
        if not (isinstance(s, ast.Expr) and isinstance(s.value, ast.Constant) and isinstance(s.value.value, str))
    ]


def coq_text(s):
    return "[" + "; ".join(str(ord(c)) for c in s) + "]%N"


def coq_text_list(ss):
    return "[" + "; ".join(coq_text(s) for s in ss) + "]"


def comment(s):
    return "(* " + s.replace("(*", "( *").replace("*)", "* )") + " *)"


class Out:
    def __init__(self):
        self.lines = []
        self.summary = {}

    def text(self, name, s, src):
        self.lines.append(f"Definition {name} : list N := {coq_text(s)}. {comment(repr(s) + '  <- ' + src)}")
        self.summary[name] = s

    def texts(self, name, ss, src):
        self.lines.append(f"Definition {name} : list (list N) := {coq_text_list(ss)}. {comment(repr(ss) + '  <- ' + src)}")
        self.summary[name] = ss

    def num(self, name, v, src, ty="N"):
        lit = f"{v}%{ty}" if v >= 0 else f"({v})%{ty}"
        self.lines.append(f"Definition {name} : {ty} := {lit}. {comment(src)}")
        self.summary[name] = v

    def raw(self, line):
        self.lines.append(line)


# ------------------------------------------------------------------------------------------------- items


def gen_version(repo, out):
    mod = parse(repo, "ascmhl/__version__.py")
    src = "ascmhl/__version__.py"
    for coq, py in [
        ("folder_name", "ascmhl_folder_name"),
        ("file_extension", "ascmhl_file_extension"),
        ("chainfile_name", "ascmhl_chainfile_name"),
        ("collectionfile_name", "ascmhl_collectionfile_name"),
        ("default_hashformat", "ascmhl_default_hashformat"),
        ("reference_hash_format", "ascmhl_reference_hash_format"),
    ]:
        out.text(coq, const_str(module_assign(mod, py, py), py), f"{src}:{py}")
    out.texts(
        "supported_hashformats",
        str_list(module_assign(mod, "ascmhl_supported_hashformats", "ascmhl_supported_hashformats"), "supported"),
        f"{src}:ascmhl_supported_hashformats",
    )


EXC_CLASSES = [
    ("CompletenessCheckFailedException", "exit_completeness"),
    ("VerificationFailedException", "exit_verification_failed"),
    ("VerificationDirectoriesFailedException", "exit_verification_directories_failed"),
    ("SingleFileNotFoundException", "exit_single_file_not_found"),
    ("NewFilesFoundException", "exit_new_files_found"),
    ("NoMHLHistoryException", "exit_no_history"),
    ("ModifiedMHLManifestFileException", "exit_modified_manifest"),
    ("NoMHLChainException", "exit_no_chain"),
    ("MissingMHLManifestException", "exit_missing_manifest"),
]


def gen_errors(repo, out):
    mod = parse(repo, "ascmhl/errors.py")
    for cls_name, coq in EXC_CLASSES:
        cls = find_class(mod, cls_name, cls_name)
        bases = [ast.unparse(b) for b in cls.bases]
        if bases != ["click.ClickException"]:
            fail(cls_name, f"base class is {bases}, expected click.ClickException")
        out.num(coq, const_int(class_assign(cls, "exit_code", cls_name), cls_name), f"errors.py:{cls_name}.exit_code", "Z")


def chunk_size_of(fn, item):
    """`size = 1024 * 1024` followed by the loop  chunk = fd.read(size); while chunk: ...; chunk = fd.read(size)"""
    sizes = local_assigns(fn, "size")
    if len(sizes) != 1:
        fail(item, "exactly one `size = ...` assignment expected")
    v = const_int(sizes[0].value, item)
    reads = [ast.unparse(a.value) for a in local_assigns(fn, "chunk")]
    if reads != ["fd.read(size)", "fd.read(size)"]:
        soft(item, f"chunk assignments are {reads}, expected two `fd.read(size)`")
    whiles = [n for n in ast.walk(fn) if isinstance(n, ast.While)]
    if len(whiles) != 1 or ast.unparse(whiles[0].test) != "chunk":
        soft(item, "single `while chunk:` loop expected")
    opens = [ast.unparse(n.items[0].context_expr) for n in ast.walk(fn) if isinstance(n, ast.With)]
    if len(opens) != 1 or not opens[0].endswith("'rb')"):
        soft(item, f"file must be opened once in 'rb' mode, found {opens}")
    return v


def gen_hasher(repo, out):
    mod = parse(repo, "ascmhl/hasher.py")
    hasher = find_class(mod, "Hasher", "Hasher")
    out.num("chunk_size_single", chunk_size_of(find_func(hasher.body, "hash_file", "Hasher.hash_file"), "Hasher.hash_file chunk size"), "hasher.py:Hasher.hash_file size")
    agg = find_class(mod, "AggregateHasher", "AggregateHasher")
    out.num("chunk_size_multi", chunk_size_of(find_func(agg.body, "hash_file", "AggregateHasher.hash_file"), "AggregateHasher.hash_file chunk size"), "hasher.py:AggregateHasher.hash_file size")

    c4 = find_class(mod, "C4", "C4")
    out.text("c4_charset", const_str(class_assign(c4, "charset", "C4.charset"), "C4.charset"), "hasher.py:C4.charset")
    sd = find_func(c4.body, "string_digest", "C4.string_digest")
    bd = find_func(c4.body, "bytes_from_string_digest", "C4.bytes_from_string_digest")

    def one(fn, name, item, kind):
        a = local_assigns(fn, name)
        if len(a) < 1:
            fail(item, f"`{name} = ...` expected")
        return const_int(a[0].value, item) if kind == "int" else const_str(a[0].value, item)

    base_e, len_e, zero = one(sd, "base58", "C4 base (encode)", "int"), one(sd, "c4id_length", "C4 length (encode)", "int"), one(sd, "zero", "C4 zero", "str")
    base_d, len_d = one(bd, "base58", "C4 base (decode)", "int"), one(bd, "c4id_length", "C4 length (decode)", "int")
    out.num("c4_base_enc", base_e, "hasher.py:C4.string_digest base58")
    out.num("c4_base_dec", base_d, "hasher.py:C4.bytes_from_string_digest base58")
    out.num("c4_len_enc", len_e, "hasher.py:C4.string_digest c4id_length")
    out.num("c4_len_dec", len_d, "hasher.py:C4.bytes_from_string_digest c4id_length")
    out.text("c4_zero", zero, "hasher.py:C4.string_digest zero")
    # c4_string = "c4" + c4_string.rjust(c4id_length - 2, zero)
    fin = local_assigns(sd, "c4_string")[-1].value
    ok = (
        isinstance(fin, ast.BinOp)
        and isinstance(fin.op, ast.Add)
        and isinstance(fin.left, ast.Constant)
        and isinstance(fin.right, ast.Call)
        and ast.unparse(fin.right.func) == "c4_string.rjust"
        and len(fin.right.args) == 2
        and isinstance(fin.right.args[0], ast.BinOp)
        and isinstance(fin.right.args[0].op, ast.Sub)
        and ast.unparse(fin.right.args[0].left) == "c4id_length"
        and ast.unparse(fin.right.args[1]) == "zero"
    )
    if not ok:
        fail("C4 prefix / padding", 'expected `c4_string = "c4" + c4_string.rjust(c4id_length - K, zero)`')
    out.text("c4_prefix", const_str(fin.left, "C4 prefix"), "hasher.py:C4.string_digest prefix literal")
    out.num("c4_pad_sub", const_int(fin.right.args[0].right, "C4 padding width"), "hasher.py: rjust(c4id_length - K)")
    # the encode loop:  while hash_value != 0: modulo = hash_value % base58; hash_value = hash_value // base58;
    #                   c4_string = C4.charset[modulo] + c4_string
    w = [n for n in ast.walk(sd) if isinstance(n, ast.While)] or [ast.While(test=ast.Constant(0), body=[], orelse=[])]
    body = [ast.unparse(s) for s in w[0].body] if len(w) == 1 else None
    if (
        body != ["modulo = hash_value % base58", "hash_value = hash_value // base58", "c4_string = C4.charset[modulo] + c4_string"]
        or ast.unparse(w[0].test) != "hash_value != 0"
    ):
        soft("C4 encode loop", f"unexpected loop {body}")
    if ast.unparse(local_assigns(sd, "hash_value")[0].value) != "int(sha512_string, 16)":
        soft("C4 encode input", "expected hash_value = int(sha512_string, 16)")
    # the decode loop: i = 2; while i < c4id_length: temp = C4.charset.index(hash_string[i]); result = result*base58+temp
    out.num("c4_dec_start", const_int(local_assigns(bd, "i")[0].value, "C4 decode start index"), "hasher.py: i = 2")
    w = [n for n in ast.walk(bd) if isinstance(n, ast.While)] or [ast.While(test=ast.Constant(0), body=[], orelse=[])]
    body = [ast.unparse(s) for s in w[0].body] if len(w) == 1 else None
    if (
        body != ["temp = C4.charset.index(hash_string[i])", "result = result * base58 + temp", "i = i + 1"]
        or ast.unparse(w[0].test) != "i < c4id_length"
    ):
        soft("C4 decode loop", f"unexpected loop {body}")
    tb = local_assigns(bd, "data")[0].value
    if not (isinstance(tb, ast.Call) and ast.unparse(tb.func) == "result.to_bytes" and ast.unparse(tb.keywords[0].value) == "'big'"):
        fail("C4 decode width", "expected result.to_bytes(N, byteorder='big')")
    out.num("c4_digest_bytes", const_int(tb.args[0], "C4 decode width"), "hasher.py: to_bytes(64)")

    # HashType table: name -> class -> (codec base class, hashlib_type() return expression)
    ht = find_class(mod, "HashType", "HashType")
    rows = []
    for n in ht.body:
        if isinstance(n, ast.Assign) and len(n.targets) == 1 and isinstance(n.targets[0], ast.Name) and isinstance(n.value, ast.Name):
            cls = find_class(mod, n.value.id, f"hash class {n.value.id}")
            bases = [ast.unparse(b) for b in cls.bases]
            ret = find_func(cls.body, "hashlib_type", f"{cls.name}.hashlib_type")
            rets = [ast.unparse(r.value) for r in ast.walk(ret) if isinstance(r, ast.Return)]
            if len(rets) != 1:
                fail(f"{cls.name}.hashlib_type", "single return expected")
            codec = "hex" if bases == ["HexHasher"] else "c4" if (bases == ["Hasher"] and cls.name == "C4") else None
            if codec is None:
                fail(f"{cls.name} codec", f"bases {bases}")
            rows.append((n.targets[0].id, codec, rets[0]))
    if not rows:
        fail("HashType", "no members")
    # HexHasher codec: hexdigest / unhexlify
    hx = find_class(mod, "HexHasher", "HexHasher")
    if [ast.unparse(r.value) for r in ast.walk(find_func(hx.body, "string_digest", "HexHasher.string_digest")) if isinstance(r, ast.Return)] != ["self.hasher.hexdigest()"]:
        soft("HexHasher.string_digest", "expected return self.hasher.hexdigest()")
    if [ast.unparse(r.value) for r in ast.walk(find_func(hx.body, "bytes_from_string_digest", "HexHasher.bytes_from_string_digest")) if isinstance(r, ast.Return)] != ["binascii.unhexlify(hash_string)"]:
        soft("HexHasher.bytes_from_string_digest", "expected return binascii.unhexlify(hash_string)")
    out.raw(
        "Definition hash_table : list (list N * (list N * list N)) := ["
        + "; ".join(f"({coq_text(a)}, ({coq_text(b)}, {coq_text(c)}))" for a, b, c in rows)
        + "]. "
        + comment("hasher.py:HashType  name -> (codec, primitive) " + repr(rows))
    )
    out.summary["hash_table"] = rows
    # hash_of_hash_list: empty -> digest of nothing; sort(); update(bytes_from_string_digest(h)) for each
    hol = find_func(hasher.body, "hash_of_hash_list", "Hasher.hash_of_hash_list")
    stmts = stmts_of(hol)
    expect = [
        "hasher = cls()",
        "if len(hash_list) == 0:\n    return hasher.string_digest()",
        "hash_list.sort()",
        "for hash_string in hash_list:\n    hasher.update(cls.bytes_from_string_digest(hash_string))",
        "return hasher.string_digest()",
    ]
    if stmts != expect:
        soft("Hasher.hash_of_hash_list", f"unexpected body {stmts}")


def gen_ignore(repo, out):
    mod = parse(repo, "ascmhl/ignore.py")
    fn = find_func(mod.body, "default_ignore_list", "default_ignore_list")
    rets = [r.value for r in ast.walk(fn) if isinstance(r, ast.Return)]
    if len(rets) != 1:
        fail("default_ignore_list", "single return expected")
    out.texts("default_ignore", str_list(rets[0], "default_ignore_list"), "ignore.py:default_ignore_list")


def gen_history(repo, out):
    mod = parse(repo, "ascmhl/history.py")
    cls = find_class(mod, "MHLHistory", "MHLHistory")
    out.text("history_file_name_regex", const_str(class_assign(cls, "history_file_name_regex", "regex"), "regex"), "history.py:history_file_name_regex")
    # the flags the regex is used with (re.DOTALL since the fix "recognise the tool's own manifest names ...")
    lf = find_func(cls.body, "load_from_path", "load_from_path")
    calls = [n for n in ast.walk(lf) if isinstance(n, ast.Call) and ast.unparse(n.func) == "re.findall"
             and n.args and ast.unparse(n.args[0]) == "MHLHistory.history_file_name_regex"]
    if len(calls) != 1 or len(calls[0].args) not in (2, 3) or ast.unparse(calls[0].args[1]) != "filename_no_extension":
        fail("manifest name recogniser", "expected one re.findall(MHLHistory.history_file_name_regex, filename_no_extension[, flags])")
    out.text("history_file_name_flags", ast.unparse(calls[0].args[2]) if len(calls[0].args) == 3 else "", "history.py: flags of the manifest name regex")
    fn = find_func(cls.body, "_new_generation_filename", "_new_generation_filename")
    idx = local_assigns(fn, "index")
    if len(idx) != 1 or ast.unparse(idx[0].value) != "self.latest_generation_number() + 1":
        fail("generation index", "expected index = self.latest_generation_number() + 1")
    out.num("generation_increment", 1, "history.py: index = self.latest_generation_number() + 1")
    fname = local_assigns(fn, "file_name")
    if len(fname) != 1 or not isinstance(fname[0].value, ast.JoinedStr):
        fail("generation file name", "f-string expected")
    parts = []
    for v in fname[0].value.values:
        if isinstance(v, ast.Constant):
            parts.append(("L", v.value))
        elif isinstance(v, ast.FormattedValue):
            spec = ast.unparse(v.format_spec)[2:-1] if v.format_spec is not None else ""
            parts.append(("V", ast.unparse(v.value) + (":" + spec if spec else "")))
    expect = [("V", "index:04d"), ("L", "_"), ("V", "folder_name"), ("L", "_"), ("V", "date_string"), ("V", "ascmhl_file_extension")]
    if parts != expect:
        fail("generation file name", f"f-string parts {parts} (expected {expect})")
    out.num("generation_number_width", 4, "history.py: {index:04d}", "nat")
    out.text("generation_name_sep", "_", "history.py: separators of the generation file name")
    lg = find_func(cls.body, "latest_generation_number", "latest_generation_number")
    body = stmts_of(lg)
    expect = [
        "latest_number = 0",
        "for hash_list in self.hash_lists:\n    if hash_list.generation_number:\n        latest_number = hash_list.generation_number",
        "return latest_number",
    ]
    if body != expect:
        soft("latest_generation_number", f"unexpected body {body}")
    mod_u = parse(repo, "ascmhl/utils.py")
    fn = find_func(mod_u.body, "datetime_now_filename_string", "datetime_now_filename_string")
    rets = [r.value for r in ast.walk(fn) if isinstance(r, ast.Return)]
    if len(rets) != 1 or not isinstance(rets[0], ast.Call) or len(rets[0].args) != 2:
        fail("file name time format", "expected strftime(now(utc), fmt)")
    if ast.unparse(rets[0].args[0]) != "datetime.datetime.now(datetime.timezone.utc)":
        fail("file name time zone", f"expected now(datetime.timezone.utc), found {ast.unparse(rets[0].args[0])}")
    out.text("filename_time_format", const_str(rets[0].args[1], "file name time format"), "utils.py:datetime_now_filename_string")


def gen_time(repo, out):
    """C16: the shapes Model/Time.v was transcribed from.  No constant is taken from them (the file-name format string is
    emitted by gen_history), so drift is a shape warning; the behavioural check in harness/vh/props/c16.py is the tie."""
    mod = parse(repo, "ascmhl/utils.py")
    fn = find_func(mod.body, "datetime_isostring", "datetime_isostring")
    expect = [
        "if keep_microseconds:\n    date_to_format = date\nelse:\n    date_to_format = date.replace(microsecond=0)",
        "if date_to_format.tzinfo is not None:\n    return date_to_format.isoformat()",
        "utc_offset = date_to_format.astimezone().utcoffset()",
        "return date_to_format.replace(tzinfo=datetime.timezone(offset=utc_offset)).isoformat()",
    ]
    if stmts_of(fn) != expect:
        soft("datetime_isostring", f"unexpected body {stmts_of(fn)}")
    fn = find_func(mod.body, "datetime_now_isostring", "datetime_now_isostring")
    if stmts_of(fn) != ["return datetime_isostring(datetime.datetime.now())"]:
        soft("datetime_now_isostring", f"unexpected body {stmts_of(fn)}")

    def has_line(rel, fn_path, line, item):
        m = parse(repo, rel)
        body = m.body
        node = None
        for name in fn_path:
            node = next((n for n in body if isinstance(n, (ast.FunctionDef, ast.ClassDef)) and n.name == name), None)
            if node is None:
                soft(item, f"{'.'.join(fn_path)} not found in {rel}")
                return
            body = node.body
        lines = [ln.strip() for ln in ast.unparse(node).splitlines()]
        if line not in lines:
            soft(item, f"expected `{line}` in {rel}:{'.'.join(fn_path)}")

    has_line("ascmhl/hashlist_xml_parser.py", ["_media_hash_xml_element"], "if media_hash.file_size is not None:", "size attribute writer")
    has_line("ascmhl/hashlist_xml_parser.py", ["_media_hash_xml_element"], "path_element.attrib['size'] = str(media_hash.file_size)", "size attribute writer")
    has_line("ascmhl/hashlist_xml_parser.py", ["parse"], "current_object.file_size = int(file_size) if file_size else None", "size attribute reader")
    has_line("ascmhl/commands.py", ["seal_file_path"], "file_size = os.path.getsize(file_path)", "size captured when sealing")
    has_line("ascmhl/commands.py", ["seal_file_path"], "file_modification_date = datetime.datetime.fromtimestamp(os.path.getmtime(file_path))", "mtime captured when sealing")
    has_line("ascmhl/hashlist.py", ["MHLHashEntry", "__init__"], "self.hash_date = datetime.now()", "hash date")


def gen_commands(repo, out):
    mod = parse(repo, "ascmhl/commands.py")
    # process types
    def process_type(fn_name):
        fn = find_func(mod.body, fn_name, fn_name)
        calls = [n for n in ast.walk(fn) if isinstance(n, ast.Call) and ast.unparse(n.func) == "MHLProcess"]
        if len(calls) != 1:
            fail(f"{fn_name} process type", "single MHLProcess(...) call expected")
        return const_str(calls[0].args[0], f"{fn_name} process type")

    out.text("process_in_place", process_type("commit_session"), "commands.py:commit_session")
    out.text("process_flatten", process_type("commit_session_for_collection"), "commands.py:commit_session_for_collection")
    # default format of verify -dh
    fn = find_func(mod.body, "verify_directory_hash_subcommand", "verify_directory_hash_subcommand")
    defaults = [
        n for n in ast.walk(fn)
        if isinstance(n, ast.Call) and ast.unparse(n.func) == "hash_formats.append" and isinstance(n.args[0], ast.Constant)
    ]
    if len(defaults) != 1:
        fail("verify -dh default format", "single hash_formats.append(<literal>) expected")
    out.text("dh_default_format", const_str(defaults[0].args[0], "dh default"), "commands.py:verify_directory_hash_subcommand")
    # click option shapes of create / verify
    def option_kw(fn_name, opt):
        fn = find_func(mod.body, fn_name, fn_name)
        for d in fn.decorator_list:
            if isinstance(d, ast.Call) and ast.unparse(d.func) == "click.option":
                names = [a.value for a in d.args if isinstance(a, ast.Constant)]
                if opt in names:
                    return {k.arg: ast.unparse(k.value) for k in d.keywords}
        fail(f"{fn_name} option {opt}", "click.option not found")

    kw = option_kw("create", "--hash_format")
    if kw.get("type") != "click.Choice(ascmhl_supported_hashformats)" or kw.get("multiple") != "True" or kw.get("default") != "[ascmhl_default_hashformat]":
        fail("create -h", f"unexpected option shape {kw}")
    kw = option_kw("verify", "--hash_format")
    if kw.get("type") != "click.Choice(ascmhl_supported_hashformats)" or kw.get("multiple") != "False":
        fail("verify -h", f"unexpected option shape {kw}")
    kw = option_kw("create", "--single_file")
    if kw.get("multiple") != "True":
        fail("create -sf", f"unexpected option shape {kw}")


    # how the two forms of create count failed verifications (Model/Create.v seal_file / Model/Commands.v sf_step, process_event):
    #   create_for_single_files_subcommand: one count per sealed file, decided by the FIRST requested format's verdict  -> 1
    #   create_for_folder_subcommand: one count per failed format of every sealed file                                    -> 2
    #   anything else -> 0 (the obligations C03_failure_counting_rules then fail)
    def norm(n):
        return " ".join(ast.unparse(n).split())

    def followed_by_count(body, i):
        return i + 1 < len(body) and norm(body[i + 1]) == "if not success: num_failed_verifications += 1"

    def exit_decision(fn):
        hits = [n for n in ast.walk(fn) if isinstance(n, ast.If) and norm(n.test) == "num_failed_verifications > 0"]
        return len(hits) == 1 and "VerificationFailedException" in norm(hits[0]) and len(hits[0].orelse) == 0

    def blocks(fn):
        for n in ast.walk(fn):
            for field in ("body", "orelse", "finalbody"):
                b = getattr(n, field, None)
                if isinstance(b, list) and b and isinstance(b[0], ast.stmt):
                    yield b

    def count_increments(fn):
        return sum(1 for n in ast.walk(fn) if isinstance(n, ast.AugAssign) and norm(n.target) == "num_failed_verifications")

    fn = find_func(mod.body, "create_for_single_files_subcommand", "create -sf counting rule")
    seal_calls = sum(1 for n in ast.walk(fn) if isinstance(n, ast.Call) and norm(n.func) == "seal_file_path")
    good = 0
    for b in blocks(fn):
        for i, st in enumerate(b):
            if isinstance(st, ast.Assign) and norm(st.targets[0]) == "success":
                if norm(st.value) == "seal_result[hash_format_list[0]].success" and followed_by_count(b, i) and i > 0 and "seal_file_path(" in norm(b[i - 1]):
                    good += 1
                else:
                    good -= 100
    rule = 1 if (good == seal_calls == count_increments(fn) and seal_calls >= 1 and exit_decision(fn)) else 0
    out.num("sf_count_rule", rule, "commands.py:create_for_single_files_subcommand -- 1: per file, first requested format's verdict")
    fn = find_func(mod.body, "create_for_folder_subcommand", "create counting rule")
    loops = [n for n in ast.walk(fn) if isinstance(n, ast.For) and norm(n.iter) == "seal_result.items()" and norm(n.target) == "(hash_format, result_tuple)"]
    ok = len(loops) == 1 and count_increments(fn) == 1 and exit_decision(fn)
    if ok:
        b = loops[0].body
        idx = [i for i, st in enumerate(b) if isinstance(st, ast.Assign) and norm(st.targets[0]) == "success"]
        ok = len(idx) == 1 and norm(b[idx[0]].value) == "result_tuple.success" and followed_by_count(b, idx[0])
    out.num("folder_count_rule", 2 if ok else 0, "commands.py:create_for_folder_subcommand -- 2: one count per failed format of every sealed file")


def gen_cli(repo, out):
    for rel, grp in [("ascmhl/cli/ascmhl.py", "mhltool_cli"), ("ascmhl/cli/ascmhl_debug.py", "debug_cli")]:
        mod = parse(repo, rel)
        joins = [n for n in ast.walk(mod) if isinstance(n, ast.Call) and ast.unparse(n.func) == "updater.join"]
        if len(joins) != 1 or len(joins[0].keywords) != 1 or joins[0].keywords[0].arg != "timeout":
            fail(f"{rel} join timeout", "expected exactly one updater.join(timeout=N)")
        key = "join_timeout" if grp == "mhltool_cli" else "join_timeout_debug"
        out.num(key, const_int(joins[0].keywords[0].value, "join timeout"), f"{rel}: updater.join(timeout=...)")
    mod = parse(repo, "ascmhl/cli/update.py")
    cls = find_class(mod, "Updater", "Updater")
    init = find_func(cls.body, "__init__", "Updater.__init__")
    if "self.daemon = True" not in [ast.unparse(s) for s in init.body]:
        fail("Updater daemon flag", "expected self.daemon = True in __init__")
    out.raw("Definition updater_daemon : bool := true. " + comment("cli/update.py: self.daemon = True"))
    g = find_func(cls.body, "_get_latest_version", "_get_latest_version")
    handlers = [ast.unparse(h.type) for n in ast.walk(g) if isinstance(n, ast.Try) for h in n.handlers]
    # the repaired code catches Exception; the narrower clause of the pinned code is still *translated* (not rejected) so that
    # going back to it shows up as a broken proof obligation (Props/C20.v: C20_checker_swallows_every_exception)
    if len(handlers) != 1 or handlers[0] not in ("Exception", "requests.exceptions.RequestException"):
        fail("update check exception handler", f"found {handlers}")
    out.text("update_caught_exception", handlers[0], "cli/update.py: except clause")
    # ---- C20 additions: comparison operator of needs_update, the notice text, shape of the transcribed statements
    nu = find_func(cls.body, "needs_update", "Updater.needs_update")
    if len(nu.body) != 2 or ast.unparse(nu.body[0]) != "if not self.latest_version:\n    return False" or not isinstance(nu.body[1], ast.Return):
        fail("needs_update", "expected `if not self.latest_version: return False` followed by one return")
    e = nu.body[1].value
    if not (isinstance(e, ast.BoolOp) and isinstance(e.op, ast.And) and len(e.values) == 3 and isinstance(e.values[0], ast.Compare)
            and len(e.values[0].ops) == 1 and isinstance(e.values[0].ops[0], (ast.Gt, ast.GtE))
            and ast.unparse(e.values[0].left) == "self.latest_version"
            and ast.unparse(e.values[0].comparators[0]) == "version.parse(ascmhl_tool_version)"
            and [ast.unparse(v) for v in e.values[1:]] == ["not self.latest_version.is_devrelease", "not self.latest_version.is_prerelease"]):
        fail("needs_update", f"unexpected return expression {ast.unparse(e)}")
    strict = isinstance(e.values[0].ops[0], ast.Gt)
    out.raw(f"Definition update_compare_strict : bool := {'true' if strict else 'false'}. " + comment("cli/update.py needs_update: latest " + (">" if strict else ">=") + " current"))
    tries = [n for n in ast.walk(g) if isinstance(n, ast.Try)]
    want_try = ["r = requests.get('https://api.github.com/repos/ascmitc/mhl/releases/latest')", "r.raise_for_status()",
                "self.latest_version = version.parse(r.json().get('tag_name'))"]
    if len(tries) != 1 or [ast.unparse(x) for x in tries[0].body] != want_try or [ast.unparse(x) for x in tries[0].handlers[0].body] != ["self.finished = True"]:
        soft("Updater._get_latest_version", "statements of the try block / handler differ from the transcribed ones")
    if stmts_of(find_func(cls.body, "run", "Updater.run")) != ["self._get_latest_version()", "self.finished = True"]:
        soft("Updater.run", "statements differ from the transcribed ones")
    for rel, key in [("ascmhl/cli/ascmhl.py", "update_notice"), ("ascmhl/cli/ascmhl_debug.py", "update_notice_debug")]:
        mod = parse(repo, rel)
        cb = find_func(mod.body, "update", f"{rel}: result callback update()")
        if [ast.unparse(d) for d in cb.decorator_list] not in (["mhltool_cli.result_callback()"], ["mhldebugtool_cli.result_callback()"]):
            fail(f"{rel} result callback", "expected @<group>.result_callback()")
        sechos = [n for n in ast.walk(cb) if isinstance(n, ast.Call) and ast.unparse(n.func) == "click.secho"]
        if len(sechos) != 1 or len(sechos[0].args) != 1:
            fail(f"{rel} notice", "expected exactly one click.secho(<text>, ...)")
        a = sechos[0].args[0]
        if isinstance(a, ast.JoinedStr) and all(isinstance(v, ast.Constant) for v in a.values):
            txt = "".join(v.value for v in a.values)
        else:
            txt = const_str(a, f"{rel} notice text")
        out.text(key, txt, f"{rel}: click.secho in the result callback")
        body = stmts_of(cb)
        if len(body) != 2 or not body[0].startswith("updater.join(") or not body[1].startswith("if updater.needs_update:\n    click.secho("):
            soft(f"{rel} result callback", "statements differ from the transcribed ones")


# ---------------------------------------------------------------------------------------------------- XSD

XS = "{http://www.w3.org/2001/XMLSchema}"

EMAIL_PATTERN = r"[^@]+@[^\.]+\..+"


class Xsd:
    """translates the subset of XSD used by the two shipped schemas into the Coq `schema` value of Model/SchemaDef.v.
    QNames are resolved through the prefix declarations of the document (the shipped files use the XML Schema
    namespace as the default namespace); named simple / complex types are inlined; types of another target
    namespace are looked up in the schema documents passed as `imports` (keyed by namespace -- the same resolution
    xsd/ASCMHLDirectory__combined.xsd performs, instead of the https schemaLocation of the import element)."""

    XSNS = "http://www.w3.org/2001/XMLSchema"
    MAX_OCCURS = 64

    def __init__(self, path, item, imports=()):
        self.item = item
        self.nsmap = {}
        try:
            root = None
            for ev, x in ET.iterparse(path, events=("start", "start-ns")):
                if ev == "start-ns":
                    # the shipped files declare every prefix on the root element; a re-declaration is refused
                    if x[0] in self.nsmap and self.nsmap[x[0]] != x[1]:
                        fail(item, f"prefix {x[0]!r} is bound twice")
                    self.nsmap[x[0]] = x[1]
                elif root is None:
                    root = x
            self.root = root
        except TranslateError:
            raise
        except Exception as e:  # noqa
            fail(item, f"cannot parse {path}: {e}")
        if self.root is None or self.root.tag != XS + "schema":
            fail(item, "root element is not xs:schema")
        self.tns = self.root.attrib.get("targetNamespace", "")
        if self.root.attrib.get("elementFormDefault") != "qualified":
            fail(item, "elementFormDefault is not 'qualified' (the model gives every element the target namespace)")
        if self.root.attrib.get("attributeFormDefault", "unqualified") != "unqualified":
            fail(item, "attributeFormDefault is not 'unqualified'")
        self.ctypes, self.stypes = {}, {}
        for ct in self.root.findall(XS + "complexType"):
            self.ctypes[ct.attrib["name"]] = ct
        for st in self.root.findall(XS + "simpleType"):
            self.stypes[st.attrib["name"]] = st
        self.imports = {}
        for imp in self.root.findall(XS + "import"):
            ns = imp.attrib.get("namespace")
            hit = [x for x in imports if x.tns == ns]
            if len(hit) != 1:
                fail(item, f"import of namespace {ns!r} cannot be resolved among the shipped schemas")
            self.imports[ns] = hit[0]
        self.depth = 0

    # ---- names
    def qname(self, q):
        """-> (namespace, local)"""
        if ":" in q:
            pre, loc = q.split(":", 1)
        else:
            pre, loc = "", q
        if pre not in self.nsmap:
            fail(self.item, f"undeclared prefix in QName {q!r}")
        return self.nsmap[pre], loc

    def owner(self, ns):
        if ns == self.tns:
            return self
        if ns in self.imports:
            return self.imports[ns]
        fail(self.item, f"type of namespace {ns!r}: no such schema imported")

    def occurs(self, el):
        mn = int(el.attrib.get("minOccurs", "1"))
        mx = el.attrib.get("maxOccurs", "1")
        if mn > self.MAX_OCCURS or (mx != "unbounded" and int(mx) > self.MAX_OCCURS):
            fail(self.item, f"occurrence bound above {self.MAX_OCCURS} (bounds are unary numbers in the model)")
        if mx != "unbounded" and int(mx) < mn:
            fail(self.item, "maxOccurs < minOccurs")
        return mn, ("None" if mx == "unbounded" else f"(Some {int(mx)})")

    # ---- simple types
    BUILTIN = {"string": "SString", "dateTime": "SDateTime", "integer": "SInteger", "anyType": "SAny", "anySimpleType": "SAny"}

    def simple(self, tname):
        """QName of a simple type -> Coq `stype`"""
        ns, loc = self.qname(tname)
        if ns == self.XSNS:
            if loc in self.BUILTIN:
                return self.BUILTIN[loc]
            fail(self.item, f"built-in simple type {tname} not supported")
        o = self.owner(ns)
        if loc in o.stypes:
            return o.restriction(o.stypes[loc])
        fail(self.item, f"simple type {tname} not found")

    def is_simple(self, tname):
        ns, loc = self.qname(tname)
        if ns == self.XSNS:
            return loc != "anyType"
        return loc in self.owner(ns).stypes

    def attr(self, a):
        name = a.attrib.get("name")
        if name is None:
            fail(self.item, "attribute without name (ref) not supported")
        extra = set(a.attrib) - {"name", "use", "fixed", "type"}
        if extra:
            fail(self.item, f"attribute {name}: {sorted(extra)} not supported")
        use = a.attrib.get("use", "optional")
        if use not in ("optional", "required"):
            fail(self.item, f"attribute {name}: use={use!r} not supported")
        fixed = a.attrib.get("fixed")
        if "type" in a.attrib:
            ty = self.simple(a.attrib["type"])
        else:
            st = a.find(XS + "simpleType")
            ty = "SAny" if st is None else self.restriction(st)
        if fixed is not None:
            if ty != "SAny":
                fail(self.item, f"attribute {name}: fixed value on a typed attribute not supported")
            ty = f"(SFixed {coq_text(fixed)})"
        return f"(mkAttr {coq_text(name)} {'true' if use == 'required' else 'false'} {ty})"

    def restriction(self, st):
        r = st.find(XS + "restriction")
        if r is None or len(list(st)) != len([c for c in st if c.tag in (XS + "restriction", XS + "annotation")]):
            fail(self.item, "simpleType other than a restriction")
        bns, bloc = self.qname(r.attrib.get("base", ""))
        if (bns, bloc) != (self.XSNS, "string"):
            fail(self.item, f"restriction of {r.attrib.get('base')!r} (only string) not supported")
        enums = [e.attrib["value"] for e in r.findall(XS + "enumeration")]
        pats = [e.attrib["value"] for e in r.findall(XS + "pattern")]
        others = [c.tag for c in r if c.tag not in (XS + "enumeration", XS + "pattern", XS + "annotation")]
        if others:
            fail(self.item, f"facets {others} not supported")
        if not enums and not pats:
            return "SString"
        if enums and not pats:
            return f"(SEnum {coq_text_list(enums)})"
        if pats == [EMAIL_PATTERN] and not enums:
            return "SEmail"
        fail(self.item, f"restriction with enums={enums} patterns={pats} not supported")

    # ---- particles
    def particle(self, p):
        tag = p.tag
        mn, mx = self.occurs(p)
        if tag == XS + "element":
            name = p.attrib.get("name")
            if name is None:
                fail(self.item, "element ref not supported")
            extra = set(p.attrib) - {"name", "type", "minOccurs", "maxOccurs"}
            if extra:
                fail(self.item, f"element {name}: {sorted(extra)} not supported")
            body = f"(PElem {coq_text(name)} {self.element_type(p)})"
        elif tag in (XS + "sequence", XS + "choice"):
            kids = [self.particle(c) for c in p if c.tag in (XS + "element", XS + "sequence", XS + "choice")]
            unknown = [c.tag for c in p if c.tag not in (XS + "element", XS + "sequence", XS + "choice", XS + "annotation")]
            if unknown:
                fail(self.item, f"particles {unknown} not supported")
            body = f"({'PSeq' if tag == XS + 'sequence' else 'PChoice'} [{'; '.join(kids)}])"
        else:
            fail(self.item, f"particle {tag} not supported")
        return f"(POccurs {mn} {mx} {body})"

    def complex_type(self, ct):
        """-> Coq `etype`"""
        self.depth += 1
        if self.depth > 40:
            fail(self.item, "recursive type definitions are not supported (named types are inlined)")
        try:
            return self._complex_type(ct)
        finally:
            self.depth -= 1

    def _complex_type(self, ct):
        extra = set(ct.attrib) - {"name"}
        if extra:
            fail(self.item, f"complexType attributes {sorted(extra)} (mixed, abstract, ...) not supported")
        attrs = [self.attr(a) for a in ct.findall(XS + "attribute")]
        sc = ct.find(XS + "simpleContent")
        cc = ct.find(XS + "complexContent")
        known = {XS + "sequence", XS + "choice", XS + "attribute", XS + "annotation", XS + "simpleContent", XS + "complexContent"}
        unknown = [c.tag for c in ct if c.tag not in known]
        if unknown:
            fail(self.item, f"complexType children {unknown} not supported")
        if sc is not None:
            ext = sc.find(XS + "extension")
            if ext is None or [c.tag for c in ext if c.tag not in (XS + "attribute", XS + "annotation")]:
                fail(self.item, "simpleContent other than an extension by attributes")
            attrs += [self.attr(a) for a in ext.findall(XS + "attribute")]
            base = ext.attrib["base"]
            if self.is_simple(base):
                return f"(TSimple {self.simple(base)} [{'; '.join(attrs)}])"
            # extension of a named complex type with simple content
            ns, loc = self.qname(base)
            o = self.owner(ns)
            inner = o.ctypes.get(loc)
            if inner is None:
                fail(self.item, f"unknown base type {base}")
            return self.merge_attrs(o.complex_type(inner), attrs)
        if cc is not None:
            ext = cc.find(XS + "extension")
            if ext is None or self.qname(ext.attrib.get("base", "")) != (self.XSNS, "anyType"):
                fail(self.item, "complexContent other than extension of xs:anyType not supported")
            if [c.tag for c in ext if c.tag not in (XS + "attribute", XS + "annotation")]:
                fail(self.item, "complexContent extension with a content model not supported")
            attrs += [self.attr(a) for a in ext.findall(XS + "attribute")]
            return f"(TAny [{'; '.join(attrs)}])"
        groups = [c for c in ct if c.tag in (XS + "sequence", XS + "choice")]
        if len(groups) > 1:
            fail(self.item, "more than one model group")
        body = self.particle(groups[0]) if groups else "(POccurs 1 (Some 1) (PSeq []))"
        return f"(TComplex {body} [{'; '.join(attrs)}])"

    def merge_attrs(self, ety, attrs):
        if not attrs:
            return ety
        # ety is "(TSimple S [a; b])": append
        if not ety.startswith("(TSimple "):
            fail(self.item, "attribute extension of a non-simple type not supported")
        head, tail = ety[:-2], ety[-2:]
        inside_empty = head.endswith("[")
        return head + ("" if inside_empty else "; ") + "; ".join(attrs) + tail

    def element_type(self, el):
        if "type" in el.attrib:
            t = el.attrib["type"]
            ns, loc = self.qname(t)
            if (ns, loc) == (self.XSNS, "anyType"):
                return "(TAny [])"
            if self.is_simple(t):
                return f"(TSimple {self.simple(t)} [])"
            o = self.owner(ns)
            ct = o.ctypes.get(loc)
            if ct is None:
                fail(self.item, f"unknown type {t}")
            return o.complex_type(ct)
        ct = el.find(XS + "complexType")
        if ct is not None:
            return self.complex_type(ct)
        st = el.find(XS + "simpleType")
        if st is not None:
            return f"(TSimple {self.restriction(st)} [])"
        return "(TAny [])"

    def top(self):
        els = self.root.findall(XS + "element")
        if len(els) != 1:
            fail(self.item, f"exactly one global element expected, found {len(els)}")
        known = {XS + "element", XS + "complexType", XS + "simpleType", XS + "annotation", XS + "import"}
        unknown = [c.tag for c in self.root if c.tag not in known]
        if unknown:
            fail(self.item, f"top-level components {unknown} not supported")
        el = els[0]
        return el.attrib["name"], self.element_type(el)


def gen_xsd(repo, out):
    man = Xsd(os.path.join(repo, "xsd/ASCMHL.xsd"), "xsd/ASCMHL.xsd")
    name, ety = man.top()
    out.text("schema_manifest_ns", man.tns, "xsd/ASCMHL.xsd targetNamespace")
    out.raw(f"Definition schema_manifest : schema := mkSchema {coq_text(name)} {ety}.")
    out.summary["schema_manifest"] = name
    # the combined schema is what a validator is given for chain files: it must import exactly the two documents
    try:
        comb = ET.parse(os.path.join(repo, "xsd/ASCMHLDirectory__combined.xsd")).getroot()
    except Exception as e:  # noqa
        fail("xsd/ASCMHLDirectory__combined.xsd", f"cannot parse: {e}")
    got = sorted((c.tag, c.attrib.get("namespace"), c.attrib.get("schemaLocation")) for c in comb)
    want = sorted([(XS + "import", "urn:ASC:MHL:v2.0", "ASCMHL.xsd"), (XS + "import", "urn:ASC:MHL:DIRECTORY:v2.0", "ASCMHLDirectory.xsd")])
    if comb.tag != XS + "schema" or got != want:
        fail("xsd/ASCMHLDirectory__combined.xsd", f"expected exactly the two imports, found {got}")
    x = Xsd(os.path.join(repo, "xsd/ASCMHLDirectory.xsd"), "xsd/ASCMHLDirectory.xsd", imports=(man,))
    name, ety = x.top()
    out.text("schema_directory_ns", x.tns, "xsd/ASCMHLDirectory.xsd targetNamespace")
    out.raw(f"Definition schema_directory : schema := mkSchema {coq_text(name)} {ety}.")
    out.summary["schema_directory"] = name


# ------------------------------------------------------------------------------------- translated functions

FNS_HEADER = """(* GENERATED by translator/gen.py from the current /repo working tree -- do not edit, never committed.
   Functions of ascmhl/history.py translated statement by statement (a fixed loop shape, the conditions translated
   as expressions); Props/C04.v proves that they are the lookups of Model/History.v. *)
From Coq Require Import List NArith ZArith Bool.
Import ListNotations.
From MHL Require Import Gen.Generated Model.Base Model.Ignore Model.History Model.Tree Model.Emit.
Definition is_none {A} (o : option A) : bool := match o with None => true | Some _ => false end.
Definition opt_action_eqb (a b : option action) : bool :=
  match a, b with Some x, Some y => action_eqb x y | None, None => true | _, _ => false end.
Definition opt_fmt_eqb (a b : option fmt) : bool :=
  match a, b with Some x, Some y => fmt_eqb x y | None, None => true | _, _ => false end.
Definition is_nil {A} (l : list A) : bool := match l with [] => true | _ => false end.
"""


def tx_cond(e, item, opt_params):
    """a Python condition over `hash_entry` and the optional parameters -> Gallina bool expression"""
    if isinstance(e, ast.BoolOp):
        op = " && " if isinstance(e.op, ast.And) else " || "
        return "(" + op.join(tx_cond(v, item, opt_params) for v in e.values) + ")"
    if isinstance(e, ast.UnaryOp) and isinstance(e.op, ast.Not):
        return "(negb " + tx_cond(e.operand, item, opt_params) + ")"
    if isinstance(e, ast.Compare) and len(e.ops) == 1 and len(e.comparators) == 1:
        l, op, r = e.left, e.ops[0], e.comparators[0]
        if isinstance(op, (ast.Is, ast.IsNot)) and isinstance(r, ast.Constant) and r.value is None and isinstance(l, ast.Name) and l.id in opt_params:
            return f"(is_none {l.id})" if isinstance(op, ast.Is) else f"(negb (is_none {l.id}))"
        if isinstance(op, ast.Eq) and ast.unparse(l) == "hash_entry.action" and isinstance(r, ast.Constant) and isinstance(r.value, str):
            return f"(opt_action_eqb (e_action hash_entry) (action_of_text (Some {coq_text(r.value)})))"
        if isinstance(op, ast.Eq) and ast.unparse(l) == "hash_entry.hash_format" and isinstance(r, ast.Name) and r.id in opt_params:
            return f"(opt_fmt_eqb (Some (e_fmt hash_entry)) {r.id})"
        if isinstance(op, (ast.In, ast.NotIn)) and ast.unparse(l) == "hash_entry.hash_format" and isinstance(r, ast.Name) and r.id == "hash_formats":
            return "(memf (e_fmt hash_entry) hash_formats)" if isinstance(op, ast.In) else "(negb (memf (e_fmt hash_entry) hash_formats))"
    fail(item, f"condition outside the translated fragment: {ast.unparse(e)}")


def tx_lookup(fn, coq_name, item, opt_params):
    """for hash_list in self.hash_lists: media_hash = hash_list.find_media_hash_for_path(relative_path);
       if media_hash is None: continue; for hash_entry in media_hash.hash_entries: if C1: return hash_entry [elif C2: return hash_entry ...]
       return None"""
    body = [st for st in fn.body if not (isinstance(st, ast.Expr) and isinstance(st.value, ast.Constant))]
    want_args = ["self", "relative_path"] + list(opt_params)
    if [a.arg for a in fn.args.args] != want_args:
        fail(item, f"parameters {[a.arg for a in fn.args.args]} (expected {want_args})")
    ok = (len(body) == 2 and isinstance(body[0], ast.For) and ast.unparse(body[0].target) == "hash_list" and ast.unparse(body[0].iter) == "self.hash_lists"
          and not body[0].orelse and isinstance(body[1], ast.Return) and ast.unparse(body[1]) == "return None")
    if not ok:
        fail(item, "outer shape: `for hash_list in self.hash_lists: ...` then `return None` expected")
    inner = body[0].body
    ok = (len(inner) == 3 and ast.unparse(inner[0]) == "media_hash = hash_list.find_media_hash_for_path(relative_path)"
          and ast.unparse(inner[1]) == "if media_hash is None:\n    continue"
          and isinstance(inner[2], ast.For) and ast.unparse(inner[2].target) == "hash_entry" and ast.unparse(inner[2].iter) == "media_hash.hash_entries"
          and not inner[2].orelse and len(inner[2].body) == 1 and isinstance(inner[2].body[0], ast.If))
    if not ok:
        fail(item, f"loop body outside the translated fragment: {[ast.unparse(x) for x in inner]}")
    conds, node = [], inner[2].body[0]
    while True:
        if [ast.unparse(x) for x in node.body] != ["return hash_entry"]:
            fail(item, f"branch body {[ast.unparse(x) for x in node.body]} (expected `return hash_entry`)")
        conds.append(tx_cond(node.test, item, opt_params))
        if not node.orelse:
            break
        if len(node.orelse) != 1 or not isinstance(node.orelse[0], ast.If):
            fail(item, "else branch outside the translated fragment")
        node = node.orelse[0]
    cond = " || ".join(conds)
    params = "".join(f" ({p} : option fmt)" for p in opt_params)
    args = "".join(f" {p}" for p in opt_params)
    return (f"(* history.py:{fn.name} *)\n"
            f"Fixpoint {coq_name} (hash_lists : list gen) (relative_path : path){params} : option entry :=\n"
            f"  match hash_lists with\n  | [] => None\n  | hash_list :: rest =>\n"
            f"      match find_media_hash hash_list relative_path with\n"
            f"      | None => {coq_name} rest relative_path{args}\n"
            f"      | Some media_hash =>\n"
            f"          match find (fun hash_entry => {cond}) (r_entries media_hash) with\n"
            f"          | Some hash_entry => Some hash_entry\n"
            f"          | None => {coq_name} rest relative_path{args}\n          end\n      end\n  end.\n")


def tx_collect(fn, coq_name, item):
    """hash_formats = []; for hash_list in self.hash_lists: media_hash = ...; if media_hash is None: continue;
       for hash_entry in media_hash.hash_entries: if C: hash_formats.append(hash_entry.hash_format)
       return hash_formats"""
    body = [st for st in fn.body if not (isinstance(st, ast.Expr) and isinstance(st.value, ast.Constant))]
    if [a.arg for a in fn.args.args] != ["self", "relative_path"]:
        fail(item, f"parameters {[a.arg for a in fn.args.args]}")
    ok = (len(body) == 3 and ast.unparse(body[0]) == "hash_formats = []" and isinstance(body[1], ast.For) and ast.unparse(body[1].target) == "hash_list"
          and ast.unparse(body[1].iter) == "self.hash_lists" and not body[1].orelse and ast.unparse(body[2]) == "return hash_formats")
    if not ok:
        fail(item, "outer shape: `hash_formats = []`, `for hash_list in self.hash_lists: ...`, `return hash_formats` expected")
    inner = body[1].body
    ok = (len(inner) == 3 and ast.unparse(inner[0]) == "media_hash = hash_list.find_media_hash_for_path(relative_path)"
          and ast.unparse(inner[1]) == "if media_hash is None:\n    continue"
          and isinstance(inner[2], ast.For) and ast.unparse(inner[2].target) == "hash_entry" and ast.unparse(inner[2].iter) == "media_hash.hash_entries"
          and not inner[2].orelse and len(inner[2].body) == 1 and isinstance(inner[2].body[0], ast.If) and not inner[2].body[0].orelse)
    if not ok:
        fail(item, f"loop body outside the translated fragment: {[ast.unparse(x) for x in inner]}")
    node = inner[2].body[0]
    if [ast.unparse(x) for x in node.body] != ["hash_formats.append(hash_entry.hash_format)"]:
        fail(item, f"branch body {[ast.unparse(x) for x in node.body]} (expected `hash_formats.append(hash_entry.hash_format)`)")
    cond = tx_cond(node.test, item, [])
    return (f"(* history.py:{fn.name} *)\n"
            f"Definition {coq_name} (hash_lists : list gen) (relative_path : path) : list fmt :=\n"
            f"  fold_left (fun hash_formats hash_list =>\n"
            f"    match find_media_hash hash_list relative_path with\n"
            f"    | None => hash_formats\n"
            f"    | Some media_hash =>\n"
            f"        fold_left (fun hash_formats hash_entry =>\n"
            f"          if {cond} then hash_formats ++ [e_fmt hash_entry] else hash_formats)\n"
            f"          (r_entries media_hash) hash_formats\n"
            f"    end) hash_lists [].\n")


LIST_NAMES = ("existing_hash_formats", "hash_formats", "hash_formats_to_generate")


def tx_list_cond(e, item):
    """conditions of the list-building fragment: truthiness of a list, len(L) > 0 / == 0, membership, and / or / not"""
    if isinstance(e, ast.BoolOp):
        op = " && " if isinstance(e.op, ast.And) else " || "
        return "(" + op.join(tx_list_cond(v, item) for v in e.values) + ")"
    if isinstance(e, ast.UnaryOp) and isinstance(e.op, ast.Not):
        return "(negb " + tx_list_cond(e.operand, item) + ")"
    if isinstance(e, ast.Name) and e.id in LIST_NAMES:
        return f"(negb (is_nil {e.id}))"
    if isinstance(e, ast.Compare) and len(e.ops) == 1 and len(e.comparators) == 1:
        l, op, r = e.left, e.ops[0], e.comparators[0]
        if (isinstance(l, ast.Call) and ast.unparse(l.func) == "len" and len(l.args) == 1 and isinstance(l.args[0], ast.Name) and l.args[0].id in LIST_NAMES
                and isinstance(r, ast.Constant) and r.value == 0):
            if isinstance(op, ast.Gt):
                return f"(Nat.ltb 0 (length {l.args[0].id}))"
            if isinstance(op, ast.Eq):
                return f"(Nat.eqb (length {l.args[0].id}) 0)"
        if isinstance(op, (ast.In, ast.NotIn)) and isinstance(l, ast.Name) and l.id == "hash_format" and isinstance(r, ast.Name) and r.id in LIST_NAMES:
            return f"(memf hash_format {r.id})" if isinstance(op, ast.In) else f"(negb (memf hash_format {r.id}))"
    fail(item, f"condition outside the translated fragment: {ast.unparse(e)}")


def tx_list_stmts(stmts, var, item):
    """statements that build the list `var` -> Gallina expression for its value afterwards (free variable `var`: the value before)"""
    e = var
    for st in stmts:
        e = f"(let {var} := {e} in {tx_list_stmt(st, var, item)})"
    return e


def tx_list_stmt(st, var, item):
    if isinstance(st, ast.Assign) and len(st.targets) == 1 and ast.unparse(st.targets[0]) == var and ast.unparse(st.value) == "[]":
        return "(@nil fmt)"
    if isinstance(st, ast.Expr) and isinstance(st.value, ast.Call) and ast.unparse(st.value.func) == var + ".append" and len(st.value.args) == 1:
        a = st.value.args[0]
        if isinstance(a, ast.Name) and a.id == "hash_format":
            return f"({var} ++ [hash_format])"
        if isinstance(a, ast.Subscript) and isinstance(a.value, ast.Name) and a.value.id in LIST_NAMES and ast.unparse(a.slice) == "0":
            # L[0]: raises IndexError on an empty list; no value is appended then (the equality below holds for all inputs either way)
            return f"(match {a.value.id} with first :: _ => {var} ++ [first] | [] => {var} end)"
    if isinstance(st, ast.If) and not st.orelse:
        return f"(if {tx_list_cond(st.test, item)} then {tx_list_stmts(st.body, var, item)} else {var})"
    if isinstance(st, ast.For) and not st.orelse and ast.unparse(st.target) == "hash_format" and isinstance(st.iter, ast.Name) and st.iter.id in LIST_NAMES and st.iter.id != var:
        return f"(fold_left (fun {var} hash_format => {tx_list_stmts(st.body, var, item)}) {st.iter.id} {var})"
    fail(item, f"statement outside the translated fragment: {ast.unparse(st)}")


def tx_to_generate(repo):
    """commands.seal_file_path: the statements that build hash_formats_to_generate"""
    item = "seal_file_path: hash_formats_to_generate"
    mod = parse(repo, "ascmhl/commands.py")
    fn = find_func(mod.body, "seal_file_path", item)
    names = [ast.unparse(st.targets[0]) if isinstance(st, ast.Assign) and len(st.targets) == 1 else None for st in fn.body]
    if names.count("hash_formats_to_generate") != 1 or names.count("current_hash_lookup") != 1:
        fail(item, "expected one `hash_formats_to_generate = ...` and one `current_hash_lookup = ...` at the top level of seal_file_path")
    i, j = names.index("hash_formats_to_generate"), names.index("current_hash_lookup")
    if not i < j:
        fail(item, "hash_formats_to_generate is built after it is used")
    if ast.unparse(fn.body[j].value) != "multiple_format_hash_file(file_path, hash_formats_to_generate)":
        fail(item, f"the list is not what is hashed: {ast.unparse(fn.body[j])}")
    # nothing else may touch the list afterwards
    for st in fn.body[j + 1:]:
        for n in ast.walk(st):
            if isinstance(n, ast.Call) and ast.unparse(n.func).startswith("hash_formats_to_generate."):
                fail(item, f"the list is modified after hashing: {ast.unparse(n)}")
            if isinstance(n, (ast.Assign, ast.AugAssign)) and "hash_formats_to_generate" in [ast.unparse(t) for t in (n.targets if isinstance(n, ast.Assign) else [n.target])]:
                fail(item, "the list is re-assigned after hashing")
    body = tx_list_stmts(fn.body[i:j], "hash_formats_to_generate", item)
    return ("(* commands.py:seal_file_path -- the statements that build hash_formats_to_generate *)\n"
            "Definition src_to_generate (existing_hash_formats hash_formats : list fmt) : list fmt :=\n"
            f"  let hash_formats_to_generate := @nil fmt in\n  {body}.\n")


def tx_latest_number(fn, item):
    """latest_number = 0; for hash_list in self.hash_lists: if hash_list.generation_number: latest_number = hash_list.generation_number;
       return latest_number   (truthiness of a number: it is not zero)"""
    body = stmts_of(fn)
    expect = ["latest_number = 0",
              "for hash_list in self.hash_lists:\n    if hash_list.generation_number:\n        latest_number = hash_list.generation_number",
              "return latest_number"]
    if body != expect or [a.arg for a in fn.args.args] != ["self"]:
        fail(item, f"body outside the translated fragment: {body}")
    return ("(* history.py:latest_generation_number *)\n"
            "Definition src_latest_generation_number (hash_lists : list gen) : N :=\n"
            "  fold_left (fun latest_number hash_list =>\n"
            "    if negb (N.eqb (g_no hash_list) 0) then g_no hash_list else latest_number) hash_lists 0%N.\n")


def tx_exit_cond(e, item):
    if isinstance(e, ast.BoolOp):
        op = " && " if isinstance(e.op, ast.And) else " || "
        return "(" + op.join(tx_exit_cond(v, item) for v in e.values) + ")"
    if isinstance(e, ast.UnaryOp) and isinstance(e.op, ast.Not):
        if ast.unparse(e.operand) == "exception":
            return "(is_none exception)"
        return "(negb " + tx_exit_cond(e.operand, item) + ")"
    if isinstance(e, ast.Name) and e.id == "found_single_file":
        return "found_single_file"
    if isinstance(e, ast.Compare) and len(e.ops) == 1 and len(e.comparators) == 1:
        l, op, r = e.left, e.ops[0], e.comparators[0]
        if isinstance(l, ast.Name) and l.id in ("num_new_files", "num_failed_verifications") and isinstance(op, ast.Gt) and isinstance(r, ast.Constant) and r.value == 0:
            return f"(Nat.ltb 0 {l.id})"
        if ast.unparse(l) == "single_file" and isinstance(op, ast.IsNot) and isinstance(r, ast.Constant) and r.value is None:
            return "single_file_given"
    fail(item, f"condition outside the translated fragment: {ast.unparse(e)}")


def tx_exit_decision(repo, fn_name, coq_name, with_folders=False):
    """the tail of a verifying command: exception = test_for_missing_files(...); if C: exception = errors.X() ...; if exception: raise exception"""
    item = fn_name + ": exit decision"
    mod = parse(repo, "ascmhl/commands.py")
    fn = find_func(mod.body, fn_name, item)
    tm = find_func(mod.body, "test_for_missing_files", "test_for_missing_files")
    rets = [ast.unparse(r) for r in ast.walk(tm) if isinstance(r, ast.Return)]
    if sorted(rets) != ["return None", "return errors.CompletenessCheckFailedException()"]:
        fail("test_for_missing_files", f"returns {rets}")
    body = fn.body
    starts = [k for k, st in enumerate(body) if isinstance(st, ast.Assign) and ast.unparse(st.targets[0]) == "exception"]
    if len(starts) != 1 or ast.unparse(body[starts[0]].value) != "test_for_missing_files(not_found_paths, root_path, ignore_spec)":
        fail(item, "expected one top-level `exception = test_for_missing_files(not_found_paths, root_path, ignore_spec)`")
    tail = body[starts[0] + 1:]
    ends = [k for k, st in enumerate(tail) if ast.unparse(st) == "if exception:\n    raise exception"]
    if len(ends) != 1:
        fail(item, "expected one `if exception: raise exception` after the decision")
    # what may follow it: `if len(missing_asc_mhl_folder) > 0: raise errors.X(...)` (create: a nested history folder is gone)
    after, tail = tail[ends[0] + 1:], tail[:ends[0] + 1]
    codes = dict(EXC_CLASSES)
    final = "0%Z"
    for st in reversed(after):
        ok = (isinstance(st, ast.If) and not st.orelse and ast.unparse(st.test) == "len(missing_asc_mhl_folder) > 0" and len(st.body) == 1
              and isinstance(st.body[0], ast.Raise) and isinstance(st.body[0].exc, ast.Call) and ast.unparse(st.body[0].exc.func).startswith("errors.")
              and ast.unparse(st.body[0].exc.func)[7:] in codes)
        if not ok or not with_folders:
            fail(item, f"statement after the decision outside the translated fragment: {ast.unparse(st)}")
        final = f"(if missing_asc_mhl_folder then {codes[ast.unparse(st.body[0].exc.func)[7:]]} else {final})"
    lets = ["let exception := if missing then Some exit_completeness else None in"]
    for st in tail[:-1]:
        ok = isinstance(st, ast.If) and not st.orelse and len(st.body) == 1 and isinstance(st.body[0], ast.Assign) and ast.unparse(st.body[0].targets[0]) == "exception"
        if ok:
            v = st.body[0].value
            ok = isinstance(v, ast.Call) and not v.args and not v.keywords and ast.unparse(v.func).startswith("errors.") and ast.unparse(v.func)[7:] in codes
        if not ok:
            fail(item, f"statement outside the translated fragment: {ast.unparse(st)}")
        lets.append(f"let exception := if {tx_exit_cond(st.test, item)} then Some {codes[ast.unparse(v.func)[7:]]} else exception in")
    return (f"(* commands.py:{fn_name} -- the exit decision (missing: test_for_missing_files returned an exception) *)\n"
            f"Definition {coq_name} (missing single_file_given found_single_file : bool) (num_new_files num_failed_verifications : nat)"
            + (" (missing_asc_mhl_folder : bool)" if with_folders else "") + " : Z :=\n  "
            + "\n  ".join(lets) + f"\n  match exception with Some code => code | None => {final} end.\n")


def tx_chain_check(repo):
    """history.MHLHistory.load_from_path: the loop over the chain's generations.  The file-system and hashing primitives are
    mapped to the model's: os.path.exists(expected_file) / the file itself -> the manifest with the entry's file number among
    the folder's manifests; hasher.hash_file(expected_file, generation.hash_format) -> cdig of its content."""
    item = "load_from_path: chain check"
    mod = parse(repo, "ascmhl/history.py")
    fn = find_func(find_class(mod, "MHLHistory", "MHLHistory").body, "load_from_path", item)
    guards = [st for st in fn.body if isinstance(st, ast.If) and ast.unparse(st.test) == "history.chain.generations"]
    if len(guards) != 1 or guards[0].orelse or len(guards[0].body) != 1 or not isinstance(guards[0].body[0], ast.For):
        fail(item, "expected one `if history.chain.generations:` holding one for loop")
    loop = guards[0].body[0]
    if ast.unparse(loop.target) != "generation" or ast.unparse(loop.iter) != "history.chain.generations" or loop.orelse or len(loop.body) != 2:
        fail(item, f"loop head / body outside the translated fragment: {ast.unparse(loop)[:200]}")
    if ast.unparse(loop.body[0]) != "expected_file = os.path.join(asc_mhl_folder_path, generation.ascmhl_filename)":
        fail(item, f"unexpected statement {ast.unparse(loop.body[0])}")
    br = loop.body[1]
    if not isinstance(br, ast.If) or ast.unparse(br.test) != "os.path.exists(expected_file)" or len(br.body) != 2 or len(br.orelse) != 1:
        fail(item, f"unexpected branch {ast.unparse(br)[:200]}")
    if ast.unparse(br.body[0]) != "hash = hasher.hash_file(expected_file, generation.hash_format)":
        fail(item, f"unexpected statement {ast.unparse(br.body[0])}")
    cmp_ = br.body[1]
    codes = dict(EXC_CLASSES)

    def raised(st):
        if isinstance(st, ast.Raise) and isinstance(st.exc, ast.Call) and ast.unparse(st.exc.func).startswith("errors.") and ast.unparse(st.exc.func)[7:] in codes \
                and [ast.unparse(a) for a in st.exc.args] == ["expected_file"]:
            return codes[ast.unparse(st.exc.func)[7:]]
        fail(item, f"expected `raise errors.X(expected_file)`, found {ast.unparse(st)}")

    if not isinstance(cmp_, ast.If) or cmp_.orelse or len(cmp_.body) != 1:
        fail(item, f"unexpected comparison statement {ast.unparse(cmp_)[:200]}")
    t = ast.unparse(cmp_.test)
    if t == "hash != generation.hash_string":
        cond = "negb (text_eqb (cdig (mf_content file)) (Tree.ce_digest generation))"
    elif t == "hash == generation.hash_string":
        cond = "text_eqb (cdig (mf_content file)) (Tree.ce_digest generation)"
    else:
        fail(item, f"comparison outside the translated fragment: {t}")
    on_diff, on_missing = raised(cmp_.body[0]), raised(br.orelse[0])
    # the chain file itself
    pre = [ast.unparse(st) for st in fn.body]
    want = "if os.path.exists(asc_mhl_folder_path) and (not os.path.exists(file_path)):\n    raise errors.NoMHLChainException(file_path)"
    if want not in pre or pre.index(want) > fn.body.index(guards[0]):
        fail(item, "expected the missing-chain check before the loop")
    return ("(* history.py:MHLHistory.load_from_path -- the check of the chain file and of every manifest it lists *)\n"
            "Fixpoint src_check_generations (C : Type) (cdig : C -> text) (files : list (mfile C)) (generations : list centry) : option Z :=\n"
            "  match generations with\n  | [] => None\n  | generation :: rest =>\n"
            "      match find (fun m => N.eqb (mf_no C m) (Tree.ce_file generation)) files with\n"
            f"      | Some file => if {cond.replace('mf_content file', 'mf_content C file')} then Some {on_diff} else src_check_generations C cdig files rest\n"
            f"      | None => Some {on_missing}\n      end\n  end.\n"
            "Definition src_check_chain (C : Type) (cdig : C -> text) (h : hist C) : option Z :=\n"
            "  match h_chain C h with\n  | None => Some exit_no_chain\n  | Some generations => src_check_generations C cdig (h_files C h) generations\n  end.\n")


def tx_directory_entries(fn, item):
    """history.find_directory_hash_entries_for_path.  SHAPE-LOCKED rather than translated: the method tags the entries it
    returns by assigning attributes to them (temp_generation_number, temp_is_root_folder), which has no statement-level
    counterpart in the model (a pair (generation number, entry) stands for a tagged entry, and the root-folder tag is the
    position in the second part of the list); the body must be exactly the text below, and the Gallina text emitted for
    it is fixed."""
    expect = [
        "directory_hash_entries = []",
        "for hash_list in self.hash_lists:\n    media_hash = hash_list.find_media_hash_for_path(relative_path)\n    if media_hash is None:\n        continue\n"
        "    if media_hash.is_directory:\n        for hash_entry in media_hash.hash_entries:\n            hash_entry.temp_generation_number = hash_list.generation_number\n"
        "        directory_hash_entries = directory_hash_entries + media_hash.hash_entries",
        "if relative_path == '.':\n    for hash_list in self.hash_lists:\n        if hash_list.process_info.root_media_hash is None:\n            continue\n"
        "        for hash_entry in hash_list.process_info.root_media_hash.hash_entries:\n            hash_entry.temp_generation_number = hash_list.generation_number\n"
        "            hash_entry.temp_is_root_folder = True\n"
        "        directory_hash_entries = directory_hash_entries + hash_list.process_info.root_media_hash.hash_entries",
        "return directory_hash_entries",
    ]
    if stmts_of(fn) != expect or [a.arg for a in fn.args.args] != ["self", "relative_path"]:
        fail(item, f"body differs from the recorded one: {stmts_of(fn)}")
    return ("(* history.py:find_directory_hash_entries_for_path (shape-locked; a pair stands for an entry tagged with its generation number) *)\n"
            "Definition src_find_directory_entries (hash_lists : list gen) (relative_path : path) : list (N * entry) :=\n"
            "  let directory_hash_entries := @nil (N * entry) in\n"
            "  let directory_hash_entries :=\n"
            "    fold_left (fun directory_hash_entries hash_list =>\n"
            "      match find_media_hash hash_list relative_path with\n"
            "      | None => directory_hash_entries\n"
            "      | Some media_hash =>\n"
            "          if r_dir media_hash\n"
            "          then directory_hash_entries ++ map (fun hash_entry => (g_no hash_list, hash_entry)) (r_entries media_hash)\n"
            "          else directory_hash_entries\n"
            "      end) hash_lists directory_hash_entries in\n"
            "  let directory_hash_entries :=\n"
            "    if is_nil relative_path (* relative_path == '.' *)\n"
            "    then fold_left (fun directory_hash_entries hash_list =>\n"
            "           match g_root hash_list with\n"
            "           | None => directory_hash_entries\n"
            "           | Some root_entries => directory_hash_entries ++ map (fun hash_entry => (g_no hash_list, hash_entry)) root_entries\n"
            "           end) hash_lists directory_hash_entries\n"
            "    else directory_hash_entries in\n"
            "  directory_hash_entries.\n")


def tx_ignore_spec(repo):
    """ignore.MHLIgnoreSpec: __init__, set_patterns, _append_patterns_list, _append_patterns_from_file, get_pattern_list.
    SHAPE-LOCKED: the bodies must be exactly the recorded texts; the emitted Gallina follows them statement by statement
    (list.extend over a generator expression consumes it lazily: each line is tested against the list as grown so far;
    the file is given as its lines without terminator, [] being the line that is only a line feed)."""
    item = "MHLIgnoreSpec"
    mod = parse(repo, "ascmhl/ignore.py")
    cls = find_class(mod, "MHLIgnoreSpec", item)
    want = {
        "__init__": (["self", "existing_pattern_list", "new_pattern_list", "new_pattern_file"],
                     ["self._ignore_list = []", "self.set_patterns(existing_pattern_list, new_pattern_list, new_pattern_file)"]),
        "set_patterns": (["self", "existing_pattern_list", "new_pattern_list", "new_pattern_file"],
                         ["self._ignore_list = []",
                          "if existing_pattern_list:\n    self._append_patterns_list(existing_pattern_list)\nelse:\n    self._append_patterns_list(default_ignore_list())",
                          "if new_pattern_list:\n    self._append_patterns_list(new_pattern_list)",
                          "if new_pattern_file:\n    self._append_patterns_from_file(new_pattern_file)"]),
        "_append_patterns_list": (["self", "patterns_to_append"],
                                  ["if patterns_to_append:\n    self._ignore_list.extend((line for line in patterns_to_append if line not in self._ignore_list))"]),
        "_append_patterns_from_file": (["self", "filepath"],
                                       ["patters_from_file = []",
                                        "if filepath:\n    with open(filepath, 'r') as fh:\n        patters_from_file.extend((line.rstrip('\\n') for line in fh if line != '\\n'))\n"
                                        "        self._append_patterns_list(patters_from_file)"]),
        "get_pattern_list": (["self"], ["return self._ignore_list.copy()"]),
        "get_path_spec": (["self"], ["return pathspec.PathSpec.from_lines('gitwildmatch', iter(self._ignore_list))"]),
    }
    for name, (args, body) in want.items():
        fn = find_func(cls.body, name, item + "." + name)
        if [a.arg for a in fn.args.args] != args or stmts_of(fn) != body:
            fail(item + "." + name, f"body differs from the recorded one: {stmts_of(fn)}")
    return ("(* ignore.py:MHLIgnoreSpec (shape-locked) *)\n"
            "Definition src_append_patterns_list (ignore_list patterns_to_append : list text) : list text :=\n"
            "  if negb (is_nil patterns_to_append)\n"
            "  then fold_left (fun ignore_list line => if negb (mem_text line ignore_list) then ignore_list ++ [line] else ignore_list)\n"
            "                 patterns_to_append ignore_list\n"
            "  else ignore_list.\n"
            "Definition src_append_patterns_from_file (ignore_list : list text) (filepath : option (list text)) : list text :=\n"
            "  match filepath with\n"
            "  | Some fh => src_append_patterns_list ignore_list (filter (fun line => negb (text_eqb line [])) fh)\n"
            "  | None => ignore_list\n"
            "  end.\n"
            "Definition src_set_patterns (existing_pattern_list new_pattern_list : list text) (new_pattern_file : option (list text)) : list text :=\n"
            "  let ignore_list := @nil text in\n"
            "  let ignore_list := if negb (is_nil existing_pattern_list) then src_append_patterns_list ignore_list existing_pattern_list\n"
            "                     else src_append_patterns_list ignore_list default_ignore in\n"
            "  let ignore_list := if negb (is_nil new_pattern_list) then src_append_patterns_list ignore_list new_pattern_list else ignore_list in\n"
            "  let ignore_list := match new_pattern_file with Some _ => src_append_patterns_from_file ignore_list new_pattern_file | None => ignore_list end in\n"
            "  ignore_list.\n")


def generate_fns(repo):
    """-> (text of GeneratedFns.v, [error strings]); a function whose source is outside the translated fragment is left out
    (its obligations then do not build -- only the property file that names it is affected), the others are still emitted"""
    parts, errors = [FNS_HEADER], []

    def add(make):
        try:
            parts.append(make())
        except TranslateError as e:
            errors.append(str(e))
            parts.append(comment("TRANSLATION FAILED: " + str(e)) + "\n")

    def hist_fn(name):
        mod = parse(repo, "ascmhl/history.py")
        return find_func(find_class(mod, "MHLHistory", "MHLHistory").body, name, name)

    add(lambda: tx_lookup(hist_fn("find_original_hash_entry_for_path"), "src_find_original", "find_original_hash_entry_for_path", []))
    add(lambda: tx_lookup(hist_fn("find_first_hash_entry_for_path"), "src_find_first", "find_first_hash_entry_for_path", ["hash_format"]))
    add(lambda: tx_collect(hist_fn("find_existing_hash_formats_for_path"), "src_existing_formats", "find_existing_hash_formats_for_path"))
    add(lambda: tx_to_generate(repo))
    add(lambda: tx_latest_number(hist_fn("latest_generation_number"), "latest_generation_number"))
    add(lambda: tx_exit_decision(repo, "verify_entire_folder", "src_verify_exit"))
    add(lambda: tx_exit_decision(repo, "diff_entire_folder_against_full_history_subcommand", "src_diff_exit"))
    add(lambda: tx_exit_decision(repo, "create_for_folder_subcommand", "src_create_exit", with_folders=True))
    add(lambda: tx_chain_check(repo))
    add(lambda: tx_directory_entries(hist_fn("find_directory_hash_entries_for_path"), "find_directory_hash_entries_for_path"))
    add(lambda: tx_ignore_spec(repo))
    return "\n".join(parts), errors


# --------------------------------------------------------------------------------------------------- main

HEADER = """(* GENERATED by translator/gen.py from the current /repo working tree -- do not edit, never committed.
   Values only (constants, tables, schemas); every theorem that names one of them is re-checked against
   this text on every run. *)
From Coq Require Import List NArith ZArith.
Import ListNotations.
"""


def generate(repo):
    out = Out()
    gen_version(repo, out)
    gen_errors(repo, out)
    gen_hasher(repo, out)
    gen_ignore(repo, out)
    gen_history(repo, out)
    gen_time(repo, out)
    gen_commands(repo, out)
    gen_cli(repo, out)
    header = HEADER
    if os.environ.get("VERIF_GEN_XSD", "0") == "1":
        gen_xsd(repo, out)
        header += "From MHL Require Import Model.SchemaDef.\n"
    warn = "".join(comment("SHAPE-WARNING " + w) + "\n" for w in WARNINGS)
    return header + "\n".join(out.lines) + "\n" + warn, out.summary


def main(argv):
    if len(argv) != 3:
        print(__doc__)
        return 2
    repo, dst = argv[1], argv[2]
    try:
        text, summary = generate(repo)
    except TranslateError as e:
        print(json.dumps({"ok": False, "error": str(e)}))
        return 1
    fns, fn_errors = generate_fns(repo)
    changed = False
    # the translated functions go to GeneratedFns.v beside the constants (they import the model, the constants are imported by it)
    for path, content in ((dst, text), (os.path.join(os.path.dirname(dst), "GeneratedFns.v"), fns)):
        old = None
        if os.path.exists(path):
            with open(path, "r", encoding="utf-8") as fh:
                old = fh.read()
        if old != content:
            changed = True
            os.makedirs(os.path.dirname(path), exist_ok=True)
            with open(path + ".tmp", "w", encoding="utf-8") as fh:
                fh.write(content)
            os.replace(path + ".tmp", path)
    print(json.dumps({"ok": True, "changed": changed, "items": len(summary) + 11 - len(fn_errors), "shape_warnings": WARNINGS,
                      **({"function_translation_failed": fn_errors} if fn_errors else {})}))
    return 0


if __name__ == "__main__":
    sys.exit(main(sys.argv))
