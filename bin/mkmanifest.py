#!/usr/bin/env python3
"""writes MANIFEST.json from the table below (one entry per claimed property); properties without an entry are
listed under not_applicable with the reason given in PENDING"""
import json
import os
import sys

HERE = os.path.dirname(os.path.dirname(os.path.abspath(__file__)))

COMMON_NOTE = ("Trusted: Coq 8.16.1 kernel + vm_compute; no axioms (Print Assumptions of every theorem must say 'Closed under the global "
               "context', checked on every run; thorough: coqchk -o); translator/gen.py; extraction with ExtrOcamlBasic only; the harness "
               "(generators, independent readers, oracle answers from hashlib/xxhash/pathspec). The model is a hand transcription of the Python "
               "code, tied to it by behaviour: the extracted model and the real tool run the same scenarios in lockstep. ")

CLAIMS = {}


def claim(pid, text, note, technique, design, engines=("coq-model", "correspondence")):
    CLAIMS[pid] = dict(text=text, note=COMMON_NOTE + note, technique=technique, design=design)


claim("C01",
      "Theorems over all byte strings / all positive chunk sizes / all short-read patterns / all format lists / all 512-bit values: the two read loops and the multi-format pass equal one-shot hashing, every entry point reduces to enc f (Hb f bytes), the C4 codec yields 90 chars, 'c4' prefix, alphabet, '1' padding and decodes back, hex is lower-case and round-trips, the format table binds each name to its primitive. Tied to the code by the translator (chunk sizes, C4 constants, table) and by a differential run of the extracted model against hasher.py, the hash command and create.",
      "Hb (MD5/SHA-1/SHA-512/xxHash primitives of hashlib/xxhash) is an oracle: its conformance to the standards is trusted and only cross-checked (coreutils md5sum/sha1sum/sha512sum, reference XXH32/XXH64, published empty-input answers). Streaming law of hasher objects is a premise.",
      "Coq proof (induction over fuel/lists, positional-notation lemmas over N) + translator-regenerated constants + extracted-model correspondence",
      "DESIGN.md 3 C01")
claim("C04",
      "Theorems about the per-file sealing decision the model runs for every file (seal = seal_file_path + append_file_hash, validate_record = _validate_new_hash_list), for every history, path, digest function and format request: closed form of the written record; 'original' iff no earlier original entry (hence at most once along any history); an entry of a recorded format is 'verified' iff equal to the EARLIEST recorded digest of that format, else 'failed'; look-ups are stable under appended generations (a later generation never becomes the reference); a failed check blocks all new-format digests; a new-format digest needs a verified recorded format in the same record and is written as 'verified'; on an unaltered file EVERY sequence of format requests runs through without abort or failure (induction over the sequence, any prior history). Tied to the code by lockstep runs of the extracted model against create (folder / -sf / nested) incl. a format-sequence sweep, and by an independent oracle on the manifests.",
      "PARTIAL with respect to the tree level: the theorems are about one file's record against one history; that create applies this decision to every visible file of every history (routing, session, commit) is carried by the correspondence runs, not by a theorem.",
      "Coq proof (closed-form characterisation of the two seal loops, induction over generation sequences) + extracted-model lockstep correspondence + manifest oracle",
      "DESIGN.md 3 C04")

claim("C02",
      "END-TO-END theorem for a tree whose only history is the root's (any prior generations, any patterns / formats / -n): create in folder mode writes one generation whose record paths are exactly the entries no ignore pattern excludes -- every one, each once, nothing else (fold invariant over the traversal events + session + commit, joined with the traversal theorem). Step theorems for the general nested case (all trees, pattern lists, matchers, listing orders, histories): the traversal hands the command exactly the entries no pattern excludes -- a permutation of the specification `entries`, each entry once, nothing below an ignored folder -- and is independent of the order in which a folder is listed; each entry is routed to the deepest loaded history containing it and recorded under root ++ relative = path (no foreign components, so never absolute or escaping); inserting into a generation's record list never duplicates a path; every digest written is the digest of the file's bytes in the entry's own format. Tied to the code by lockstep runs of the extracted create model (folder / -sf / nested / -n / patterns) against the real tool on random trees (names with spaces, non-ASCII, XML-special, glob characters) and by an independent oracle comparing every new manifest with the tree.",
      "PARTIAL: for NESTED histories and for -sf mode the composition of the step theorems (routing, session, commit) is carried by the correspondence, not by one theorem.",
      "Coq proof (nested induction over trees, permutation reasoning, fold invariants) + extracted-model lockstep correspondence + manifest-vs-tree oracle",
      "DESIGN.md 3 C02")
claim("C07",
      "Theorems (all trees, formats, matchers, primitives Hb): the recorded / recomputed directory hash equals the compositional definition vhash evaluated on the tree pruned of ignored entries; the digest list is sorted before hashing, so any enumeration order of a folder gives the same hashes (hash_of_hash_list and dirhash are permutation invariant); an empty directory hashes as the empty input; the content hash is invariant under renaming files and folders at any depth; SENSITIVITY as a reduction (collision freedom is never assumed): equal hashes of two digest lists mean the lists are permutations of each other or an explicit collision of the primitive exists, and changing the content of one file at any depth changes the content hash of every enclosing folder or exhibits such a collision (premise: the primitive returns digests of the format's width; satisfiable, shown for a toy primitive). Tied to the code by lockstep comparison of every <directoryhash>/<roothash> and of verify -dh -co output with the extracted model (whose Hb queries are answered by hashlib/xxhash) and by an independent recomputation.",
      "PARTIAL: that the STRUCTURE hash binds names (rename => structure hash changes, needs injectivity of the UTF-8 encoder) is only exercised by the metamorphic runs. Decoding of digest texts is total only for well-formed digests (C01).",
      "Coq proof (refinement dirhash = vhash o prune, permutation invariance via a verified sort, mutual induction for renaming) + lockstep correspondence + independent recomputation",
      "DESIGN.md 3 C07")
claim("C08",
      "Theorems: a path is routed to a loaded history that contains it and whose root is at least as deep as that of any other loaded history containing it (fold invariant over any list of histories); containing roots of equal depth are equal, so string-prefix sibling names cannot confuse the component-wise routing; the record path is relative to that root; the root folder of a nested history is also recorded in its parent history as a directory entry with the same hashes; one history's commit either is skipped (no records, no references), aborts, or writes exactly one generation numbered latest+1, manifest before chain, creating the ascmhl folder only when absent, and hands exactly one reference (relative path, generation number) to its parent's list and to no other. Tied to the code by lockstep runs on random nestings (prefix-named siblings, depth <= 4, folder / -sf / -n) and an oracle that recomputes reference digests from the referenced files.",
      "PARTIAL: which histories write in one run (the commit set) for nested layouts and -sf mode is carried by the correspondence, not by a theorem. Proved in addition: load lists every nested history before the history containing it (root last) and commit performs its write operations grouped by history in that order (children before parents).",
      "Coq proof (fold invariants, case analysis of commit_one) + lockstep correspondence + reference/partition oracle",
      "DESIGN.md 3 C08")
claim("C12",
      "Theorems: set_patterns puts the previous generation's list (or the defaults) first, unchanged and in order; contains exactly previous/default + command-line + file patterns; never a duplicate; the defaults (.DS_Store, ascmhl, ascmhl/ -- an obligation on the regenerated constant) can never be lost; blank lines of pattern files are skipped; over ANY sequence of runs each generation's list is a prefix of the next (induction); every generation a run writes -- root or nested -- carries set_patterns(own latest list, session list), so nested histories receive the parent's patterns; the traversal hands over exactly the non-ignored entries (an ignored entry and everything below an ignored folder is never hashed, recorded or reported new) and the missing-files report is filtered by the same matcher. Tied to the code by lockstep runs with -i / repeated -i / -ii over 1-5 generations, flat and nested, and an oracle on the <ignore> lists and record sets.",
      "PARTIAL: pathspec's gitwildmatch semantics is an oracle (the matcher is a parameter of every theorem); that directory hashes skip ignored entries is C07's refinement theorem.",
      "Coq proof (list induction, induction over run sequences, nested tree induction) + lockstep correspondence + pattern/record oracle",
      "DESIGN.md 3 C12")

claim("C05",
      "Theorems, for every content type and digest function (so every byte position and kind of edit is covered; an edit that keeps the digest is a collision of the reference hash): the chain check passes exactly when every chain entry names an existing manifest whose content has the recorded digest; a changed manifest, a missing manifest and a missing chain file make it fail with one of the dedicated codes, which are 31 / 33 / 32 (obligations on the constants regenerated from errors.py); loading succeeds only if EVERY history of the tree -- root and nested, at any depth -- passes the check (nested induction over the tree); every history-reading command (create, create -sf, verify / verify -sf, diff, verify -dh, info, info -sf, flatten) then returns the loader's code together with the unchanged tree, no written generation and no file-system operation. Tied to the code by lockstep runs with one fault (flip / insert / delete / truncate / append at a random position of any manifest of any history, removal of a manifest or chain) followed by the eight commands, with a byte snapshot of the whole tree and the flatten destination before and after.",
      "Collision resistance of SHA-512/C4 is not provable: cdig is abstract and 'detected' means 'digest differs'. With several simultaneous faults the first failing chain entry decides between 31 and 33 (proved as a disjunction).",
      "Coq proof (characterisation of the chain check, nested tree induction for all depths, unfolding of every command) + regenerated exit codes + lockstep fault-injection correspondence with byte snapshots",
      "DESIGN.md 3 C05")

claim("C03",
      "END-TO-END theorem (base case of the property's first sentence): sealing a well-formed tree that has no history anywhere -- any format request, -n or not, any ignore patterns -- and then running verify and diff on the untouched result gives exit 0 with empty reports, for every tree, matcher and hash primitive (composes traversal exactness, the session fold, validation, commit, the loader on the resulting tree, stability of the written pattern list and the verify fold). General theorem 'never a false alarm': any tree consistent with its loaded histories (every visited file hashes to the first original digest recorded for it; every recorded path visited or ignored) verifies and diffs with exit 0, whatever formats, patterns or nesting. Step theorems, for every tree, history, pattern list, matcher and primitive: verify names as altered exactly the visited files whose bytes no longer hash to the FIRST 'original' digest recorded for them (in that entry's own format, in the history the path is routed to) and as new exactly the visited files without such a reference -- hence never an unaltered file (no false alarm), and modification times do not occur in the model at all; the exit code is selected from the reported sets as verify 11 > 21 > 10 > 0, diff 10 > 21 > 0, create 11 > 10 > 30 > 0 with 0 only when nothing is missing (codes are obligations on the regenerated constants); what is visited is exactly the non-ignored part of the tree (traversal theorems of C02/C12) and ignored paths are filtered from the missing report. Tied to the code by lockstep runs over sealed trees (flat / nested, 1-3 generations, patterns) followed by 0-3 mutations (same-size bit flip with kept mtime, rewrite, delete file / empty dir, add, touch) and verify, diff, create; an independent oracle derives the expected exit code and named paths from the manifests read back with another XML reader.",
      "PARTIAL: end to end only for the fresh flat tree; for several generations, nested histories and MUTATED trees (altered / removed / added => 11 / 10 / 21) the composition create -> history -> verify is carried by the step theorems plus the correspondence and the oracle.",
      "Coq proof (closed form of the verify fold, case analysis of the exit-code selection) + regenerated exit codes + lockstep mutation correspondence + independent oracle",
      "DESIGN.md 3 C03")
claim("C09",
      "Theorems, for every tree, history and option combination: verify -dh is total -- it always ends with an exit code, never an internal error; the exit code is 12 (obligation on the regenerated constant) exactly when some format failed and every judged format (those of the root history's root hashes, default c4) is among the failed ones, else 0; a recorded directory entry -- of a sub-folder in the history it is routed to, or a root hash of any generation of the root history, so entries directly in the root folder count -- fails exactly when the content or structure hash computed now over the non-ignored entries differs or the folder is gone; an entry whose content hash was recorded before a one-file content change at any depth below the folder fails afterwards, or an explicit collision of the primitive is exhibited. Tied to the code by lockstep runs (flat folders, nested histories with differing formats, -n generations, one mutation at any depth incl. the root folder) and by an oracle that recomputes every recorded directory hash independently.",
      "PARTIAL: 'unchanged tree gives 0 / any change gives 12' additionally needs that the recorded hashes are those of the sealed tree (create and verify -dh share `dirhash`; checked by correspondence) and collision freedom of the primitive (not provable).",
      "Coq proof (totality, closed form of the exit decision, characterisation of a failing entry) + lockstep mutation correspondence + independent directory-hash oracle",
      "DESIGN.md 3 C09")

claim("C06",
      "Theorems, for every content type and digest function: the history value one commit writes is after_commit (old files ++ [new manifest], old chain ++ [new entry]) and the new number is latest+1 with increment 1 (obligation on the regenerated constant); on a well-formed history (manifests 1..n, chain lists exactly them in order, every entry carries its manifest's digest) a commit yields number n+1, keeps every existing manifest (the old list is a prefix), keeps all earlier chain entries unchanged and in order, appends exactly one entry with the new manifest's number and digest, and the result is well-formed again -- hence, by induction, after ANY sequence of commits from the empty history; reloading yields generations 1..n ascending, and ascending for any order of the files in the folder. Tied to the code by lockstep runs of 2-12 create / create -sf runs (real clock, several per second, exits 0/10/11) with edits, flat and nested, and an oracle that takes the c4 of every manifest's bytes and the parsed chain from disk before/after every run.",
      "PARTIAL: the manifest file NAME (NNNN_<folder>_<UTC time>Z.mhl) is not modelled; naming, zero padding and the UTC stamp are checked on the implementation by the oracle only. That create reaches commit for exactly the histories in scope is C08.",
      "Coq proof (invariant preserved by commit, induction over commit sequences, verified sort) + lockstep correspondence + on-disk chain/manifest oracle",
      "DESIGN.md 3 C06")
claim("C13",
      "Listing order -- theorems: the traversal, the directory hashes, the discovery of nested histories (hence the order of references) and the order of loaded generations are each independent of the enumeration order of a folder (permutation of the children with distinct names gives the same result; verified sort with distinct keys). Location -- theorem: a command run at a folder computes its result from that sub-tree alone (patterns are matched on root-relative paths), so two placements of the same sub-tree give the same observation up to the path prefix. Tied to the code by metamorphic runs of the real tool under a frozen clock with equalised mtimes: the same command sequence (incl. nested child histories) at a reference location vs under parents named ascmhl / ascmhl/nested / matching the user's own pattern, with trailing slash, by relative path, as ./r/, and with os.listdir/os.scandir reversed and shuffled -- every file of every ascmhl folder byte-identical; relocated copies verify and diff with exit 0; the reference run is also compared with the extracted model.",
      "PARTIAL: the location half is nearly definitional in the model (it has no absolute paths); its assurance comes from the metamorphic runs, which sample locations and permutations.",
      "Coq proof (permutation invariance through a verified key sort, sub-tree locality) + metamorphic byte-comparison runs of the implementation + lockstep correspondence",
      "DESIGN.md 3 C13")
claim("C14",
      "Theorems about the model's effect description: verify (all modes), diff, verify -dh, info, info -sf and flatten (w.r.t. the source) return the tree unchanged and an empty list of file-system operations for every input and outcome; a commit leaves the media tree (the tree with all ascmhl folders erased) unchanged, every operation it performs is the mkdir of a not-yet-existing ascmhl folder, the placement of a manifest or of the chain of a LOADED history, and generations are written only into loaded histories; for the COMPOSED create commands (folder mode with all options incl. -dr, and -sf mode) on every well-formed tree and for every outcome: the media tree is the same afterwards, every write concerns the ascmhl folder of a history of the tree, and a refused run writes nothing (uses: every loaded history sits at an existing folder). Tied to the code, on every command of random command sequences (create folder/-sf/nested/-n/patterns, verify, verify -sf, verify -dh, verify -pl, diff, info, info -sf, hash, xsd-schema-check, flatten; any exit code): a full snapshot (type, bytes, mode, mtime) of tree and flatten destination before/after, and the Python audit events (open-for-write, mkdir, rename, remove, rmdir, utime, chmod, truncate, link, symlink, shutil.*) whose normalised sequence must equal the model's op list.",
      "PARTIAL by nature: the theorem is about the model's op list; writes that raise no audit event would be invisible (none known: lxml does no file I/O here). hash and xsd-schema-check are not in the model (snapshot + audit only).",
      "Coq proof (case analysis of the readers, fold invariant over commit with an erase-histories abstraction) + audit-event trace vs model op list + full before/after snapshots",
      "DESIGN.md 3 C14")

claim("C17",
      "Theorems about the rename-detection loop the model executes (create -dr), for every history, session and tree: a recorded path is taken off the missing list ONLY when some new path carries the digest the missing path is identified by -- the first entry ever recorded for it -- compared in that entry's own format, re-hashing the new file in the old format when the new record lacks it (soundness of one comparison and, by a fold invariant, of the whole double loop); a successful comparison stores the old path as previous path on exactly the new record and marks the path found; a record with a previous path is indexed under both names, which is what later runs use to look it up. Tied to the code by lockstep runs (1-3 rounds of 1-4 simultaneous renames / moves between directories incl. new folders and unchanged base names, unrelated new files, create -dr with the same or other formats, then verify / diff / create, altering a renamed file, and the same trees without -dr) and an oracle on <previousPath>, exit codes and the missing / new reports.",
      "PARTIAL: completeness (every renamed file of a tree with pairwise distinct contents IS matched) and the acceptance by the following verify / diff / create are carried by the correspondence and the oracle, not by a theorem. The iteration order over Python sets is modelled as sorted order; it only matters outside the property's domain (identical contents).",
      "Coq proof (case analysis of one comparison, fold invariant over the double loop) + lockstep correspondence + previous-path oracle",
      "DESIGN.md 3 C17")
claim("C18",
      "Theorems for every history: the flattened record list holds each path at most once, no directory record and no failed digest (fold invariant over the triple loop of flatten_history); flatten returns the source tree unchanged and performs no write in it. Tied to the code by lockstep runs over flat histories of 2-7 generations (changing format sets, failed entries, -sf and -n generations, added files; absolute and relative destination): the model's flattened records vs the packing list read with an independent XML reader; oracle: one record per file path ever recorded, per format the earliest non-failed digest, no directory records, process type flatten, source byte-identical, verify -pl exits 0 on the unchanged and non-zero on an altered tree.",
      "PARTIAL: 'exactly the earliest non-failed digest per format' and completeness over all recorded paths are established by correspondence + oracle only; verify -pl is not in the model (oracle only).",
      "Coq proof (fold invariants) + lockstep correspondence + independent packing-list oracle",
      "DESIGN.md 3 C18")
claim("C19",
      "Theorems: info's lines for a history start with exactly its generations in load order (ascending 1..n by C06) after the history header; the exit code is 30 (obligation on the regenerated constant) exactly when the folder has no generation; info -sf prints the history header, the file line and then exactly one line per digest recorded for the file in that history -- a line (generation, format, digest, action) is printed iff some generation's record for the path holds that entry, and the number of lines is the total number of recorded entries -- and exits 30 without history. Tied to the code by lockstep runs over histories with 1-4 root generations, failed / new-format entries, -sf generations and nested histories up to four levels deep; the oracle compares the parsed output (histories each exactly once, generations ascending, creation dates, per-digest lines of the nearest enclosing history) with the manifests read independently.",
      "PARTIAL: the text layout of the output and the creation dates are not modelled (oracle only); the recursion over child histories (each nested history printed once) is checked by correspondence + oracle.",
      "Coq proof (unfolding of the info functions, list characterisations) + regenerated exit code + lockstep correspondence + output oracle",
      "DESIGN.md 3 C19")

claim("C15",
      "Theorems about the model of the write sequence of one history's commit ([mkdir ascmhl] then, for the manifest and then for the chain file: open a temporary file, any number of write() calls, close, os.replace into place): for EVERY crash point -- every prefix of the sequence, for every number of write calls -- an existing well-formed history ends in one of three shapes, and in each of them all previously committed manifests are present unchanged and in order, the chain lists every previously committed generation with its digest, and the history passes the loader's chain check; the interrupted generation is wholly present or wholly absent in all shapes but one. The full statement is REFUTED for the faithful model in two windows, proved reachable and recorded as known findings: W1 (new history: folder exists, chain not yet -- later commands exit 32) and W2 (manifest in place, chain not yet replaced -- unchained manifest). Tied to the code by killing the real create (os._exit) at every write-type audit event, at every write() into a file under construction (buffer dropped / half a chunk flushed) and before every close(), on trees with 0-3 committed generations, flat and nested; after every kill the remains are compared byte for byte, classified, and info / verify / create are run on them; the uninterrupted run's event trace must equal the model's op list.",
      "PARTIAL by nature: real kills sample runs; power-loss reordering below the VFS (no fsync model) and non-POSIX rename semantics are out of reach. Known findings W1 and W2 (known_findings.json) are genuine defects that are not small to repair (a manifest and its chain entry are two files).",
      "Coq proof (prefix-closure of the micro-operation sequence, shape invariant, refutation witnesses) + kill-point enumeration on the real command + op-trace correspondence",
      "DESIGN.md 3 C15")

claim("C11",
      "Theorems: the executable validator `validate` (complete backtracking content-model matcher, simple types, attribute uses) decides EXACTLY the declarative semantics of the schema values -- for every schema of the supported XSD subset and every document (validate s x = true <-> ValidDoc s x); composition rules for sequences, occurrence ranges and choices (the shapes the writers produce); the e-mail pattern is exactly the language of the XSD's regular expression; the tool's own date format (civil fields, whole-minute offset) and decimal integers are accepted. The two schema values are regenerated from xsd/ASCMHL.xsd and xsd/ASCMHLDirectory.xsd by the translator on every run (fail-closed on anything outside the subset); real tool output validates and 15 kinds of broken documents are rejected by vm_compute against the regenerated values. Tied to the code by running the extracted validator and lxml/libxml2 on the same bytes: every file the real tool writes in generated histories (all option combinations incl. -h repeated, -n, -sf, -dr, -i/-ii, creator options, nested parents that only receive references, empty folders, flatten, failing runs, eight time zones) and ~20 kinds of mutants of them. Oracle: lxml XSD validation of every written manifest, chain and collection file.",
      "PARTIAL: the theorem 'every document the writers' model emits is valid' (manifest_valid / chain_valid) is not yet proved -- the full statement and the ten invariants it needs are kept in the TODO section of Props/C11.v; until then the property itself rests on the oracle + the validator/libxml2 tie. libxml2 is the reference reading of XSD 1.0 (the validator is as strict as libxml2 where that is stricter than the W3C text). Known finding: local-mean-time offsets with seconds (xsd-invalid:lmt-offset).",
      "Coq proof (validator = declarative semantics by mutual induction over schema values; regex and date-format lemmas) + schemas regenerated by the translator + extracted validator vs libxml2 differential run + XSD oracle on every written file",
      "DESIGN.md 3 C11")

claim("C20",
      "Theorems over a two-thread transition system of cli/update.py and the result callbacks, for every server behaviour (answer time incl. never, RequestException / other exception / HTTP status / non-JSON / non-dict / missing, null, non-string, unparsable or valid tag_name), every command (output chunks, work, normal return or any non-returning end) and EVERY schedule: stdout is the command's output plus at most one notice, shown only for a strictly newer final release received before the join ended; the wait is <= join_timeout (regenerated constant, obligation = 1 s in both groups; daemon thread; strict comparison); no deadlock, no infinite run, every maximal run ends in Exit; the main thread never raises. Exit status: REFUTED at full strength for the code as it stands (known finding: abort 134 at interpreter shutdown while a dying, unjoined checker thread holds stderr), proved outside the Coq-defined region and as 'the command's status or that abort'. Tied to the code by subprocess runs of both click groups with a scripted requests.get (37 fixed + seeded random behaviours x 13 commands x installed versions) compared with the model's vm_compute prediction (generated cases.v) and with a reference run (same exit, same stdout plus one optional notice, wall-clock <= reference + 1 s + 1.5 s, process terminates).",
      "PARTIAL by nature: the real scheduler, interpreter shutdown and wall-clock are sampled (1.5 s slack); click's rule 'result callback only after a normal return' and packaging's version parser enter as data of a configuration.",
      "Coq invariant proof over reachable states of a two-thread transition system + translator constants + subprocess correspondence through vm_compute-evaluated cases + reference-run oracle",
      "DESIGN.md 3 C20")

PENDING = "check under construction (planned: proof + correspondence, see DESIGN.md section 3)"


def main():
    ids = [json.loads(l)["id"] for l in open(os.path.join(HERE, "properties.jsonl"))]
    checks, na = [], []
    for pid in ids:
        c = CLAIMS.get(pid)
        if not c or not os.path.exists(os.path.join(HERE, "coq", "Props", f"{pid}.v")) or not os.path.exists(os.path.join(HERE, "harness", "vh", "props", f"{pid.lower()}.py")):
            na.append({"property_id": pid, "reason": PENDING})
            continue
        checks.append({
            "property_id": pid,
            "quick_cmd": f"bin/check {pid} --tier quick",
            "thorough_cmd": f"bin/check {pid} --tier thorough",
            "evidence_file": f"evidence/{pid}.json",
            "replay_cmd_template": f"bin/check {pid} --replay {{path}}",
            "engine": "coq-model",
            "level_claimed": {"category": "proof", "text": c["text"], "design_ref": c["design"]},
            "level_note": c["note"],
            "technique": c["technique"],
        })
    claimed = [c["property_id"] for c in checks]
    man = {
        "version": 1,
        "setup_cmd": "bin/setup",
        "hooks": {
            "guard": "ASCMITC_MHL_VERIF",
            "enable": "none needed: all instrumentation (audit hooks, crash injection, stubbed network, traced hashers) is injected from the harness process / a sitecustomize on PYTHONPATH; /repo carries no hook code",
            "baseline_off_cmd": "cd /repo && /venv/bin/python -m pytest -ra -q -p no:cacheprovider --timeout=900 --continue-on-collection-errors",
            "source_commits": [],
            "add_only": True,
        },
        "engines": [
            {"name": "coq-model", "path": "coq/", "serves_properties": claimed, "kind_free_text": "hand-written executable Gallina model + theorems (Coq 8.16.1, stdlib only); constants regenerated from /repo by translator/gen.py on every run"},
            {"name": "correspondence", "path": "harness/vh/", "serves_properties": claimed, "kind_free_text": "differential run of the extracted OCaml model (ocaml/driver) against the real implementation, plus the property oracle on implementation output"},
        ],
        "checks": checks,
        "not_applicable": na,
        "notes": "See DESIGN.md. known_findings.json lists recorded findings and fixed defects. seeded/ holds independently written breaking changes and which checks catch them.",
    }
    with open(os.path.join(HERE, "MANIFEST.json"), "w") as fh:
        json.dump(man, fh, indent=1)
        fh.write("\n")
    print("claimed:", " ".join(claimed))
    print("pending:", " ".join(x["property_id"] for x in na))


if __name__ == "__main__":
    sys.exit(main())
